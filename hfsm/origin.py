"""Interprocedural value origins on expression trees.

origin(F, fid, expr, field) -> set of Atom: where can the value (or, for aggregate values, its member `field`) come from?
Copy propagation through single-assignment locals; `?:` and returns of resolved callees are unioned; aggregate
construction `T{a, b}` is projected on the constructor parameter that initialises `field`.
"""
from .ir import walk, strip, is_noop, AnalysisBroken, fn_paths, Sym


class Atom(tuple):
    """(kind, detail, fid, line, via) — via: (class, method) of the outermost call the value came through, or None"""
    __slots__ = ()

    def __new__(cls, kind, detail, fid=None, line=None, via=None):
        return tuple.__new__(cls, (kind, detail, fid, line, via))

    kind = property(lambda s: s[0])
    detail = property(lambda s: s[1])
    fid = property(lambda s: s[2])
    line = property(lambda s: s[3])
    via = property(lambda s: s[4])

    def through(self, via):
        return Atom(self[0], self[1], self[2], self[3], via)   # the outermost call wins


def local_defs(body):
    """name -> list of defining expressions (decl init, assignments) anywhere in the function."""
    defs = {}
    for n in walk(body):
        k = n.get("k")
        if k == "decl":
            for v in n.get("vars", []):
                defs.setdefault(v["n"], []).append(("decl", v.get("init"), v))
        elif k == "asg":
            l = strip(n["lhs"])
            if l.get("k") == "var" and l.get("d") == "local":
                defs.setdefault(l["n"], []).append(("asg", n["rhs"], n))
        elif k in ("for",):
            pass
    return defs


def returns_of(body):
    """return statements reachable on structured paths (conditions over template constants folded)."""
    seen = {}
    for p in fn_paths(body, loop_iters=1):
        for ev in p:
            if ev[0] == "ret" and ev[1].get("e") is not None:
                seen[id(ev[1])] = ev[1]
    return list(seen.values())


class Origins:
    def __init__(self, F, user_atoms=None):
        self.F = F
        self._defs = {}
        self._ret = {}
        self.user_atoms = user_atoms or {}

    def defs(self, fid):
        if fid not in self._defs:
            b = self.F.body(fid)
            self._defs[fid] = local_defs(b["body"]) if b else {}
        return self._defs[fid]

    def ctor_param_for_field(self, ctor_fid, field):
        """index of the constructor parameter that initialises member `field` (by the ctor's mem-initialiser)."""
        b = self.F.body(ctor_fid)
        if b is None:
            return None
        for init in b.get("inits", []) or []:
            if init.get("member") == field:
                for n in walk(init.get("init")):
                    if n.get("k") == "var" and n.get("d") == "param":
                        return n.get("pi")
        return None

    def field_index(self, tid, field):
        t = self.F.type(tid)
        if not t:
            return None
        for i, f in enumerate(t.get("fields", [])):
            if f["n"] == field:
                return i
        return None

    def ret_origins(self, fid, field, stack):
        key = (fid, field)
        if key in self._ret:
            return self._ret[key]
        if key in stack:
            return set()
        b = self.F.body(fid)
        if b is None or b.get("body") is None:
            f = self.F.fn(fid)
            return {Atom("extern", self.F.fdisp(fid), fid, None)}
        out = set()
        rets = returns_of(b["body"])
        if not rets:
            out.add(Atom("noreturn", self.F.fdisp(fid), fid, None))
        for r in rets:
            out |= self.origin(fid, r["e"], field, stack | {key}, line=r.get("l"))
        self._ret[key] = out
        return out

    def origin(self, fid, e, field=None, stack=frozenset(), line=None, seen_locals=frozenset()):
        F = self.F
        if e is None:
            return {Atom("none", "", fid, line)}
        k = e.get("k")
        ln = e.get("l", line)
        if k in ("cast", "defarg", "definit"):
            if k == "defarg":
                return {Atom("deflit", a.detail, a.fid, a.line, a.via) if a.kind == "lit" else a
                        for a in self.origin(fid, e.get("e"), field, stack, ln, seen_locals)}
            return self.origin(fid, e.get("e"), field, stack, ln, seen_locals)
        if "cv" in e and field is None and k != "asg":
            return {Atom("lit", e["cv"], fid, ln)}
        if k == "lit":
            return {Atom("lit", e.get("v"), fid, ln)}
        if k == "zero":
            return {Atom("lit", 0, fid, ln)}
        if k == "cond":
            c = e["c"]
            # guarded read idiom: (x != INVALID) ? x : alt
            g = self._guard(c)
            t = self.origin(fid, e["t"], field, stack, ln, seen_locals)
            f_ = self.origin(fid, e["f"], field, stack, ln, seen_locals)
            if g is not None:
                gexpr, sentinel, neq = g
                bexpr = e["t"] if neq else e["f"]
                branch = t if neq else f_
                other = f_ if neq else t
                if self._expr_eq(gexpr, bexpr):
                    # the value is used only on the branch where it differs from the sentinel
                    branch = {Atom("guarded", "%s != %s" % (a.detail, sentinel), a.fid, a.line, a.via)
                              if a.kind in ("read", "param", "local") else
                              (a if not (a.kind == "lit" and a.detail == sentinel) else Atom("guarded", "lit", a.fid, a.line, a.via))
                              for a in branch}
                return branch | other
            return t | f_
        if k == "var":
            d = e.get("d")
            if d == "local":
                n = e["n"]
                if n in seen_locals:
                    return {Atom("loopvar", n, fid, ln)}
                ds = self.defs(fid).get(n)
                if not ds:
                    return {Atom("local", n, fid, ln)}
                out = set()
                for kind, init, node in ds:
                    if init is None:
                        out.add(Atom("uninit", n, fid, ln))
                        continue
                    if kind == "asg" and node.get("op") != "=":
                        out.add(Atom("loopvar", n, fid, ln))
                        continue
                    out |= self.origin(fid, init, field, stack, ln, seen_locals | {n})
                # a local that is also incremented (loop counter)
                b = F.body(fid)
                for x in walk(b["body"]):
                    if x.get("k") == "un" and x.get("op") in ("++", "--"):
                        t = strip(x["e"])
                        if t.get("k") == "var" and t.get("n") == n:
                            out = {Atom("loopvar", n, fid, ln)}
                return out
            if d == "param":
                return {Atom("param", e["n"] + ("." + field if field else ""), fid, ln)}
            return {Atom("const", e["n"], fid, ln)}
        if k == "mem":
            if "f" in e:
                return {Atom("fnref", F.fdisp(e["f"]), fid, ln)}
            base = strip(e.get("b"))
            # projection of an aggregate-valued expression
            if base is not None and base.get("k") in ("var", "call", "ctor", "ilist", "cond") and field is None:
                bt = base
                if base.get("k") == "var" and base.get("d") == "local":
                    return self.origin(fid, base, e["n"], stack, ln, seen_locals)
                if base.get("k") in ("call", "ctor", "ilist", "cond"):
                    return self.origin(fid, base, e["n"], stack, ln, seen_locals)
            return {Atom("read", self._symname(e), fid, ln)}
        if k == "idx":
            return {Atom("read", self._symname(e), fid, ln)}
        if k in ("ilist", "ctor"):
            args = e.get("a", [])
            if (e.get("copy") or e.get("move")) and len(args) == 1:
                return self.origin(fid, args[0], field, stack, ln, seen_locals)
            if field is None:
                if len(args) == 1:
                    return self.origin(fid, args[0], None, stack, ln, seen_locals)
                if len(args) == 0:
                    return {Atom("lit", 0, fid, ln)}
                return {Atom("aggregate", e.get("t", "?"), fid, ln)}
            idx = None
            if k == "ctor" and "f" in e:
                idx = self.ctor_param_for_field(e["f"], field)
            if idx is None:
                idx = self.field_index(e.get("tid"), field)
            if idx is not None and idx < len(args):
                return self.origin(fid, args[idx], None, stack, ln, seen_locals)
            if k == "ctor" and "f" in e:
                # defaulted parameter: default arguments are explicit defarg nodes, so a missing arg means a missing param
                return {Atom("unknown-field", field, fid, ln)}
            return {Atom("lit", 0, fid, ln)}
        if k == "call":
            if "f" not in e:
                return {Atom("icall", "", fid, ln)}
            cf = F.fn(e["f"])
            name = cf["name"]
            if name in self.user_atoms:
                hit = self.user_atoms[name](F, e, cf)
                if hit is not None:
                    return {Atom(hit[0], hit[1], fid, ln)}
            via = (cf.get("cls", ""), name)
            if F.body(e["f"]) is None:
                return {Atom("extern", F.fdisp(e["f"]), fid, ln, via)}
            # accessor chains that inline to a place are reads of that place (in the caller's terms)
            S = Sym(F, fid)
            if S.accessor_body(e["f"]) is not None:
                s = S.sym(e)
                if "(" not in s and not s.startswith("#"):
                    return {Atom("read", s + ("." + field if field else ""), fid, ln)}
            return {a.through(via) for a in self.ret_origins(e["f"], field, stack)}
        if k == "bin":
            return {Atom("expr", e["op"], fid, ln)}
        if k == "un":
            return {Atom("expr", e["op"], fid, ln)}
        if k == "asg":
            return self.origin(fid, e["rhs"], field, stack, ln, seen_locals)
        return {Atom("other", str(k), fid, ln)}

    # helpers -----------------------------------------------------------------------------
    def _symname(self, e):
        parts = []
        x = e
        while isinstance(x, dict):
            k = x.get("k")
            if k == "mem":
                parts.append(x["n"])
                x = x.get("b")
            elif k == "idx":
                i = strip(x["i"])
                parts.append("[%s]" % (i.get("cv") if "cv" in i else i.get("n", "?")))
                x = x.get("b")
            elif k in ("cast", "defarg"):
                x = x.get("e")
            elif k == "var":
                parts.append(x["n"])
                break
            elif k == "call" and "f" in x:
                parts.append(self.F.fn(x["f"])["name"] + "()")
                x = x.get("obj")
            elif k == "this":
                parts.append("this")
                break
            else:
                parts.append("?")
                break
        return ".".join(reversed(parts)).replace(".[", "[")

    def _guard(self, c):
        c = strip(c)
        if c.get("k") == "bin" and c["op"] in ("!=", "=="):
            l, r = strip(c["lhs"]), strip(c["rhs"])
            for a, b in ((l, r), (r, l)):
                if "cv" in b and b.get("k") in ("var", "lit"):
                    return (a, b["cv"], c["op"] == "!=")
        return None

    def _expr_eq(self, a, b):
        a, b = strip(a), strip(b)
        if a.get("k") == "var" and b.get("k") == "var":
            return a["n"] == b["n"] and a.get("d") == b.get("d")
        if a.get("k") in ("mem", "idx") and b.get("k") in ("mem", "idx"):
            return self._symname(a) == self._symname(b)
        return False

    def _guard_sym(self, a):
        a = strip(a)
        if a.get("k") == "var":
            return a["n"]
        return self._symname(a)

    def _same(self, detail, gsym):
        return detail == gsym or detail.endswith("." + gsym) or gsym.endswith(detail)
