"""Which units (TU x configuration x dispatch path x flavour) each property analyses per tier."""
from .facts import zoo_units, Unit, REPO, CONFIGS, VERIF
import glob, os


def zoo(cfgs, gcc=(True,), flavour="include", std="gnu++17"):
    us = []
    for c in cfgs:
        for g in gcc:
            us += zoo_units(c, g, flavour, std)
    return us


def test_units():
    us = []
    for p in sorted(glob.glob(os.path.join(REPO, "test", "*.cpp")) + glob.glob(os.path.join(REPO, "test", "*", "*.cpp"))):
        if os.path.basename(p) == "main.cpp":
            continue
        if "stress" in os.path.basename(p):
            # stress_size.cpp / test_stress.cpp instantiate machines with thousands of states: the fact file of one such unit needs > 50 GB
            # of extractor memory; they add no pattern x argument-kind combination that the zoo lacks (DESIGN 12.1)
            continue
        us.append(Unit("test_" + os.path.basename(p)[:-4], p, "none", True))
    return us


# (+ two parts with every optional feature off: a statement that slipped under a feature's #if / HFSM2_IF_* only shows where the feature is absent)
QUICK_DEFAULT = lambda: zoo(["all"], gcc=(True, False)) + parts("none", (1, 3, 4), True)
THOROUGH_DEFAULT = lambda: (zoo(["all", "all-li", "all-nolog", "none", "plans", "utility", "serial", "history", "report", "log", "verbose",
                                 "all-plans", "all-utility", "all-history"], gcc=(True,))
                            + zoo(["all", "none"], gcc=(False,)) + zoo(["all"], gcc=(True,), flavour="development")
                            + zoo(["all"], gcc=(True,), std="gnu++11") + test_units())


def parts(cfg, ps, gcc=True, flavour="include", std="gnu++17"):
    return [u for u in zoo_units(cfg, gcc, flavour, std) if int(u.name[3:]) in ps]


# quick-tier overrides: effect-heavy checks analyse the parts that contain both registry specialisations (zoo2: orthogonal root,
# zoo3: no orthogonal region at all) instead of the whole zoo; the thorough tier always takes everything
QUICK = {
    # (+ zoo4: the machine in which ORTHO_UNIT != ORTHO_INDEX, for the accessor-slot instances of C04.forward)
    "C04": lambda: parts("all", (2, 3, 4), True) + parts("all", (3,), False),
    "C09": lambda: parts("all", (2, 3), True) + parts("all", (3,), False),
    # logging: verbose mode (all) on both dispatch paths + interface-only mode (all-li), where S_::log overloads decide
    "C16": lambda: zoo(["all"], gcc=(True,)) + parts("all-li", (1, 2, 4), True) + parts("all", (2,), False),
}


def rng_units():
    return [Unit("rng", os.path.join(VERIF, "witness", "rng.cpp"), "utility", True, patterns=False),
            Unit("refrng", os.path.join(VERIF, "ref", "ref_rng.cpp"), "none", False, roots=os.path.join(VERIF, "ref"), patterns=False)]


def plan(prop, tier):
    if prop == "C15":
        from .rules import C15
        pairs = C15.PAIRS_QUICK if tier == "quick" else C15.PAIRS_THOROUGH
        cfgs = []
        for a, b, _ in pairs:
            for c in (a, b):
                if c not in cfgs:
                    cfgs.append(c)
        ps = (2, 3) if tier == "quick" else (1, 2, 3, 4)
        us = []
        for c in cfgs:
            us += parts(c, ps, True)
        if tier == "quick":
            us += parts("all", (4,), True)      # a void-payload machine with plans (payload~void sibling comparison)
        if tier == "thorough":
            us += parts("all", ps, True, flavour="development") + parts("all", (2, 3), False)
        return us
    if prop == "C18":
        # container code is pattern-level (members the machines never instantiate are analysed as uninstantiated patterns)
        us = [Unit("zoo1", os.path.join(VERIF, "witness", "zoo.cpp"), "all", True, extra=["-DZOO_PART=1"], patterns=True)]
        if tier == "thorough":
            us += [Unit("zoo1", os.path.join(VERIF, "witness", "zoo.cpp"), "all", True, flavour="development", extra=["-DZOO_PART=1"], patterns=True),
                   Unit("zoo3", os.path.join(VERIF, "witness", "zoo.cpp"), "serial", False, extra=["-DZOO_PART=3"], patterns=True)]
        return us
    if prop == "C20":
        us = rng_units()
        if tier == "thorough":
            us += [Unit("rng", os.path.join(VERIF, "witness", "rng.cpp"), "utility", True, flavour="development"),
                   Unit("rng", os.path.join(VERIF, "witness", "rng.cpp"), "all", False), Unit("rng", os.path.join(VERIF, "witness", "rng.cpp"), "utility", True, std="gnu++11")]
        return us
    if tier == "quick":
        return QUICK.get(prop, QUICK_DEFAULT)()
    return THOROUGH_DEFAULT()
