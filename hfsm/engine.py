"""Check driver: loads facts, evaluates a property's rules, matches known findings, writes evidence.

Exit codes: 0 = every rule instance held (known findings printed as KNOWN-FINDING lines);
            1 = VIOLATION line(s) printed (violation not listed in known_findings.json);
            2 = analysis broken (never a pass, never a violation).
"""
import importlib
import json
import os
import sys
import time
import traceback

from . import facts as factsmod
from .ir import AnalysisBroken

VERIF = factsmod.VERIF
# registered commands never set HFSM2_EVIDENCE; the self-test tools do, so that runs against scratch trees leave evidence/ alone
EVIDENCE = os.environ.get("HFSM2_EVIDENCE") or os.path.join(VERIF, "evidence")
REPLAY = os.path.join(EVIDENCE, "replay")
KNOWN = os.path.join(VERIF, "known_findings.json")


class Violation:
    def __init__(self, rule, key, where, msg, detail=None, unit=None):
        self.rule = rule
        self.key = key
        self.where = where
        self.msg = msg
        self.detail = detail or {}
        self.units = [unit] if unit else []
        self.count = 1


class Ctx:
    def __init__(self, prop, tier):
        self.prop = prop
        self.tier = tier
        self.violations = {}      # key -> Violation
        self.instances = {}       # rule -> count
        self.distinct = {}        # rule -> set of pattern-site keys
        self.samples = {}         # rule -> list
        self.notes = []           # free text for the evidence (observations reported, not judged)
        self.unit = None
        self.rules_text = {}
        self.units_analysed = []
        self.fn_instances = 0
        self.paths = 0
        self.undecided = []
        self.shared = {}

    def rule(self, name, text):
        self.rules_text[name] = text
        self.instances.setdefault(name, 0)
        self.distinct.setdefault(name, set())

    def instance(self, rule, site, sample=None):
        """Record one evaluated rule instance at pattern site `site` (a (cls, spec, method[, detail]) key)."""
        self.instances[rule] = self.instances.get(rule, 0) + 1
        d = self.distinct.setdefault(rule, set())
        new = site not in d
        d.add(site)
        if sample is not None and new and len(self.samples.setdefault(rule, [])) < 4:
            self.samples[rule].append(sample)

    def violation(self, rule, key, where, msg, detail=None):
        k = "%s|%s" % (rule, key)
        if k in self.violations:
            v = self.violations[k]
            v.count += 1
            if self.unit and self.unit not in v.units and len(v.units) < 6:
                v.units.append(self.unit)
            return
        self.violations[k] = Violation(rule, k, where, msg, detail, self.unit)

    def note(self, text):
        if text not in self.notes:
            self.notes.append(text)


def load_known():
    if not os.path.exists(KNOWN):
        return []
    with open(KNOWN) as f:
        return json.load(f).get("findings", [])


def site_str(F, fid, extra=None):
    k = F.fkey(fid)
    s = "%s%s::%s" % (k[0], "<" + k[1] + ">" if k[1] else "", k[2])
    if extra:
        s += "/" + extra
    return s


def run_canary(ctx, mod):
    """Rules whose expected count on the library is zero carry planted positive examples (witness/canary.cpp, extracted with
    --roots=/verif/witness).  mod.CANARY = {"check": [rule functions], "expect": [violation-key substrings], "forbid": [substrings]}.
    A planted construct that is not reported, or an allowed one that is, makes the run analysis-broken."""
    spec = mod.CANARY
    u = factsmod.Unit("canary", os.path.join(VERIF, "witness", "canary.cpp"), "none", False, roots=os.path.join(VERIF, "witness"), patterns=False)
    (uu, path, dt, cached), = factsmod.extract([u])
    F = factsmod.Facts(path, u)
    c2 = Ctx(ctx.prop, ctx.tier)
    c2.unit = "canary"
    from .rules.C12 import _FN
    _FN["F"] = F
    for fn in spec["check"]:
        fn(c2, F)
    keys = sorted(c2.violations)
    missing = [e for e in spec["expect"] if not any(e in k for k in keys)]
    wrong = [k for k in keys if any(f in k for f in spec.get("forbid", ()))]
    ctx.units_analysed.append({"unit": "canary (planted positive examples)", "functions": len(F.bodies), "extract_s": round(dt, 2), "cached": cached})
    ctx.note("canary: %d planted constructs reported by their rules (%s)" % (len(spec["expect"]) - len(missing), ", ".join(spec["expect"])))
    if missing:
        raise AnalysisBroken("canary: planted constructs not reported: %s (reported: %s)" % (missing, keys))
    if wrong:
        raise AnalysisBroken("canary: allowed construct reported: %s" % wrong)


def run_check(prop, tier, unit_plan, module_name, level="other", min_instances=None, extra_cov=None):
    """unit_plan: list of Unit; module: hfsm.rules.<prop>; returns exit code."""
    t0 = time.time()
    seed = int(os.environ.get("VERIF_SEED", "0") or 0)
    ctx = Ctx(prop, tier)
    os.makedirs(REPLAY, exist_ok=True)
    for fn in os.listdir(REPLAY):
        if fn.startswith(prop + "-"):
            os.unlink(os.path.join(REPLAY, fn))
    broken = None
    try:
        mod = importlib.import_module(module_name)
        if hasattr(mod, "declare"):
            mod.declare(ctx)
        if hasattr(mod, "prepare"):
            mod.prepare(ctx)
        res = factsmod.extract(unit_plan) if unit_plan else []
        for u, path, dt, cached in res:
            F = factsmod.Facts(path, u)
            ctx.unit = u.label()
            ctx.units_analysed.append({"unit": u.label(), "functions": len(F.bodies), "extract_s": round(dt, 2), "cached": cached})
            ctx.fn_instances += len(F.bodies)
            if F.opaque:
                ctx.note("unit %s has %d opaque nodes (%s)" % (u.label(), F.opaque, F.raw.get("opaque_kinds")))
            from .rules.C12 import _FN        # expression printer's callee-name table: always the unit being checked
            _FN["F"] = F
            mod.check(ctx, F)
            del F
        ctx.unit = None
        if hasattr(mod, "CANARY"):
            run_canary(ctx, mod)
        if hasattr(mod, "final"):
            mod.final(ctx)
        mins = dict(getattr(mod, "MIN_INSTANCES", {}))
        if min_instances:
            mins.update(min_instances)
        tmins = getattr(mod, "MIN_INSTANCES_TIER", {}).get(tier, {})
        mins.update(tmins)
        for r, n in mins.items():
            got = len(ctx.distinct.get(r, ()))
            if got < n:
                raise AnalysisBroken("rule %s matched %d distinct sites, fewer than the %d confirmed by hand" % (r, got, n))
    except AnalysisBroken as e:
        broken = "analysis broken: %s" % e
    except factsmod.ExtractionError as e:
        broken = "analysis broken (extraction): %s" % e
    except Exception as e:  # a crash of the checker is never a verdict
        broken = "analysis broken (checker crashed): %s\n%s" % (e, traceback.format_exc())

    known = [k for k in load_known() if k.get("property") == prop]
    known_keys = {k["key"]: k for k in known if k.get("status") == "known"}
    new_viol = []
    known_hit = []
    for k, v in sorted(ctx.violations.items()):
        if k in known_keys:
            known_hit.append((known_keys[k], v))
        else:
            new_viol.append(v)

    lines = []
    rc = 0
    if broken:
        rc = 2
        print(broken)
    else:
        for kf, v in known_hit:
            print("KNOWN-FINDING: property=%s %s" % (prop, kf.get("what", v.msg)))
        for i, v in enumerate(new_viol):
            rp = os.path.join(REPLAY, "%s-%d.json" % (prop, i + 1))
            with open(rp, "w") as f:
                json.dump({"property": prop, "rule": v.rule, "rule_text": ctx.rules_text.get(v.rule, ""), "key": v.key,
                           "where": v.where, "message": v.msg, "detail": v.detail, "instantiations_affected": v.count,
                           "units": v.units}, f, indent=1)
            print("VIOLATION property=%s replay=%s" % (prop, rp))
            print("  %s: %s [%s]" % (v.where, v.msg, v.rule))
        if new_viol:
            rc = 1

    evaluations = sum(ctx.instances.values())
    distinct = sum(len(s) for s in ctx.distinct.values())
    samples = []
    for r, ss in ctx.samples.items():
        for s in ss[:2]:
            samples.append({"rule": r, "instance": s})
    cov = {
        "evaluations": evaluations,
        "distinct_nontrivial": distinct,
        "rule": "every rule below is evaluated on every instantiation (in every analysed unit) of the function patterns it "
                "is keyed on; 'evaluations' counts rule instances, 'distinct_nontrivial' counts distinct (rule, class "
                "template+specialisation, method, detail) sites, each of which involved at least one path, origin or effect query",
        "samples": samples[:40] or [{"note": "no instance matched"}],
        "explanation": "static analysis of /repo's current sources through clang 14 (hfx fact extractor): " + "; ".join(
            "%s: %s" % (r, t) for r, t in ctx.rules_text.items()),
        "rules": {r: {"text": ctx.rules_text.get(r, ""), "instances": ctx.instances.get(r, 0),
                      "distinct_sites": len(ctx.distinct.get(r, ()))} for r in ctx.rules_text},
        "units": ctx.units_analysed,
        "function_instances_visited": ctx.fn_instances,
        "paths_enumerated": ctx.paths,
        "observations_not_judged": ctx.notes,
        "undecided": ctx.undecided,
        "known_findings_printed": [kf.get("key") for kf, _ in known_hit],
        "trusted_base": ["clang 14 front end (parsing, overload resolution, template instantiation, constant evaluation)",
                         "hfx extractor faithfulness (opaque nodes fail the run)", "rule tables in DESIGN.md section 6"],
        "checker_cmd": "./verif check %s --tier %s" % (prop, tier),
        "status": "broken" if broken else ("violation" if new_viol else "ok"),
    }
    if broken:
        cov["broken_reason"] = broken[:2000]
    if extra_cov:
        cov.update(extra_cov(ctx) if callable(extra_cov) else extra_cov)
    ev = {
        "property_id": prop,
        "tier": tier,
        "seed": seed,
        "level": level,
        "coverage": cov,
        "assumptions": ["the program is analysed as clang 14 parses it (GCC dispatch path selected with -U__clang_major__)",
                        "rules depend only on (pattern, callee kinds, evaluated type-level constants); zoo coverage obligations "
                        "turn 'all instantiations in the zoo' into 'all structures'"],
        "wall_s": round(time.time() - t0, 2),
        "violations": len(new_viol),
    }
    os.makedirs(EVIDENCE, exist_ok=True)
    tmp = os.path.join(EVIDENCE, prop + ".json.tmp")
    with open(tmp, "w") as f:
        json.dump(ev, f, indent=1)
    os.replace(tmp, os.path.join(EVIDENCE, prop + ".json"))
    print("%s tier=%s rules=%d instances=%d distinct=%d units=%d violations=%d known=%d wall=%.1fs -> %s" % (
        prop, tier, len(ctx.rules_text), evaluations, distinct, len(ctx.units_analysed), len(new_viol), len(known_hit),
        time.time() - t0, "BROKEN" if broken else ("VIOLATION" if new_viol else "ok")))
    return rc
