"""Direct and transitive may-write effects over the *state fields* of the machine (RegistryT, PlanDataT, CoreT, R_),
and who-may-write / who-may-call queries, computed from symbolic paths."""
import re

from .ir import sym_paths, AnalysisBroken

STATE_FIELDS = (
    # RegistryT
    "compoRequested", "orthoRequested", "compoActive", "compoResumable", "compoRemains", "compoStatuses",
    "stateParents", "compoParents", "orthoParents", "orthoUnits", "regionHeads", "regionSizes",
    # PlanDataT
    "tasks", "taskLinks", "taskPayloads", "payloadExists", "taskBounds", "planExists", "tasksSuccesses", "tasksFailures",
    "headStatuses", "subStatuses",
    # CoreT
    "requests", "transitionTargets", "previousTransitions", "context", "logger", "rng",
    # R_
    "_structure", "_activityHistory", "_prefixes",
    # controls
    "_consumed", "_cancelled", "_taskStatus", "_originId", "_regionId", "_regionStateId", "_regionSize", "_locked",
)

_FIELD_RE = re.compile(r"\.(%s)(?![\w])" % "|".join(STATE_FIELDS))  # '.BackUp::x' does not match: backup copies are not state


def outer_field(place):
    """Field of the state universe a place lies in: the *first* state field on the access path
    ('P:control._core.registry.compoActive._items[#2]' -> 'compoActive')."""
    if not place:
        return None
    m = _FIELD_RE.search("." + place if not place.startswith(".") else place)
    if m:
        return m.group(1)
    return None


class Effects:
    def __init__(self, F):
        self.F = F
        self._direct = {}
        self._star = {}

    def direct(self, fid):
        """set of fields written directly by fid (assignments, non-const member calls on a field object,
        a field passed by non-const reference / pointer)."""
        if fid in self._direct:
            return self._direct[fid]
        F = self.F
        w = set()
        b = F.body(fid)
        if b is None or not b["inst"]:
            self._direct[fid] = w
            return w
        try:
            paths = sym_paths(F, fid)
        except AnalysisBroken:
            raise
        for p in paths:
            for ev in p:
                if ev[0] == "write":
                    f = outer_field(ev[2])
                    if f:
                        w.add(f)
                elif ev[0] == "call" and ev[2] is not None:
                    cf = F.fn(ev[2])
                    if ev[3] is not None and not cf.get("const") and not cf.get("static") and cf.get("kind") != "ctor":
                        f = outer_field(ev[3])
                        # calling a non-const method on (a sub-object of) a state field may write it;
                        # accessors returning references are handled through the write they enable
                        if f and cf["name"] not in ("operator[]", "cbits", "get", "begin", "end", "count", "empty",
                                                    "payload", "first", "next", "operator*", "operator->", "operator bool"):
                            w.add(f)
                    for i, a in enumerate(ev[4] or []):
                        ps = cf.get("params", [])
                        if i < len(ps) and (ps[i].get("ref") or ps[i].get("ptr")) and not ps[i].get("const"):
                            f = outer_field(a)
                            # whole control / registry objects are passed everywhere; only a *field* argument counts
                            if f and (a.endswith("." + f) or re.search(r"\.%s(\._items)?(\[[^\]]*\])?$" % f, a)):
                                if cf.get("cls") in (None, "") or cf["name"] in ("overwriteWith", "fill", "move", "swap"):
                                    w.add(f)
        self._direct[fid] = w
        return w

    def star(self, fid, _stack=None):
        """transitive may-write set (least fixpoint over the resolved call graph)."""
        if fid in self._star:
            return self._star[fid]
        # iterative DFS with SCC-insensitive fixpoint
        order = []
        seen = set()
        st = [fid]
        while st:
            x = st.pop()
            if x in seen:
                continue
            seen.add(x)
            order.append(x)
            b = self.F.body(x)
            if b is not None:
                for c in b.get("calls", []):
                    if c not in seen and self.F.body(c) is not None:
                        st.append(c)
        eff = {x: set(self.direct(x)) for x in order}
        changed = True
        while changed:
            changed = False
            for x in order:
                b = self.F.body(x)
                if b is None:
                    continue
                for c in b.get("calls", []):
                    if c in eff and not eff[c] <= eff[x]:
                        eff[x] |= eff[c]
                        changed = True
        for x in order:
            self._star[x] = eff[x]
        return self._star[fid]

    def writers(self, field):
        """all instantiated functions that directly write `field`."""
        out = []
        cands = []
        for fid, b in self.F.bodies.items():
            if not b["inst"]:
                continue
            if field in b.get("mems", ()) or any(self.F.fn(c)["name"] in (field, field[:-1] if field.endswith("s") else field)
                                                 for c in b.get("calls", ())):
                cands.append(fid)
        for fid in self.F.representatives(cands):
            if field in self.direct(fid):
                out.append(fid)
        return out


def callers_of(F, pred):
    """[(caller fid, callee fid)] over instantiated bodies for callees satisfying pred(fn)."""
    out = []
    for fid, b in F.bodies.items():
        if not b["inst"]:
            continue
        for c in b.get("calls", ()):
            if pred(F.fn(c)):
                out.append((fid, c))
    return out
