"""Fact extraction driver and fact-file access.

The deciding step of every check reads facts that `hfx` (tools/hfx/hfx.cc, clang 14 libTooling)
extracted from /repo's *current* working tree.  Facts are cached under /verif/.cache keyed by the
SHA-256 of every source file under /repo/include, /repo/development (and /repo/test for the
test TUs), the witness sources, the hfx binary and the flags — so a changed tree is re-analysed
and an unchanged tree is shared by all checks.
"""
import hashlib
import json
import os
import subprocess
import sys
import time
from concurrent.futures import ThreadPoolExecutor

VERIF = os.path.dirname(os.path.dirname(os.path.abspath(__file__)))
REPO = os.environ.get("HFSM2_REPO", "/repo")
HFX = os.path.join(VERIF, "build", "hfx")
CACHE = os.path.join(VERIF, ".cache")

GCC_PATH = ["-U__clang_major__", "-Wno-builtin-macro-redefined"]

FEATURES = ["PLANS", "SERIALIZATION", "TRANSITION_HISTORY", "UTILITY_THEORY", "STRUCTURE_REPORT",
            "LOG_INTERFACE", "VERBOSE_DEBUG_LOG", "DEBUG_STATE_TYPE"]


def _d(*names):
    return ["-DHFSM2_ENABLE_" + n for n in names]


# configuration name -> preprocessor flags (the header flavour and dispatch path are separate axes)
CONFIGS = {
    "all": _d("ALL", "VERBOSE_DEBUG_LOG"),
    "all-li": _d("ALL", "LOG_INTERFACE"),
    "all-nolog": _d("ALL"),
    "none": [],
    "plans": _d("PLANS"),
    "serial": _d("SERIALIZATION"),
    "history": _d("TRANSITION_HISTORY"),
    "utility": _d("UTILITY_THEORY"),
    "report": _d("STRUCTURE_REPORT"),
    "log": _d("LOG_INTERFACE"),
    "verbose": _d("VERBOSE_DEBUG_LOG"),
    "dbgtype": _d("DEBUG_STATE_TYPE"),
    "notypeindex": ["-DHFSM2_DISABLE_TYPEINDEX"],
    # all but one
    "all-plans": _d("SERIALIZATION", "TRANSITION_HISTORY", "UTILITY_THEORY", "STRUCTURE_REPORT", "VERBOSE_DEBUG_LOG"),
    "all-serial": _d("PLANS", "TRANSITION_HISTORY", "UTILITY_THEORY", "STRUCTURE_REPORT", "VERBOSE_DEBUG_LOG"),
    "all-history": _d("PLANS", "SERIALIZATION", "UTILITY_THEORY", "VERBOSE_DEBUG_LOG"),
    "all-utility": _d("PLANS", "SERIALIZATION", "TRANSITION_HISTORY", "STRUCTURE_REPORT", "VERBOSE_DEBUG_LOG"),
    "all-report": _d("PLANS", "SERIALIZATION", "TRANSITION_HISTORY", "UTILITY_THEORY", "VERBOSE_DEBUG_LOG"),
}

# combinations that do not compile on the unchanged tree (frozen; reason per row) — skipped, named in evidence
UNCOMPILABLE_TODAY = {
    # SERIALIZATION + STRUCTURE_REPORT without TRANSITION_HISTORY: RV_<Manual>::loadEnter names udpateActivity,
    # whose using-declaration sits inside #if HFSM2_TRANSITION_HISTORY_AVAILABLE().
}

ZOO_PARTS = [1, 2, 3, 4]


class Unit:
    """One (translation unit, configuration, dispatch path, flavour) to extract."""

    def __init__(self, name, source, config, gcc_path=True, flavour="include", std="gnu++17", extra=(), patterns=False, roots=None):
        self.name = name
        self.source = source
        self.config = config
        self.gcc_path = gcc_path
        self.flavour = flavour
        self.std = std
        self.extra = list(extra)
        self.patterns = patterns
        self.roots = roots

    def flags(self):
        f = ["-std=" + self.std, "-w", "-I" + os.path.join(REPO, "include"), "-I" + os.path.join(REPO, "external")]
        if self.flavour == "development":
            f += ["-I" + os.path.join(REPO, "development"), "-DZOO_DEV"]
        f += CONFIGS[self.config]
        if self.gcc_path:
            f += GCC_PATH
        f += self.extra
        return f

    def label(self):
        return "%s@%s%s%s%s" % (self.name, self.config, "/gcc" if self.gcc_path else "/clang",
                                "" if self.flavour == "include" else "/dev", "" if self.std == "gnu++17" else "/" + self.std)


def zoo_units(config, gcc_path=True, flavour="include", std="gnu++17", patterns_in_first=True):
    us = []
    for p in ZOO_PARTS:
        us.append(Unit("zoo%d" % p, os.path.join(VERIF, "witness", "zoo.cpp"), config, gcc_path, flavour, std,
                       extra=["-DZOO_PART=%d" % p], patterns=(patterns_in_first and p == 1)))
    return us


def _sha_files(paths):
    h = hashlib.sha256()
    for p in sorted(paths):
        h.update(p.encode())
        try:
            with open(p, "rb") as f:
                h.update(f.read())
        except OSError:
            h.update(b"<missing>")
    return h


_tree_hash_cache = {}


def tree_hash(include_tests=False):
    key = include_tests
    if key in _tree_hash_cache:
        return _tree_hash_cache[key]
    paths = []
    roots = [os.path.join(REPO, "include"), os.path.join(REPO, "development")]
    if include_tests:
        roots += [os.path.join(REPO, "test")]
    for r in roots:
        for dp, _, fns in os.walk(r):
            for fn in fns:
                paths.append(os.path.join(dp, fn))
    for wit in (os.path.join(VERIF, "witness"), os.path.join(VERIF, "ref")):
        for dp, _, fns in os.walk(wit):
            for fn in fns:
                paths.append(os.path.join(dp, fn))
    paths.append(HFX)
    h = _sha_files(paths).hexdigest()
    _tree_hash_cache[key] = h
    return h


def unit_path(u):
    th = tree_hash(include_tests=u.source.startswith(os.path.join(REPO, "test")))
    try:
        with open(u.source, "rb") as f:
            src = hashlib.sha256(f.read()).hexdigest()
    except OSError:
        src = "missing"
    h = hashlib.sha256((th + "|" + u.source + "|" + src + "|" + " ".join(u.flags()) + "|" + str(u.patterns)).encode()).hexdigest()[:24]
    d = os.path.join(CACHE, th[:16])
    return os.path.join(d, "%s-%s.json" % (u.label().replace("/", "_").replace("@", "_"), h))


class ExtractionError(Exception):
    pass


def _limit_memory():
    # one extractor process may use at most 12 GB of address space: a pathological unit fails (analysis broken) instead of exhausting the machine
    import resource
    lim = 12 * 1024 ** 3
    resource.setrlimit(resource.RLIMIT_AS, (lim, lim))


def _run_one(u):
    out = unit_path(u)
    if os.path.exists(out):
        try:
            os.utime(os.path.dirname(out))       # in use: keeps the directory inside prune_cache's grace period while other trees come and go
        except OSError:
            pass
        return out, 0.0, True
    os.makedirs(os.path.dirname(out), exist_ok=True)
    tmp = out + ".tmp.%d" % os.getpid()
    cmd = [HFX, "--out=" + tmp, "--roots=" + (u.roots or (os.path.join(REPO, "include") + "," + os.path.join(REPO, "development")))]
    if not u.patterns:
        cmd.append("--no-patterns")
    cmd += [u.source, "--"] + u.flags()
    t = time.time()
    r = subprocess.run(cmd, stdout=subprocess.PIPE, stderr=subprocess.PIPE, text=True, preexec_fn=_limit_memory)
    if r.returncode < 0 or (r.returncode != 0 and not any("error" in l for l in r.stderr.splitlines())):
        # killed by a signal / out of memory while other jobs were using the machine (no diagnostic of its own): one more try, alone in time
        time.sleep(5)
        r = subprocess.run(cmd, stdout=subprocess.PIPE, stderr=subprocess.PIPE, text=True, preexec_fn=_limit_memory)
    dt = time.time() - t
    if r.returncode != 0 or not os.path.exists(tmp):
        try:
            os.unlink(tmp)
        except OSError:
            pass
        errs = [l for l in r.stderr.splitlines() if "error" in l][:8]
        raise ExtractionError("hfx failed on %s: %s" % (u.label(), " | ".join(e[:300] for e in errs) or r.stderr[-500:]))
    os.replace(tmp, out)
    return out, dt, False


def prune_cache(keep=2):
    """Drop fact directories of older tree hashes (disk hygiene)."""
    if not os.path.isdir(CACHE):
        return
    def mtime(d):
        try:
            return os.path.getmtime(d)
        except OSError:          # removed meanwhile by a concurrent run
            return 0.0
    ds = [os.path.join(CACHE, d) for d in os.listdir(CACHE) if d != "c17"]
    ds = [(mtime(d), d) for d in ds if os.path.isdir(d)]
    ds.sort(reverse=True)
    cur = tree_hash()[:16]
    n = 0
    for mt, d in ds:
        if os.path.basename(d) == cur:
            continue
        n += 1
        if n >= keep and time.time() - mt > 1800:      # a recent directory may belong to a concurrent run on another tree
            subprocess.run(["rm", "-rf", d])


def extract(units, jobs=None):
    """Extract (or reuse) facts for all units; returns list of (unit, path, seconds, cached)."""
    if not os.path.exists(HFX):
        raise ExtractionError("hfx binary missing: run MANIFEST.setup_cmd (make -C /verif)")
    jobs = jobs or int(os.environ.get("HFSM2_JOBS", "0") or 0) or min(16, os.cpu_count() or 4)     # HFSM2_JOBS: cap for runs that share the machine
    res = []
    with ThreadPoolExecutor(max_workers=jobs) as ex:
        futs = [(u, ex.submit(_run_one, u)) for u in units]
        for u, f in futs:
            p, dt, cached = f.result()
            res.append((u, p, dt, cached))
    prune_cache()
    return res


# ------------------------------------------------------------------------------------------------


class Facts:
    """One fact file, with indices."""

    def __init__(self, path, unit=None):
        with open(path) as f:
            d = json.load(f)
        self.path = path
        self.unit = unit
        self.label = unit.label() if unit else os.path.basename(path)
        self.raw = d
        if d.get("errors"):
            raise ExtractionError("translation unit has compile errors: " + self.label)
        self.types = d["types"]
        self.fns = d["fns"]
        self.bodies = {}
        from .ir import normalise_ite, normalise_while
        for b in d["bodies"]:
            if b.get("body") is not None:
                b["body"] = normalise_while(normalise_ite(b["body"]))
            self.bodies[b["id"]] = b
        self.opaque = d.get("opaque", 0)
        self._spec = {}
        self._callers = None
        self._byname = None

    # ---- types
    def type(self, tid):
        return self.types[tid] if tid is not None and 0 <= tid < len(self.types) else None

    def tname(self, tid, depth=1):
        t = self.type(tid)
        if t is None:
            return "?"
        if "tmpl" not in t:
            return t["name"]
        if depth <= 0:
            return t["tmpl"] + "<...>"
        return t["tmpl"] + "<" + ",".join(self._targ(a, depth - 1) for a in t.get("args", [])) + ">"

    def _targ(self, a, depth):
        if isinstance(a, str):
            return a if len(a) < 40 else a[:37] + "..."
        if "t" in a:
            return self.tname(a["t"], depth)
        if "pack" in a:
            return ",".join(self._targ(x, depth) for x in a["pack"])
        if "n" in a:
            return a["n"]
        return str(a.get("v"))

    def targs(self, tid):
        t = self.type(tid)
        return t.get("args", []) if t else []

    def spec(self, tid):
        """Semantic label of the class-template specialisation a record was instantiated from."""
        if tid in self._spec:
            return self._spec[tid]
        t = self.type(tid)
        lab = ""
        if t and "tmpl" in t:
            n = t["tmpl"]
            a = t.get("args", [])
            try:
                if n == "CS_":
                    tl = self.type(a[4]["t"])
                    k = len(tl["args"][0]["pack"])
                    lab = "single" if k == 1 else "split"
                elif n == "OS_":
                    lab = "last" if len(a[3]["pack"]) == 1 else "nonlast"
                elif n == "S_":
                    h = self.type(a[2]["t"]) if isinstance(a[2], dict) and "t" in a[2] else None
                    lab = "headed"
                    if h and h.get("tmpl") == "A_":
                        p = h["args"][0]["pack"]
                        if len(p) == 1 and isinstance(p[0], dict) and "t" in p[0] and self.type(p[0]["t"]).get("tmpl") == "B_":
                            lab = "empty"
                elif n == "RegistryT":
                    at = self.type(a[0]["t"])
                    # ArgsT<Config, StateList, RegionList, COMPO_COUNT, ORTHO_COUNT, ...>
                    lab = "noortho" if at["args"][4]["v"] == 0 else "general"
                elif n in ("PreReactWrapperT", "ReactWrapperT", "PostReactWrapperT", "QueryWrapperT"):
                    o = self.type(a[1]["t"])
                    lab = o["name"]
                elif n == "RV_":
                    g = self.type(a[0]["t"])
                    lab = self.type(g["args"][2]["t"])["name"]
                elif n == "A_":
                    lab = "single" if len(a[0]["pack"]) == 1 else "multi"
                else:
                    lab = "p" if "partial" in t else ""
                    if "partial" in t:
                        lab = "partial@" + t["partial"].rsplit(":", 2)[1]
            except (KeyError, IndexError, TypeError):
                lab = "?"
        self._spec[tid] = lab
        return lab

    def const(self, tid, name, default=None):
        t = self.type(tid)
        if not t:
            return default
        return t.get("consts", {}).get(name, default)

    def bases(self, tid):
        t = self.type(tid)
        return [b.get("tid") for b in t.get("bases", [])] if t else []

    def all_bases(self, tid, seen=None):
        seen = seen if seen is not None else []
        for b in self.bases(tid):
            if b is not None and b not in seen:
                seen.append(b)
                self.all_bases(b, seen)
        return seen

    # ---- functions
    def fn(self, fid):
        return self.fns[fid] if fid is not None and 0 <= fid < len(self.fns) else None

    def body(self, fid):
        return self.bodies.get(fid)

    def fkey(self, fid):
        """Stable key (cls, spec, name) — never a line number."""
        f = self.fn(fid)
        if f is None:
            return ("?", "", "?")
        return (f.get("cls", f.get("ns", "")), self.spec(f.get("tid")) if "tid" in f else "", f["name"])

    def fdisp(self, fid):
        c = self.__dict__.setdefault("_fdisp", {})
        if fid in c:
            return c[fid]
        f = self.fn(fid)
        if f is None:
            return "?"
        k = self.fkey(fid)
        s = k[0] + ("<" + k[1] + ">" if k[1] else "") + "::" + k[2]
        c[fid] = s
        return s

    def representatives(self, fids, per_group=3):
        """Sample instantiations per (pattern, STRATEGY, specialisation): rules that only depend on the statements of a
        pattern (who-may-write) need not visit hundreds of identical instantiations."""
        groups = {}
        for fid in fids:
            b = self.bodies[fid]
            key = (b.get("pat"), self.const(b.get("tid"), "STRATEGY"), self.spec(b.get("tid")) if "tid" in b else "")
            g = groups.setdefault(key, [])
            if len(g) < per_group:
                g.append(fid)
        return [f for g in groups.values() for f in g]

    def floc(self, fid):
        f = self.fn(fid)
        p = f.get("pat") or f.get("loc") or ""
        return p.rsplit(":", 1)[0].replace(REPO + "/", "")

    def by_name(self, cls=None, name=None, spec=None, inst=True):
        if self._byname is None:
            self._byname = {}
            for fid, b in self.bodies.items():
                self._byname.setdefault((b.get("cls", ""), b["name"]), []).append(fid)
        out = []
        if cls is not None and name is not None:
            cands = self._byname.get((cls, name), [])
        else:
            cands = [fid for (c, n), l in self._byname.items() for fid in l
                     if (cls is None or c == cls) and (name is None or n == name)]
        for fid in cands:
            b = self.bodies[fid]
            if inst is not None and b["inst"] != inst:
                continue
            if spec is not None and self.spec(b.get("tid")) != spec:
                continue
            out.append(fid)
        return out
