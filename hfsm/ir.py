"""Analysis primitives over the fact trees written by hfx: walking, structured path enumeration,
symbolic places / origins with alias + copy propagation + accessor inlining, direct effects."""
import json
import itertools


class AnalysisBroken(Exception):
    """The analysis cannot give a verdict (anchor vanished, construct not representable, ...)."""


MAX_PATHS = 20000


def walk(n):
    """Pre-order generator over all dict nodes of a tree."""
    st = [n]
    while st:
        x = st.pop()
        if isinstance(x, dict):
            yield x
            for v in x.values():
                if isinstance(v, (dict, list)):
                    st.append(v)
        elif isinstance(x, list):
            for v in reversed(x):
                if isinstance(v, (dict, list)):
                    st.append(v)


def calls_in(n):
    return [x for x in walk(n) if x.get("k") in ("call", "ctor") and "f" in x]


def strip(e):
    """Look through casts / default-arg wrappers."""
    while isinstance(e, dict):
        if e.get("k") in ("cast", "defarg", "definit"):
            e = e.get("e")
        elif e.get("k") == "ctor" and e.get("elidable") and len(e.get("a", [])) == 1:
            e = e["a"][0]          # -std=gnu++11/14: `T x = f();` is written as a move of the prvalue; C++17 constructs in place
        else:
            break
    return e


def _single_assign(st):
    """the assignment of a branch that consists of exactly one plain assignment statement (possibly inside braces), else None"""
    while isinstance(st, dict) and st.get("k") == "seq" and len(st.get("s", [])) == 1:
        st = st["s"][0]
    if isinstance(st, dict) and st.get("k") == "expr":
        st = st.get("e")
    st2 = strip(st) if isinstance(st, dict) else st
    if isinstance(st2, dict) and st2.get("k") == "asg" and st2.get("op") == "=":
        return st2
    return None


def _bool_lit(e):
    e = strip(e) if isinstance(e, dict) else e
    if isinstance(e, dict) and (e.get("k") == "lit" or e.get("k") == "zero") and e.get("ty") in (None, "bool"):
        v = e.get("cv", e.get("v"))
        if v in (True, False, 0, 1, "true", "false"):
            return v in (True, 1, "true")
    return None


def _ret_choice(c, a, b, line):
    """return c ? a : b, with boolean-literal arms folded into && / || (`if (!x) return false; return y;` is `return x && y;`)"""
    neg = lambda x: {"k": "un", "op": "!", "e": x, "ty": "bool"}
    la, lb = _bool_lit(a), _bool_lit(b)
    if la is False and lb is None:
        e = {"k": "bin", "op": "&&", "lhs": neg(c), "rhs": b, "ty": "bool"}
    elif la is True and lb is None:
        e = {"k": "bin", "op": "||", "lhs": c, "rhs": b, "ty": "bool"}
    elif lb is False and la is None:
        e = {"k": "bin", "op": "&&", "lhs": c, "rhs": a, "ty": "bool"}
    elif lb is True and la is None:
        e = {"k": "bin", "op": "||", "lhs": neg(c), "rhs": a, "ty": "bool"}
    else:
        e = {"k": "cond", "c": c, "t": a, "f": b, "l": line, "ty": (b or {}).get("ty") if isinstance(b, dict) else None}
    return {"k": "ret", "l": line, "e": e}


def _single_return(st):
    while isinstance(st, dict) and st.get("k") == "seq" and len(st.get("s", [])) == 1:
        st = st["s"][0]
    if isinstance(st, dict) and st.get("k") == "ret" and st.get("e") is not None:
        return st
    return None


def normalise_ite(node):
    """`if (c) x = a; else x = b;` (both arms a single plain assignment to the same place) is rewritten in place as `x = c ? a : b;`:
    the two spellings are the same program, and the rules (value origins, routing sources) are written over the expression form."""
    if isinstance(node, list):
        for i, x in enumerate(node):
            node[i] = normalise_ite(x)
        return node
    if not isinstance(node, dict):
        return node
    for k, v in list(node.items()):
        if isinstance(v, (dict, list)):
            node[k] = normalise_ite(v)
    if node.get("k") == "seq":
        # `if (c) return a;` directly followed by `return b;`  ==  `return c ? a : b;` (an early-return guard)
        ss = node.get("s", [])
        i = 0
        while i + 1 < len(ss):
            g, r = ss[i], ss[i + 1]
            if (isinstance(g, dict) and g.get("k") == "if" and g.get("e") is None and g.get("init") is None and g.get("cvar") is None
                    and _single_return(g.get("t")) is not None and isinstance(r, dict) and r.get("k") == "ret" and r.get("e") is not None):
                ss[i:i + 2] = [_ret_choice(g["c"], _single_return(g["t"])["e"], r["e"], g.get("l"))]
                i = max(i - 1, 0)      # a chain of guards folds from the bottom up
                continue
            i += 1
    if node.get("k") == "if" and node.get("e") is not None and node.get("init") is None and node.get("cvar") is None:
        ra, rb = _single_return(node.get("t")), _single_return(node.get("e"))
        if ra is not None and rb is not None:
            # `if (c) return x; else return y;`  ==  `return c ? x : y;`
            return _ret_choice(node["c"], ra["e"], rb["e"], node.get("l"))
        a, b = _single_assign(node.get("t")), _single_assign(node.get("e"))
        if a is not None and b is not None and json.dumps(a["lhs"], sort_keys=True) == json.dumps(b["lhs"], sort_keys=True):
            asg = dict(a)
            asg["rhs"] = {"k": "cond", "c": node["c"], "t": a["rhs"], "f": b["rhs"], "l": node.get("l"), "ty": a.get("ty")}
            asg["l"] = node.get("l", a.get("l"))
            return asg
    return node


def _stmt_expr(st):
    if isinstance(st, dict) and st.get("k") == "expr":
        return st.get("e")
    return st


def _is_step_of(st, name):
    """`++name`, `name++`, `name += k`, `name -= k`, `--name` as a statement"""
    e = strip(_stmt_expr(st))
    if not isinstance(e, dict):
        return False
    if e.get("k") == "un" and e.get("op") in ("++", "--"):
        v = strip(e.get("e"))
        return isinstance(v, dict) and v.get("k") == "var" and v.get("n") == name
    if e.get("k") == "asg" and e.get("op") in ("+=", "-="):
        v = strip(e.get("lhs"))
        return isinstance(v, dict) and v.get("k") == "var" and v.get("n") == name
    return False


def normalise_while(node):
    """`T i = a; while (c) { body; ++i; }` (the loop directly follows the declaration of its counter, the step is the last statement of
    the body and the body has no `continue`) is rewritten in place as `for (T i = a; c; ++i) { body }`: the same loop, and the spelling
    the rules are written over."""
    if isinstance(node, list):
        for x in node:
            normalise_while(x)
        return node
    if not isinstance(node, dict):
        return node
    for v in node.values():
        if isinstance(v, (dict, list)):
            normalise_while(v)
    if node.get("k") == "seq":
        ss = node.get("s", [])
        i = 1
        while i < len(ss):
            w, d = ss[i], ss[i - 1]
            if (isinstance(w, dict) and w.get("k") == "while" and isinstance(d, dict) and d.get("k") == "decl" and len(d.get("vars", [])) == 1
                    and isinstance(w.get("b"), dict) and w["b"].get("k") == "seq" and w["b"].get("s")):
                name = d["vars"][0].get("n")
                body = w["b"]["s"]
                if name and _is_step_of(body[-1], name) and not any(x.get("k") == "cont" for x in walk(w["b"])):
                    loop = {"k": "for", "l": w.get("l"), "init": d, "c": w.get("c"), "inc": strip(_stmt_expr(body[-1])), "b": {"k": "seq", "l": w["b"].get("l"), "s": body[:-1]}}
                    ss[i - 1:i + 1] = [loop]
                    continue
                if name and any(x.get("k") == "var" and x.get("n") == name for x in walk(w.get("c") or {})):
                    # `T n = a; while (n) { ... }`  ==  `for (T n = a; n; ) { ... }` (the step, if any, stays where it is in the body)
                    loop = {"k": "for", "l": w.get("l"), "init": d, "c": w.get("c"), "inc": None, "b": w["b"]}
                    ss[i - 1:i + 1] = [loop]
                    continue
            i += 1
    return node


def const_local_defs(body):
    """name -> initialiser for locals declared exactly once, const (or never assigned afterwards), with an initialiser"""
    decl, assigned = {}, set()
    for x in walk(body):
        if x.get("k") == "decl":
            for v in x.get("vars", []):
                n = v.get("n")
                if n:
                    decl.setdefault(n, []).append(v)
        elif x.get("k") == "asg":
            l = strip(x.get("lhs"))
            if isinstance(l, dict) and l.get("k") == "var":
                assigned.add(l.get("n"))
        elif x.get("k") == "un" and x.get("op") in ("++", "--"):
            l = strip(x.get("e"))
            if isinstance(l, dict) and l.get("k") == "var":
                assigned.add(l.get("n"))
    # (a reference local is looked through only when it is a reference to const: nothing is written through it)
    return {n: vs[0]["init"] for n, vs in decl.items() if len(vs) == 1 and vs[0].get("init") is not None and n not in assigned
            and (not vs[0].get("ref") or vs[0].get("const"))}


def subst_locals(e, defs, depth=0):
    """copy of expression `e` with single-assignment locals replaced by their initialisers (a named temporary is the expression it names)"""
    if isinstance(e, list):
        return [subst_locals(x, defs, depth) for x in e]
    if not isinstance(e, dict):
        return e
    if e.get("k") == "var" and e.get("d") == "local" and e.get("n") in defs and depth < 12:
        return subst_locals(defs[e["n"]], defs, depth + 1)
    return {k: (subst_locals(v, defs, depth) if isinstance(v, (dict, list)) else v) for k, v in e.items()}


def truthy(e):
    """`x != 0` / `0 != x`  ->  x (the condition's operand), else e"""
    c = strip(e)
    if isinstance(c, dict) and c.get("k") == "bin" and c.get("op") == "!=":
        l, r = strip(c["lhs"]), strip(c["rhs"])
        for a, o in ((l, r), (r, l)):
            if isinstance(a, dict) and (a.get("k") == "zero" or (a.get("k") == "lit" and a.get("v") in (0, "0")) or a.get("cv") == 0) and isinstance(o, dict):
                return o
    return e


def is_noop(s):
    """`(void) 0` and friends (what HFSM2_ASSERT / HFSM2_BREAK expand to on this platform)."""
    if not isinstance(s, dict):
        return False
    if s.get("k") == "cast" and s.get("cast") == "ToVoid":
        e = strip(s.get("e"))
        return isinstance(e, dict) and e.get("k") in ("lit", "var")
    if s.get("k") == "null":
        return True
    return False


def has_opaque(n):
    return any(x.get("k") == "opaque" for x in walk(n))


# ------------------------------------------------------------------------------------------------
# path enumeration


def _cat(alts_a, alts_b):
    out = []
    for a in alts_a:
        for b in alts_b:
            out.append(a + b)
    if len(out) > MAX_PATHS:
        raise AnalysisBroken("path explosion")
    return out


_TOP_LEVEL = set()      # ids of ++/-- nodes that are full expressions (statement or for-step)


def _mark_top(e):
    x = strip(e) if isinstance(e, dict) else None
    if isinstance(x, dict) and x.get("k") == "un" and x.get("op") in ("++", "--"):
        _TOP_LEVEL.add(id(x))


def val_paths(e):
    """Alternative event sequences of evaluating expression e (short-circuit / ?: aware)."""
    if e is None or not isinstance(e, dict):
        return [[]]
    k = e.get("k")
    if k in ("lit", "this", "var", "zero", "sizeof", "trait", "typeid", "dep", "opaque", "pseudodtor"):
        return [[]]
    if k == "bin":
        if e["op"] in ("&&", "||"):
            return [p for p, _ in bool_paths(e)]
        return _cat(val_paths(e["lhs"]), val_paths(e["rhs"]))
    if k == "asg":
        return [p + [("asg", e)] for p in _cat(val_paths(e["rhs"]), val_paths(e["lhs"]))]
    if k == "un":
        ps = val_paths(e["e"])
        if e["op"] in ("++", "--"):
            # a post-increment whose value is used (`a[i++]`, `i++ < n`) yields the old value: its store takes effect after the consuming
            # event ("postinc"); as a statement of its own (or a for-step) it is an ordinary increment
            return [p + [("postinc" if e.get("post") and id(e) not in _TOP_LEVEL else "inc", e)] for p in ps]
        if e["op"] == "!":
            return [p for p, _ in bool_paths(e)]
        return ps
    if k == "cond":
        out = []
        for p, t in bool_paths(e["c"]):
            if t is True or t is None:
                out += [p + q for q in val_paths(e["t"])]
            if t is False or t is None:
                out += [p + q for q in val_paths(e["f"])]
        return out
    if k in ("call", "ctor"):
        alts = [[]]
        if e.get("obj") is not None:
            alts = _cat(alts, val_paths(e["obj"]))
        if e.get("callee") is not None:
            alts = _cat(alts, val_paths(e["callee"]))
        for a in e.get("a", []):
            alts = _cat(alts, val_paths(a))
        return [p + [("call", e)] for p in alts]
    if k == "new":
        alts = [[]]
        for a in e.get("place", []):
            alts = _cat(alts, val_paths(a))
        if e.get("init") is not None:
            alts = _cat(alts, val_paths(e["init"]))
        return [p + [("new", e)] for p in alts]
    if k == "delete":
        return [p + [("delete", e)] for p in val_paths(e.get("e"))]
    if k in ("ilist", "plist"):
        alts = [[]]
        for a in e.get("a", []):
            alts = _cat(alts, val_paths(a))
        return alts
    if k == "idx":
        return _cat(val_paths(e["b"]), val_paths(e["i"]))
    if k == "mem":
        return val_paths(e.get("b"))
    if k in ("cast", "defarg", "definit", "packexp"):
        return val_paths(e.get("e"))
    if k == "stmtexpr":
        return [p for p, _ in stmt_paths(e["s"])]
    # statements used in expression position should not happen
    return [[]]


def bool_paths(e):
    """[(events, truth)] with truth in {True, False}; constants folded through 'cv'."""
    if e is None:
        return [([], True)]
    if "cv" in e and e.get("k") != "asg":
        # constant condition: no events can hide inside a constant-evaluable expression
        return [([], bool(e["cv"]))]
    k = e.get("k")
    if k == "bin" and e["op"] == "&&":
        out = []
        for p, t in bool_paths(e["lhs"]):
            if not t:
                out.append((p, False))
            else:
                out += [(p + q, t2) for q, t2 in bool_paths(e["rhs"])]
        return out
    if k == "bin" and e["op"] == "||":
        out = []
        for p, t in bool_paths(e["lhs"]):
            if t:
                out.append((p, True))
            else:
                out += [(p + q, t2) for q, t2 in bool_paths(e["rhs"])]
        return out
    if k == "un" and e["op"] == "!":
        return [(p, not t) for p, t in bool_paths(e["e"])]
    if k == "cast" and e.get("ck") == "implicit":
        return bool_paths(e["e"])
    if k == "lit":
        return [([], bool(e.get("v")))]
    if k == "paren":
        return bool_paths(e.get("e"))
    if k == "bin" and e.get("op") in ("!=", "==") and e.get("ty") in (None, "bool"):
        # `x != 0` / `0 != x` is the truth value of x, `x == 0` its negation (x of integral / pointer / bool type): same events as `if (x)`
        l, r = strip(e["lhs"]), strip(e["rhs"])

        def zero(n):
            return isinstance(n, dict) and (n.get("k") == "zero" or (n.get("k") == "lit" and n.get("v") in (0, False, "0", "false", "nullptr")) or
                                            (n.get("cv") in (0, False) and n.get("k") in ("lit", "cast")))
        other = r if zero(l) else (l if zero(r) else None)
        if other is not None and not zero(other) and other.get("ty") not in ("float", "double", "long double"):
            ps = bool_paths(other)
            return ps if e["op"] == "!=" else [(p, not t) for p, t in ps]
    out = []
    for p in val_paths(e):
        out.append((p + [("assume", e, True)], True))
        out.append((p + [("assume", e, False)], False))
    return out


def _flatten_switch(body):
    """-> list of (labels, stmt|None); labels: list of case-value nodes or 'default'."""
    items = []
    stmts = body.get("s", []) if isinstance(body, dict) and body.get("k") == "seq" else [body]
    for s in stmts:
        labels = []
        while isinstance(s, dict) and s.get("k") in ("case", "default"):
            labels.append(s["v"] if s["k"] == "case" else "default")
            s = s.get("s")
        items.append((labels, s))
    return items


def stmt_paths(s, loop_iters=2):
    """[(events, exit)] with exit in {'fall','ret','brk','cont'}."""
    if s is None:
        return [([], "fall")]
    k = s.get("k")
    if k == "seq":
        cur = [([], "fall")]
        for c in s.get("s", []):
            nxt = []
            for p, ex in cur:
                if ex != "fall":
                    nxt.append((p, ex))
                    continue
                for q, ex2 in stmt_paths(c, loop_iters):
                    nxt.append((p + q, ex2))
            cur = nxt
            if len(cur) > MAX_PATHS:
                raise AnalysisBroken("path explosion")
        return cur
    if k == "if":
        out = []
        pre = [[]]
        if s.get("init") is not None:
            pre = [p for p, _ in stmt_paths(s["init"], loop_iters)]
        if s.get("cvar") is not None:
            cv = s["cvar"]
            pre = _cat(pre, [p + [("decl", cv)] for p in val_paths(cv.get("init"))])
            conds = [([("assume", {"k": "var", "n": cv["n"], "d": "local"}, True)], True),
                     ([("assume", {"k": "var", "n": cv["n"], "d": "local"}, False)], False)]
        else:
            conds = bool_paths(s["c"])
        for pr in pre:
            for p, t in conds:
                br = s["t"] if t else s.get("e")
                for q, ex in stmt_paths(br, loop_iters):
                    out.append((pr + p + q, ex))
        return out
    if k in ("for", "while", "do", "rfor"):
        init = [[]]
        if k == "for" and s.get("init") is not None:
            init = [p for p, _ in stmt_paths(s["init"], loop_iters)]
        if k == "rfor":
            init = val_paths(s.get("range"))
        cond = s.get("c")
        inc = s.get("inc")
        _mark_top(inc)
        body = s.get("b")

        def cond_paths():
            if k == "rfor":
                n = {"k": "var", "n": "<range>", "d": "local"}
                return [([("assume", n, True), ("decl", s["var"])], True), ([("assume", n, False)], False)]
            if cond is None:
                return [([], True)]
            return bool_paths(cond)

        out = []
        # states: (events, iterations)
        frontier = [(p, 0) for p in init]
        first = True
        while frontier:
            nxt = []
            for p, it in frontier:
                cps = cond_paths() if not (k == "do" and first and it == 0) else [([], True)]
                for cp, t in cps:
                    if not t:
                        out.append((p + cp, "fall"))
                        continue
                    if it >= loop_iters:
                        continue  # bounded unrolling: drop longer paths
                    for q, ex in stmt_paths(body, loop_iters):
                        if ex == "ret":
                            out.append((p + cp + q, "ret"))
                        elif ex == "brk":
                            out.append((p + cp + q, "fall"))
                        else:
                            for ip in (val_paths(inc) if inc is not None else [[]]):
                                nxt.append((p + cp + q + ip, it + 1))
            frontier = nxt
            first = False
            if len(out) + len(frontier) > MAX_PATHS:
                raise AnalysisBroken("path explosion in loop")
        return out
    if k == "switch":
        items = _flatten_switch(s["b"])
        cond = s["c"]
        pre = val_paths(cond)
        starts = []
        if "cv" in cond:
            hit = None
            dflt = None
            for i, (labels, _) in enumerate(items):
                for l in labels:
                    if l == "default":
                        dflt = i
                    elif isinstance(l, dict) and l.get("cv") == cond["cv"]:
                        hit = i
            st = hit if hit is not None else dflt
            starts = [(st, [])] if st is not None else [(None, [])]
        else:
            seen_default = False
            for i, (labels, _) in enumerate(items):
                if labels:
                    starts.append((i, [("assume", {"k": "switchcase", "c": cond, "labels": labels}, True)]))
                    if "default" in labels:
                        seen_default = True
            if not seen_default:
                starts.append((None, [("assume", {"k": "switchcase", "c": cond, "labels": []}, True)]))
        out = []
        for st, ev in starts:
            for pr in pre:
                if st is None:
                    out.append((pr + ev, "fall"))
                    continue
                cur = [(pr + ev, "fall")]
                for labels, body in items[st:]:
                    nxt = []
                    for p, ex in cur:
                        if ex != "fall":
                            nxt.append((p, ex))
                            continue
                        for q, ex2 in stmt_paths(body, loop_iters):
                            nxt.append((p + q, ex2))
                    cur = nxt
                for p, ex in cur:
                    out.append((p, "fall" if ex == "brk" else ex))
        return out
    if k == "ret":
        e0 = strip(s.get("e")) if isinstance(s.get("e"), dict) else None
        if isinstance(e0, dict) and e0.get("k") == "cond" and "cv" not in e0:
            # `return c ? a : b;` returns a on the paths where c holds and b on the others (each path's ret event carries its own arm)
            out = []
            for p, t in bool_paths(e0["c"]):
                arm = dict(s)
                arm["e"] = e0["t"] if t else e0["f"]
                out += [(p + q, ex) for q, ex in stmt_paths(arm, loop_iters)]
            return out
        return [(p + [("ret", s)], "ret") for p in val_paths(s.get("e"))]
    if k == "break":
        return [([], "brk")]
    if k == "cont":
        return [([], "cont")]
    if k == "decl":
        alts = [[]]
        for v in s.get("vars", []):
            alts = [p + [("decl", v)] for p in _cat(alts, val_paths(v.get("init")))]
        return [(p, "fall") for p in alts]
    if k in ("null", "label", "goto"):
        return [([], "fall")]
    if k == "try":
        return stmt_paths(s.get("b"), loop_iters)
    if k in ("case", "default"):
        return stmt_paths(s.get("s"), loop_iters)
    if k == "opaque":
        raise AnalysisBroken("opaque statement %s" % s.get("c"))
    # expression statement
    _mark_top(s)
    return [(p, "fall") for p in val_paths(s)]


def fn_paths(body_node, loop_iters=2):
    """All structured paths of a function body: list of event lists (each ends with a ret event
    or falls off the end)."""
    return [p for p, _ in stmt_paths(body_node, loop_iters)]


# ------------------------------------------------------------------------------------------------
# symbolic values / places


class Sym:
    """Evaluates expressions to canonical symbolic strings along one path.

    * reference locals are aliases of their initialiser's place;
    * value locals are copy-propagated (their current symbolic value);
    * calls to accessors (functions whose body is a single `return <expr>;`) are inlined, to depth 3;
    * casts are transparent; constants are folded to their evaluated value.
    """

    def __init__(self, facts, fid=None, params=None, this="this", depth=0):
        self.F = facts
        self.fid = fid
        self.env = {}          # local name -> symbolic string
        self.params = params or {}
        self.this = this
        self.depth = depth

    def accessor_body(self, fid):
        cache = self.F.__dict__.setdefault("_accessor", {})
        if fid not in cache:
            cache[fid] = self._accessor_body(fid)
        return cache[fid]

    def _accessor_body(self, fid):
        b = self.F.body(fid)
        if b is None:
            return None
        body = b.get("body")
        if not body or body.get("k") != "seq":
            return None
        ss = [x for x in body.get("s", []) if not is_noop(x)]
        if len(ss) != 1 or ss[0].get("k") != "ret" or ss[0].get("e") is None:
            return None
        if not self.placelike(ss[0]["e"]):
            return None
        return b, ss[0]["e"]

    def placelike(self, e, depth=0):
        """accessor bodies denote a place or a plain read of one: member / element / dereference chains only"""
        e = strip(e)
        if not isinstance(e, dict) or depth > 6:
            return False
        k = e.get("k")
        if k == "this":
            return True
        if k == "var":
            # a function that just returns a constant is not an accessor of a place
            return e.get("d") in ("param", "local") or depth > 0
        if k == "mem":
            return "f" not in e and self.placelike(e.get("b"), depth + 1)
        if k == "idx":
            return self.placelike(e.get("b"), depth + 1)
        if k == "un" and e.get("op") in ("*", "&"):
            return self.placelike(e.get("e"), depth + 1)
        if k == "call" and "f" in e:
            fb = self.F.body(e["f"])
            if fb is None:
                return False
            body = fb.get("body") or {}
            ss = [x for x in body.get("s", []) if not is_noop(x)]
            return len(ss) == 1 and ss[0].get("k") == "ret" and ss[0].get("e") is not None and self.placelike(ss[0]["e"], depth + 1)
        return False

    def sym(self, e):
        if e is None:
            return "<none>"
        k = e.get("k")
        if "cv" in e and k not in ("asg",):
            if k == "var" and e.get("d") in ("smember", "global", "enum"):
                return "#%s" % e["cv"]
            if k not in ("call",):
                return "#%s" % e["cv"]
        if k == "lit":
            return "#%s" % (e.get("v"),)
        if k == "this":
            return self.this
        if k == "var":
            d = e.get("d")
            n = e["n"]
            if d in ("local", "slocal"):
                return self.env.get(n, "L:" + n)
            if d == "param":
                return self.params.get(n, "P:" + n)
            if d == "fn":
                return "&fn:%s" % self.F.fdisp(e.get("f"))
            return "C:" + (e.get("o", "") + "::" if e.get("o") else "") + n
        if k == "mem":
            if "f" in e:
                return "&fn:%s" % self.F.fdisp(e["f"])
            if e.get("o") == "BackUp":
                return self.sym(e.get("b")) + ".BackUp::" + e["n"]
            return self.sym(e.get("b")) + "." + e["n"]
        if k == "idx":
            return self.sym(e["b"]) + "[" + self.sym(e["i"]) + "]"
        if k in ("cast", "defarg", "definit"):
            return self.sym(e.get("e"))
        if k == "un":
            if e["op"] in ("++", "--"):
                return self.sym(e["e"])
            return "(" + e["op"] + self.sym(e["e"]) + ")"
        if k == "bin":
            return "(" + self.sym(e["lhs"]) + e["op"] + self.sym(e["rhs"]) + ")"
        if k == "asg":
            return self.sym(e["lhs"])
        if k == "cond":
            return "(" + self.sym(e["c"]) + "?" + self.sym(e["t"]) + ":" + self.sym(e["f"]) + ")"
        if k == "call":
            if "f" in e:
                acc = self.accessor_body(e["f"]) if self.depth < 3 else None
                if acc is not None:
                    b, rete = acc
                    ps = {}
                    for i, p in enumerate(b.get("params", [])):
                        if i < len(e.get("a", [])):
                            ps[p["n"]] = self.sym(e["a"][i])
                    sub = Sym(self.F, e["f"], ps, self.sym(e["obj"]) if e.get("obj") is not None else "this", self.depth + 1)
                    return sub.sym(rete)
                name = self.F.fdisp(e["f"])
                fta = self.F.fn(e["f"]).get("ftargs")
                if fta:
                    name += "<" + ",".join(str(a.get("n", a.get("v"))) if isinstance(a, dict) else "T" for a in fta) + ">"
                args = ",".join(self.sym(a) for a in e.get("a", []))
                obj = self.sym(e["obj"]) + "." if e.get("obj") is not None else ""
                return obj + name + "(" + args + ")"
            return "icall:" + self.sym(e.get("callee")) + "(" + ",".join(self.sym(a) for a in e.get("a", [])) + ")"
        if k == "ctor":
            a = e.get("a", [])
            if (e.get("copy") or e.get("move")) and len(a) == 1:
                return self.sym(a[0])
            t = self.F.type(e.get("tid"))
            tn = (t.get("tmpl") or t.get("name")) if t else e.get("t", "?")
            return tn + "{" + ",".join(self.sym(x) for x in a) + "}"
        if k == "ilist":
            t = self.F.type(e.get("tid"))
            tn = (t.get("tmpl") or t.get("name")) if t else ""
            return tn + "{" + ",".join(self.sym(x) for x in e.get("a", [])) + "}"
        if k == "zero":
            return "#0"
        if k == "new":
            return "new(" + ",".join(self.sym(x) for x in e.get("place", [])) + ")"
        if k == "dep":
            return "dep:" + e.get("n", "?")
        if k == "switchcase":
            return "case(" + self.sym(e["c"]) + ")"
        return "<" + str(k) + ">"

    # -- environment updates while walking a path
    def declare(self, v):
        init = v.get("init")
        if ("tid" in v or v.get("array")) and not v.get("ref") and not v.get("ptr"):
            # an object of class type has identity: it is not copy-propagated
            self.env[v["n"]] = "L:" + v["n"]
            return
        if init is None:
            self.env[v["n"]] = "L:" + v["n"] if not v.get("ref") else "?"
            return
        self.env[v["n"]] = self.sym(init)

    def assign(self, node):
        lhs = strip(node["lhs"])
        if lhs.get("k") == "var" and lhs.get("d") in ("local",):
            n = lhs["n"]
            cur = self.env.get(n, "L:" + n)
            # a reference local aliases a place: assignment writes the place, the alias is unchanged
            if cur.startswith("L:") or self._is_value_local(n):
                if node["op"] == "=":
                    self.env[n] = self.sym(node["rhs"])
                else:
                    self.env[n] = "(" + cur + node["op"][:-1] + self.sym(node["rhs"]) + ")"

    def stale(self, place):
        """A place was overwritten: value locals that copied it earlier now hold its *old* value."""
        if not place or place.startswith("L:") or len(place) < 4:
            return
        for n in list(getattr(self, "_valuelocals", ())):
            v = self.env.get(n)
            if v and place in v:
                self.env[n] = v.replace(place, "old(" + place + ")")

    def _is_value_local(self, n):
        return n in self._valuelocals if hasattr(self, "_valuelocals") else False


def symbolize(facts, fid, path):
    """Walk one path in order, producing symbolic events:
       ('call', node, callee_fid, obj_sym, [arg_syms])
       ('write', node, place_sym, value_sym)        (assignments, ++/--)
       ('assume', node, sym, truth)
       ('ret', node, sym)
       ('decl', var, sym)
    Local value variables are copy-propagated, so writes to them are not reported as writes."""
    S = Sym(facts, fid)
    S._valuelocals = set()
    out = []
    pending = []          # post-increments whose store is deferred until the event that consumes their (old) value has been emitted
    queue = list(path)
    qi = 0
    while qi < len(queue) or pending:
        if qi >= len(queue):
            ev = ("inc", pending.pop(0)[1])
        else:
            ev = queue[qi]
            qi += 1
            if pending and ev[0] != "postinc":
                # emit the consumer first, then the deferred increments
                queue[qi:qi] = [("inc", p[1]) for p in pending]
                pending = []
        t = ev[0]
        if t == "decl":
            v = ev[1]
            if not v.get("ref"):
                S._valuelocals.add(v["n"])
            S.declare(v)
            out.append(("decl", v, S.env.get(v["n"])))
        elif t == "asg":
            n = ev[1]
            lhs = strip(n["lhs"])
            place = S.sym(n["lhs"])
            val = S.sym(n["rhs"])
            if lhs.get("k") == "var" and lhs.get("d") == "local" and lhs["n"] in S._valuelocals:
                S.assign(n)
                out.append(("lwrite", n, "L:" + lhs["n"], val))
            else:
                if n["op"] != "=":
                    val = "(" + place + n["op"][:-1] + val + ")"
                out.append(("write", n, place, val))
                S.stale(place)
        elif t == "postinc":
            pending.append(ev)
            continue
        elif t == "inc":
            n = ev[1]
            tgt = strip(n["e"])
            place = S.sym(n["e"])
            if tgt.get("k") == "var" and tgt.get("d") == "local" and tgt["n"] in S._valuelocals:
                S.env[tgt["n"]] = "(" + place + n["op"][0] + "#1)"
                out.append(("lwrite", n, "L:" + tgt["n"], S.env[tgt["n"]]))
            else:
                out.append(("write", n, place, "(" + place + n["op"][0] + "#1)"))
                S.stale(place)
        elif t == "call":
            n = ev[1]
            obj = S.sym(n["obj"]) if n.get("obj") is not None else None
            args = [S.sym(a) for a in n.get("a", [])]
            callee = n.get("f")
            if callee is None and n.get("callee") is not None:
                cs = S.sym(n["callee"])
                out.append(("icall", n, cs, obj, args))
            else:
                out.append(("call", n, callee, obj, args))
                if n.get("op") == "=" and obj is not None and len(args) == 1:
                    # assignment of a class-type object (operator=): also a write of that place
                    out.append(("write", n, obj, args[0]))
                    S.stale(obj)
        elif t == "assume":
            out.append(("assume", ev[1], S.sym(ev[1]), ev[2]))
        elif t == "ret":
            n = ev[1]
            out.append(("ret", n, S.sym(n["e"]) if n.get("e") is not None else None))
        elif t == "new":
            out.append(("new", ev[1], S.sym(ev[1]), None))
        elif t == "delete":
            out.append(("delete", ev[1], None, None))
    return out


def sym_paths(facts, fid, loop_iters=2):
    cache = facts.__dict__.setdefault("_sympaths", {})
    key = (fid, loop_iters)
    if key not in cache:
        cache[key] = _sym_paths(facts, fid, loop_iters)
    return cache[key]


def _sym_paths(facts, fid, loop_iters=2):
    b = facts.body(fid)
    if b is None or b.get("body") is None:
        raise AnalysisBroken("no body for function %s" % facts.fdisp(fid))
    if has_opaque(b["body"]):
        raise AnalysisBroken("opaque construct in %s" % facts.fdisp(fid))
    pre = []
    # constructor initialisers run before the body
    for init in b.get("inits", []) or []:
        pre.append(init)
    out = []
    for p in fn_paths(b["body"], loop_iters):
        sp = symbolize(facts, fid, p)
        if feasible(sp):
            out.append(sp)
    return out


def feasible(sp):
    """Prune paths that assume the same symbolic condition both ways with nothing in between that
    could change it (no call, no write)."""
    known = {}
    for ev in sp:
        t = ev[0]
        if t == "assume":
            s = ev[2]
            if s in known and known[s] != ev[3]:
                return False
            known[s] = ev[3]
        elif t in ("call", "icall", "write", "new", "delete"):
            if t == "call" and ev[2] is not None and _pure_accessor(ev):
                continue
            known.clear()
        elif t == "lwrite":
            n = ev[2]
            for k in [k for k in known if n in k]:
                del known[k]
    return True


def _pure_accessor(ev):
    return False
