"""Engine [C] — type-level witnesses for C17.

Enumerates machine shapes (ordered trees over leaf / composite / orthogonal, headed or headless), computes the identifiers and counts
the declaration implies with an independent reference (plain DFS below — it shares no code with the library's metafunctions), and
emits translation units of static_asserts over the library's public type-level API.  The type checker decides; nothing is run.
"""
import itertools
import math
import os
import re
import subprocess
import time
from concurrent.futures import ThreadPoolExecutor

from .facts import REPO, VERIF

L, C, CP, O, OP = "L", "C", "Cp", "O", "Op"      # leaf, composite headed / headless (peers), orthogonal headed / headless


class Node:
    __slots__ = ("kind", "kids", "name", "sid", "rid", "strategy")

    def __init__(self, kind, kids=()):
        self.kind = kind
        self.kids = list(kids)
        self.name = None
        self.sid = None
        self.rid = None
        self.strategy = "Composite"

    def is_region(self):
        return self.kind != L

    def size(self):
        return 1 + sum(k.size() for k in self.kids)

    def sig(self):
        if self.kind == L:
            return "L"
        return self.kind + "(" + ",".join(k.sig() for k in self.kids) + ")"


def forests(n, memo={}):
    """all ordered forests (tuples of trees) with exactly n nodes"""
    if n in memo:
        return memo[n]
    out = []
    if n == 0:
        out = [()]
    else:
        for first in range(1, n + 1):
            for t in trees(first):
                for rest in forests(n - first):
                    out.append((t,) + rest)
    memo[n] = out
    return out


def trees(n, memo={}):
    """all trees with exactly n nodes, as nested tuples (kind, kids)"""
    if n in memo:
        return memo[n]
    out = []
    if n == 1:
        out = [(L, ())]
    else:
        for f in forests(n - 1):
            for kind in (C, CP, O, OP):
                out.append((kind, f))
        # (n == 1 regions without sub-states do not exist)
    memo[n] = out
    return out


def build(t):
    return Node(t[0], [build(k) for k in t[1]])


def has_composite(n):
    return n.kind in (C, CP) or any(has_composite(k) for k in n.kids)


def enumerate_shapes(max_states):
    out = []
    for n in range(2, max_states + 1):
        for t in trees(n):
            if t[0] == L:
                continue
            node = build(t)
            if has_composite(node):
                out.append(node)
    return out


# ------------------------------------------------------------------------------------------------ reference


def bit_contain(v):
    b = 0
    while v > (1 << b) and b < 8:
        b += 1
    return b


class Expect:
    def __init__(self, root):
        self.root = root
        self.states = []
        self.regions = []
        self._number(root)
        self.state_count = len(self.states)
        self.region_count = len(self.regions)
        self.compo_count = sum(1 for r in self.regions if r.kind in (C, CP))
        self.ortho_count = sum(1 for r in self.regions if r.kind in (O, OP))
        self.ortho_units = sum((len(r.kids) + 7) // 8 for r in self.regions if r.kind in (O, OP))
        self.compo_prongs = sum(len(r.kids) for r in self.regions if r.kind in (C, CP))
        self.active_bits = self._active(root)
        self.resumable_bits = self._resumable(root)
        self.serial_bits = 1 + self.active_bits + self.resumable_bits
        self.task_capacity = self.compo_prongs * 2
        self.reverse_depth = self._height(root)

    def _height(self, n):
        """levels below and including n (leaf = 1): sizes the structure report's prefix buffer"""
        return 1 + (max(self._height(k) for k in n.kids) if n.kids else 0)

    def _number(self, n):
        n.sid = len(self.states)
        self.states.append(n)
        if n.is_region():
            n.rid = len(self.regions)
            self.regions.append(n)
        for k in n.kids:
            self._number(k)

    def _active(self, n):
        if n.kind == L:
            return 0
        if n.kind in (C, CP):
            return bit_contain(len(n.kids)) + max(self._active(k) for k in n.kids)
        return sum(self._active(k) for k in n.kids)

    def _resumable(self, n):
        if n.kind == L:
            return 0
        s = sum(self._resumable(k) for k in n.kids)
        if n.kind in (C, CP):
            return bit_contain(len(n.kids)) + 1 + s
        return s

    def indices(self):
        """materialised indices I_<STATE_ID, COMPO_INDEX, ORTHO_INDEX, ORTHO_UNIT> per node, by an independent DFS"""
        out = {}
        ci = oi = ou = 0

        def walk(n):
            nonlocal ci, oi, ou
            out[n.sid] = (n.sid, ci, oi, ou)
            if n.kind in (C, CP):
                ci += 1
            elif n.kind in (O, OP):
                oi += 1
                ou += (len(n.kids) + 7) // 8
            for k in n.kids:
                walk(k)
        walk(self.root)
        return out


# ------------------------------------------------------------------------------------------------ code generation

STRATS = ["Composite", "Resumable", "Selectable", "Utilitarian", "Random"]


def name_nodes(root, prefix):
    i = [0]

    def walk(n):
        headless = n.kind in (CP, OP)
        n.name = None if headless else "%s_%d" % (prefix, i[0])
        i[0] += 1
        for k in n.kids:
            walk(k)
    walk(root)


def cpp_type(n, utility, root=False):
    if n.kind == L:
        return n.name
    subs = ", ".join(cpp_type(k, utility) for k in n.kids)
    strat = n.strategy if (utility or n.strategy in ("Composite", "Resumable", "Selectable")) else "Composite"
    if n.kind in (C, CP):
        nm = strat + ("Peers" if n.kind == CP else "")
        if root:
            nm = {"Composite": "Root", "CompositePeers": "PeerRoot"}.get(nm, nm[:-5] + "PeerRoot" if n.kind == CP else nm + "Root")
        return "M::%s<%s%s>" % (nm, (n.name + ", ") if n.kind == C else "", subs)
    nm = "Orthogonal" + ("Peers" if n.kind == OP else "")
    if root:
        nm = "OrthogonalRoot" if n.kind == O else "OrthogonalPeerRoot"
    return "M::%s<%s%s>" % (nm, (n.name + ", ") if n.kind == O else "", subs)


def emit_shape(idx, root, features, strategy_seed=0):
    ns = "s%d" % idx
    name_nodes(root, "N")
    ex = Expect(root)
    # strategies: rotate through the catalogue so that every strategy appears in every family
    k = strategy_seed
    for r in ex.regions:
        if r.kind in (C, CP):
            r.strategy = STRATS[k % (5 if "UTILITY_THEORY" in features else 3)]
            k += 1
    lines = ["namespace %s {" % ns, "using M = hfsm2::Machine;"]
    names = [n.name for n in ex.states if n.name]
    lines.append("".join("struct %s; " % n for n in names))
    lines.append("using FSM = %s;" % cpp_type(root, "UTILITY_THEORY" in features, root=True))

    def sa(cond, what):
        lines.append('static_assert(%s, "C17|%s|%s|%s");' % (cond, ns, root.sig(), what))
    for n in ex.states:
        if n.name:
            sa("FSM::stateId<%s>() == %d" % (n.name, n.sid), "stateId(node %d) == %d" % (n.sid, n.sid))
    for r in ex.regions:
        if r.name:
            sa("FSM::regionId<%s>() == %d" % (r.name, r.rid), "regionId(node %d) == %d" % (r.sid, r.rid))
    # the helpers every state inherits (FSM::State::stateId<>() / regionId<>(), used inside callbacks) resolve in the same lists
    for n in ex.states:
        if n.name:
            sa("FSM::State::template stateId<%s>() == %d" % (n.name, n.sid), "State::stateId(node %d) == %d" % (n.sid, n.sid))
    for r in ex.regions:
        if r.name:
            sa("FSM::State::template regionId<%s>() == %d" % (r.name, r.rid), "State::regionId(node %d) == %d" % (r.sid, r.rid))
    sa("FSM::STATE_COUNT == %d" % ex.state_count, "STATE_COUNT == %d" % ex.state_count)
    sa("FSM::REGION_COUNT == %d" % ex.region_count, "REGION_COUNT == %d" % ex.region_count)
    sa("FSM::COMPO_COUNT == %d" % ex.compo_count, "COMPO_COUNT == %d" % ex.compo_count)
    sa("FSM::ORTHO_COUNT == %d" % ex.ortho_count, "ORTHO_COUNT == %d" % ex.ortho_count)
    sa("FSM::ORTHO_UNITS == %d" % ex.ortho_units, "ORTHO_UNITS == %d" % ex.ortho_units)
    sa("FSM::Apex::COMPO_PRONGS == %d" % ex.compo_prongs, "COMPO_PRONGS == %d" % ex.compo_prongs)
    sa("FSM::StateList::SIZE == %d && FSM::RegionList::SIZE == %d" % (ex.state_count, ex.region_count), "list sizes")
    sa("FSM::Apex::REVERSE_DEPTH == %d" % ex.reverse_depth, "REVERSE_DEPTH == %d" % ex.reverse_depth)
    # the counts that can exceed 255 are carried in the wide identifier type at every level (a narrower sibling wraps silently)
    for cst in ("COMPO_PRONGS", "REVERSE_DEPTH"):
        sa("sizeof(FSM::Apex::%s) == sizeof(hfsm2::Long) && sizeof(FSM::Apex::SubStates::%s) == sizeof(hfsm2::Long)" % (cst, cst), "type of %s is Long" % cst)
    sa("sizeof(FSM::Apex::STATE_COUNT) == sizeof(hfsm2::Long)", "type of STATE_COUNT is Long")
    if "SERIALIZATION" in features:
        sa("FSM::ACTIVE_BITS == %d" % ex.active_bits, "ACTIVE_BITS == %d" % ex.active_bits)
        sa("FSM::RESUMABLE_BITS == %d" % ex.resumable_bits, "RESUMABLE_BITS == %d" % ex.resumable_bits)
        sa("FSM::SERIAL_BITS == %d" % ex.serial_bits, "SERIAL_BITS == %d" % ex.serial_bits)
        # ... and the copy the buffers and streams are sized with (ArgsT) carries the same value in a type that can hold it
        sa("FSM::Args::SERIAL_BITS == FSM::SERIAL_BITS", "Args::SERIAL_BITS == SERIAL_BITS")
        sa("sizeof(FSM::Args::SERIAL_BITS) == sizeof(hfsm2::Long)", "type of Args::SERIAL_BITS is Long")
    if "PLANS" in features:
        sa("FSM::TASK_CAPACITY == %d" % ex.task_capacity, "TASK_CAPACITY == %d" % ex.task_capacity)
        sa("FSM::Args::TASK_CAPACITY == FSM::TASK_CAPACITY && sizeof(FSM::Args::TASK_CAPACITY) == sizeof(hfsm2::Long)", "Args::TASK_CAPACITY == TASK_CAPACITY")
    sa("FSM::Args::STATE_COUNT == FSM::STATE_COUNT && sizeof(FSM::Args::STATE_COUNT) == sizeof(hfsm2::Long)", "Args::STATE_COUNT == STATE_COUNT")
    sa("FSM::Args::COMPO_COUNT == FSM::COMPO_COUNT && FSM::Args::ORTHO_COUNT == FSM::ORTHO_COUNT && FSM::Args::ORTHO_UNITS == FSM::ORTHO_UNITS",
       "Args region counts == RF_ region counts")
    lines.append("}")
    return "\n".join(lines), ex


def emit_materialised(idx, root, features):
    """a complete machine (state types defined, Instance instantiated as a class) so that the extractor can read the I_<...> indices of
    every S_/C_/O_ base from the instantiated hierarchy"""
    txt, ex = emit_shape(idx, root, features, strategy_seed=idx)
    txt = txt.replace("namespace s%d {" % idx, "namespace m%d {" % idx, 1).replace("|s%d|" % idx, "|m%d|" % idx)
    defs = "".join("struct %s : FSM::State {}; " % n.name for n in ex.states if n.name)
    txt = txt[:txt.rindex("}")] + defs + "\ninline void build() noexcept { FSM::Instance m; (void)m; }   // instantiates the constructor (registration); never run\n}"
    return txt, ex


def emit_peer_pair(idx, root, features):
    """two separately written machines with the same structure agree on every identifier"""
    a, exa = emit_shape(idx, root, features)
    body = a.replace("namespace s%d {" % idx, "namespace p%d_a {" % idx, 1).replace("|s%d|" % idx, "|p%d|" % idx)
    b = body.replace("namespace p%d_a {" % idx, "namespace p%d_b {" % idx, 1)
    cmp_lines = ["namespace p%d_cmp {" % idx]
    for n in exa.states:
        if n.name:
            cmp_lines.append('static_assert(p%d_a::FSM::stateId<p%d_a::%s>() == p%d_b::FSM::stateId<p%d_b::%s>(), "C17|p%d|%s|peers agree on node %d");' % (
                idx, idx, n.name, idx, idx, n.name, idx, root.sig(), n.sid))
    cmp_lines.append("}")
    return body + "\n" + b + "\n" + "\n".join(cmp_lines)


def wide_shapes():
    out = []
    for w in range(2, 18):
        for kind in (C, CP, O, OP):
            kids = [Node(L) for _ in range(w)]
            out.append(Node(C, [Node(L), Node(kind, kids), Node(L)]))
            # nested at depth 3, in the middle of a composite and of an orthogonal parent
            inner = Node(kind, [Node(L) for _ in range(w)])
            out.append(Node(CP, [Node(O, [Node(L), Node(C, [Node(L), inner]), Node(L)]), Node(L)]))
    return out


def big_shapes():
    """machines whose totals exceed what an 8-bit constant can hold (more than 255 states / serial bits / prongs): 52 concurrently active
    composite regions of four sub-states need 261 serial bits"""
    return [Node(OP, [Node(C, [Node(L) for _ in range(4)]) for _ in range(52)]),
            Node(CP, [Node(C, [Node(L) for _ in range(4)]) for _ in range(64)])]


def mixed_shapes():
    """orthogonal regions over several composite sub-regions of different widths (where the serialization budget adds up rather than
    taking the maximum), orthogonal regions after wide orthogonal siblings (unit offsets), composites of orthogonals"""
    out = []
    ws = (2, 3, 5, 9)
    for ok in (O, OP):
        for ck in (C, CP):
            for w1 in ws:
                for w2 in ws:
                    out.append(Node(ok, [Node(ck, [Node(L) for _ in range(w1)]), Node(C, [Node(L) for _ in range(w2)])]))
                    out.append(Node(C, [Node(L), Node(ok, [Node(ck, [Node(L) for _ in range(w1)]), Node(L), Node(CP, [Node(L) for _ in range(w2)])])]))
    for wide in (8, 9, 16, 17):
        for ok in (O, OP):
            out.append(Node(ok, [Node(O, [Node(L) for _ in range(wide)]), Node(C, [Node(L), Node(OP, [Node(L), Node(C, [Node(L), Node(L)])])]), Node(L)]))
            out.append(Node(CP, [Node(ok, [Node(OP, [Node(L) for _ in range(wide)]), Node(O, [Node(L), Node(L)]), Node(C, [Node(L), Node(L)])]), Node(L)]))
    return out


FEATURE_FLAGS = {
    "none": [],
    "serial+plans": ["-DHFSM2_ENABLE_SERIALIZATION", "-DHFSM2_ENABLE_PLANS"],
    "all": ["-DHFSM2_ENABLE_ALL"],
}


def compile_unit(path, flags, flavour="include"):
    inc = ["-I" + os.path.join(REPO, "include")]
    if flavour == "development":
        inc = ["-I" + os.path.join(REPO, "development")]
    cmd = ["clang++", "-std=gnu++17", "-fsyntax-only", "-ferror-limit=0", "-w"] + inc + flags + [path]
    r = subprocess.run(cmd, stdout=subprocess.PIPE, stderr=subprocess.PIPE, text=True)
    return r.returncode, r.stderr


def parse_failures(stderr):
    fails = []
    other = []
    for line in stderr.splitlines():
        if "error:" not in line:
            continue
        m = re.search(r'"C17\|([^|]+)\|([^|]+)\|([^"]+)"', line)
        if m and "static_assert" in line:
            fails.append({"shape_id": m.group(1), "shape": m.group(2), "assertion": m.group(3), "diagnostic": line.split("error:", 1)[1].strip()[:200]})
        else:
            other.append(line.strip()[:300])
    return fails, other
