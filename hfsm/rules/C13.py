"""C13 — activity, resumable and pending queries agree with each other and the outcome.

Decided: both registries answer identically; the activity / resumable queries read the fields the commit / resume code writes
and reads, with the same index convention; the pending queries' comparisons; the query facades forward unchanged; the resume
path hands the remembered prong down unchanged (so what isResumable reports is what resume activates).
Not decided: "exactly the states about to be entered/exited" for nested states whose *ancestor* region is the one switching
(the queries consult only the nearest composite ancestor).
"""
import re

from ..engine import site_str
from ..ir import sym_paths, AnalysisBroken, walk, strip
from .common import insts, paths_of
from .C12 import _expr_txt, _FN
from . import C03, routing

TEXT = {
    "C13.siblings": "the general and the no-orthogonal RegistryT return the same normalised comparison (same atoms over parent.prong, compoActive, "
                    "compoRequested, compoResumable at index forkId-1) from each of activeSubState, isActive, isResumable, isPendingEnter, isPendingChange, isPendingExit",
    "C13.fields": "isActive: parent.prong == compoActive[forkId-1]; activeSubState: compoActive[forkId-1] of the sub-state's parent fork; isResumable: "
                  "parent.prong == compoResumable[forkId-1] (the field C_::deepRequestResume reads); isPendingEnter: prong != active && prong == requested; "
                  "isPendingExit: prong == active && prong != requested; isPendingChange: requested != active",
    "C13.sentinel": "in isPendingExit / isPendingChange every comparison with compoRequested that can make the answer true excludes compoRequested == INVALID_PRONG "
                    "(while nothing is pending all three are false)",
    "C13.facade": "GuardControlT / R_ / ControlT / ConstControlT query members forward to the same-named RegistryT member with their own argument",
    "C13.visible-order": "C_::deepEnter stores the region's active prong (and clears the pending one) before it invokes any callback (HeadState::deepEnter, "
                         "SubStates::wideEnter): inside enter() of a region head the region is active *and* has its active sub-state; O_::deepEnter likewise "
                         "has nothing to store after its first callback",
    "C13.resume-api": "every API member named resume* / schedule* (R_, RP_, FullControlBaseT, FullControlT, PlanT, PayloadPlanT, immediate forms included) queues "
                      "the RESUME / SCHEDULE kind its name denotes - `the sub-state reported resumable is the one a subsequent resume activates` holds only if "
                      "resume() is a RESUME request and schedule() writes the mark isResumable / isScheduled read (shared with C02.name-kind rule instances)",
    "C13.resume-path": "C_::deepRequestResume stores `resumable != INVALID ? resumable : 0` read from compoResumable[COMPO_INDEX] and the CS_ dispatchers hand it "
                       "down to the same-named member (shared with C02/C03 rule instances)",
}
MIN_INSTANCES = {"C13.visible-order": 1, "C13.siblings": 6, "C13.fields": 6, "C13.sentinel": 2, "C13.facade": 12, "C13.resume-path": 20, "C13.resume-api": 20}

QUERIES = ("activeSubState", "isActive", "isResumable", "isPendingEnter", "isPendingChange", "isPendingExit")

EXPECT = {
    "isActive": {("==", "ACT", "PRONG")},
    "isResumable": {("==", "PRONG", "RES")},
    "isPendingEnter": {("!=", "ACT", "PRONG"), ("==", "PRONG", "REQ")},
    "isPendingChange": {("!=", "ACT", "REQ")},
    "isPendingExit": {("==", "ACT", "PRONG"), ("!=", "PRONG", "REQ")},
    "activeSubState": {("val", "ACT", "")},
}


def declare(ctx):
    for r, t in TEXT.items():
        ctx.rule(r, t)


_DEFS = {}


def _optxt(e):
    """operand text with const / reference locals replaced by their initialisers (a hoisted `parent.forkId - 1` is the same subscript)"""
    from .common import _subst_txt
    return _subst_txt(_FN.get("F"), e, _DEFS.get("defs", {}))


def norm_operand(t):
    t = t.replace("this.", "")
    t = re.sub(r"\[\((.*)\)\]$", r"[\1]", t)
    m = re.match(r"^(compoActive|compoRequested|compoResumable)\[parent\.forkId-1\]$", t)
    if m:
        return {"compoActive": "ACT", "compoRequested": "REQ", "compoResumable": "RES"}[m.group(1)]
    if t == "parent.prong":
        return "PRONG"
    if t in ("INVALID_PRONG", "255", "65535"):
        return "INVALID"
    return t


def atoms_of(e):
    """the literals of a boolean expression that is (equivalent to) a conjunction of == / != comparisons, in any spelling (nested early
    returns, negated tests, De Morgan forms): decided on its truth table - a conjunction of literals has exactly one satisfying row;
    None if it is not such a conjunction"""
    from .common import bexp, truth_table
    try:
        atoms, table = truth_table(bexp(_FN.get("F"), e, _DEFS.get("defs", {})))
    except Exception:
        return None
    if not atoms or sum(1 for v in table if v) != 1:
        return None
    import itertools
    row = [vals for vals, v in zip(itertools.product((False, True), repeat=len(atoms)), table) if v][0]
    out = set()
    for a, val in zip(atoms, row):
        if "==" not in a:
            return None
        l, r = a.split("==", 1)
        l, r = sorted((norm_operand(l), norm_operand(r)))
        out.add(("==" if val else "!=", l, r))
    return out


def query_atoms(F, b):
    """the registry-dependent return of a query: set of atoms, or ('val', operand)"""
    out = []
    from .common import local_defs
    defs = local_defs(b["body"])
    # only scalar temporaries are looked through: `parent` (a Parent record) is the walk's cursor and part of the canonical operand spelling
    scalar = set(v["n"] for x in walk(b["body"]) if x.get("k") == "decl" for v in x["vars"] if v.get("tid") is None and v.get("n"))
    _DEFS["defs"] = defs = {n: e for n, e in defs.items() if n in scalar}
    for x in walk(b["body"]):
        if x.get("k") == "ret" and x.get("e") is not None:
            e = strip(x["e"])
            while isinstance(e, dict) and e.get("k") == "var" and e.get("d") == "local" and e.get("n") in defs:
                e = strip(defs[e["n"]])          # `const bool r = ...; return r;`
            t = _optxt(e)
            if not re.search(r"compo(Active|Requested|Resumable)\[", t):
                continue
            a = atoms_of(e)
            if a is None:
                out.append(frozenset({("val", norm_operand(t), "")}))
            else:
                out.append(frozenset(a))
    return out


def check_visible_order(ctx, F):
    from .common import regfield, paths_of
    for fid, b in insts(F, "C_", {"deepEnter"}):
        site = "C_::deepEnter"
        bad = None
        for p in paths_of(ctx, F, fid):
            first_cb = None
            last_w = None
            for i, ev in enumerate(p):
                if ev[0] == "call" and ev[2] is not None and F.fn(ev[2]).get("cls") in ("S_", "CS_", "C_", "O_", "OS_") and F.fn(ev[2])["name"].startswith(("deep", "wide")) and first_cb is None:
                    first_cb = (i, F.fn(ev[2])["name"])
                if ev[0] == "write":
                    r = regfield(ev[2])
                    if r and r[0] in ("compoActive", "compoRequested", "compoResumable"):
                        last_w = (i, r[0])
            if first_cb and last_w and last_w[0] > first_cb[0]:
                bad = "registry.%s is stored after the callback %s has run: inside enter() of the region head the queries see the region active without an " \
                      "active sub-state" % (last_w[1], first_cb[1])
        ctx.instance("C13.visible-order", site, {"function": site, "loc": F.floc(fid)})
        if bad:
            ctx.violation("C13.visible-order", site, "%s (%s)" % (site, F.floc(fid)), bad, {})


class _ResumeApi:
    """C02.name-kind restricted to the resume / schedule family, reported under this property"""

    def __init__(self, ctx):
        self.ctx = ctx

    def __getattr__(self, n):
        return getattr(self.ctx, n)

    @staticmethod
    def _mine(site):
        n = site.split("::")[-1].split("/")[0].lower()
        return "resume" in n or "schedule" in n

    def instance(self, rule, site, sample=None):
        if self._mine(site):
            self.ctx.instance("C13.resume-api", site, sample)

    def violation(self, rule, key, where, msg, detail=None):
        if self._mine(key):
            self.ctx.violation("C13.resume-api", key, where, msg, detail)


def check(ctx, F):
    _FN["F"] = F
    check_visible_order(ctx, F)
    # "activeSubState(r) is the index of r's active sub-state": a region is entered with a requested prong only if every resolver hands its
    # own choice down (routing.check_descend, shared with C01 / C02) and the commit runs on an approved round's requests (C04.round)
    from . import routing, C04, C03
    routing.check_descend(ctx, F, "C13.resume-path")
    from . import C02
    C02.check_name_kind(_ResumeApi(ctx), F)
    C04.check_round(C03._Alias(ctx, {"C04.round": "C13.visible-order"}), F)
    per = {}
    for fid, b in insts(F, "RegistryT", set(QUERIES)):
        if b["name"] == "isActive" and not b.get("params"):
            continue
        spec = F.spec(b["tid"])
        qa = query_atoms(F, b)
        per[(spec, b["name"])] = (fid, qa)
        site = "RegistryT<%s>::%s" % (spec, b["name"])
        ctx.instance("C13.fields", site, {"function": site, "loc": F.floc(fid), "atoms": [sorted(a) for a in qa]})
        if spec == "general" and b["name"] != "activeSubState":
            # the composite fork that owns the answer may lie any number of orthogonal forks above the state: the way up is a loop over
            # forkParent(), not a fixed number of hops (with the loop unrolled twice some path climbs twice)
            climbs = 0
            for p in sym_paths(F, fid, 2):
                ctx.paths += 1
                climbs = max(climbs, sum(1 for ev in p if ev[0] == "call" and ev[2] is not None and F.fn(ev[2])["name"] == "forkParent"))
            if climbs < 2:
                ctx.violation("C13.fields", site + "/walk", "%s (%s)" % (site, F.floc(fid)),
                              "%s climbs at most %d fork(s) towards the nearest composite ancestor: for a state below nested orthogonal regions the query "
                              "never reaches the fork that decides it" % (site, climbs), {})
        if len(qa) != 1:
            ctx.violation("C13.fields", site + "/shape", "%s (%s)" % (site, F.floc(fid)), "%d registry-dependent returns, expected 1" % len(qa), {})
            continue
        got = set(qa[0])
        want = EXPECT[b["name"]]
        extra = got - want
        # an additional INVALID exclusion is admissible for the pending queries (it is what C13.sentinel asks for)
        extra = set(a for a in extra if not (a[0] == "!=" and "INVALID" in a[1:] and b["name"].startswith("isPending")))
        if want - got or extra:
            ctx.violation("C13.fields", site, "%s (%s)" % (site, F.floc(fid)),
                          "%s answers %s, expected %s" % (site, sorted(got), sorted(want)), {"found": sorted(got), "expected": sorted(want)})
        # index convention: the parent consulted
        txt = " ".join(_expr_txt(v.get("init") or {}) for x in walk(b["body"]) if x.get("k") in ("decl", "if") for v in (x.get("vars") or ([x["cvar"]] if x.get("cvar") else [])))
        want_parent = "stateParents[subStateId]" if b["name"] == "activeSubState" else "stateParents[stateId]"
        if want_parent not in txt:
            ctx.violation("C13.fields", site + "/parent", "%s (%s)" % (site, F.floc(fid)), "parent is taken from `%s`, expected %s" % (txt[:80], want_parent), {})
        if b["name"] in ("isPendingExit", "isPendingChange"):
            ctx.instance("C13.sentinel", site, {"function": site, "loc": F.floc(fid)})
            excl = any(a[0] == "!=" and set(a[1:]) == {"INVALID", "REQ"} for a in got)
            if not excl:
                ctx.violation("C13.sentinel", site, "%s (%s)" % (site, F.floc(fid)),
                              "%s is true while nothing is pending: `%s` holds with compoRequested == INVALID_PRONG" % (site, sorted(got)), {})
            else:
                # with the exclusion in place a region that has no request of its own must be judged by its ancestors: a state nested below a region
                # that is being left has nothing requested at its nearest fork, yet it is exited.  Some path must consult compoRequested of a
                # second fork after moving up (the exclusion at the nearest fork alone turns the false positive into a false negative)
                climbs = False
                for p in sym_paths(F, fid, 2):
                    ctx.paths += 1
                    seq = ""
                    for ev in p:
                        txt = " ".join(str(x) for x in ev[2:5] if isinstance(x, (str, list)))
                        if ev[0] == "call" and ev[2] is not None and F.fn(ev[2])["name"] == "forkParent" or (ev[0] == "write" and (ev[2] or "").startswith("L:parent")):
                            seq += "M"
                        elif "compoRequested" in txt and ev[0] in ("assume", "ret"):
                            seq += "R"
                    if re.search(r"R+M+R", seq):
                        climbs = True
                if not climbs:
                    ctx.violation("C13.sentinel", site + "/nearest-only", "%s (%s)" % (site, F.floc(fid)),
                                  "%s excludes compoRequested == INVALID_PRONG but looks at the nearest composite fork only: for a state nested below a region "
                                  "that is being left (nothing requested at its own fork) it answers false although the state is exited" % site, {})
    for name in QUERIES:
        g, n = per.get(("general", name)), per.get(("noortho", name))
        if g and n:
            site = "RegistryT::" + name
            ctx.instance("C13.siblings", site, {"loc": [F.floc(g[0]), F.floc(n[0])]})
            if [set(a) for a in g[1]] != [set(a) for a in n[1]]:
                ctx.violation("C13.siblings", site, "%s (%s | %s)" % (site, F.floc(g[0]), F.floc(n[0])),
                              "the two RegistryT specialisations disagree on %s: general %s, no-orthogonal %s" % (
                                  name, [sorted(a) for a in g[1]], [sorted(a) for a in n[1]]), {})
    check_facade(ctx, F)
    # resume path
    sub = C03._Alias(ctx, {"C03.cs-dispatch": "C13.resume-path"})
    C03.check_cs_dispatch(sub, F)
    for fid, (site, kind, nasg, atoms) in routing.sources(ctx, F).items():
        if site.endswith("deepRequestResume"):
            ctx.instance("C13.resume-path", site, {"function": site, "loc": F.floc(fid), "source": kind})
            if kind != "resumable":
                ctx.violation("C13.resume-path", site, "%s (%s)" % (site, F.floc(fid)),
                              "resume stores a prong from `%s`, not the region's remembered sub-state (compoResumable, else first)" % kind, {})


FACADE = ("isActive", "isResumable", "isPendingChange", "isPendingEnter", "isPendingExit", "activeSubState")


def check_facade_typed(ctx, F):
    """the state-typed overloads (isActive<S>(), activeSubState<S>(), isPendingExit<S>() ...) name the state by its *state* identifier:
    they return the id-taking member (or the registry member) applied to stateId<S>() - a region identifier there answers for another state"""
    for cls in ("GuardControlT", "R_", "ControlT", "ConstControlT"):
        for fid, b in insts(F, cls, set(FACADE) | {"isScheduled"}):
            if b.get("params") or not b.get("ftargs"):
                continue
            site = "%s::%s<TState>" % (cls, b["name"])
            rets = [x for x in walk(b["body"]) if x.get("k") == "ret" and x.get("e") is not None]
            ok = False
            what = None
            if len(rets) == 1:
                e = strip(rets[0]["e"])
                what = _expr_txt(e)
                if e.get("k") == "call" and "f" in e:
                    callee = F.fn(e["f"])["name"]
                    args = [strip(a) for a in e.get("a", [])]
                    same = callee == b["name"] or (b["name"] == "isScheduled" and callee == "isResumable")
                    if same and len(args) == 1 and args[0].get("k") == "call" and "f" in args[0] and F.fn(args[0]["f"])["name"] == "stateId":
                        ok = True
                    elif same and not args and F.fn(e["f"]).get("ftargs"):
                        ok = True          # forwards to a typed sibling, which is judged itself
            ctx.instance("C13.facade", site, {"function": site, "loc": F.floc(fid), "returns": what})
            if not ok:
                ctx.violation("C13.facade", site, "%s (%s)" % (site, F.floc(fid)),
                              "%s returns `%s`, expected `%s(stateId<TState>())`: the state is named by something other than its state identifier" % (
                                  site, what, b["name"]), {})


def check_facade(ctx, F):
    check_facade_typed(ctx, F)
    for cls in ("GuardControlT", "R_", "ControlT", "ConstControlT"):
        for fid, b in insts(F, cls, set(FACADE) | {"isScheduled"}):
            ps = b.get("params", [])
            if len(ps) != 1 or "ty" not in ps[0]:
                continue  # the <TState>() overloads forward to these
            site = "%s::%s" % (cls, b["name"])
            rets = [x for x in walk(b["body"]) if x.get("k") == "ret" and x.get("e") is not None]
            t = _expr_txt(rets[0]["e"]).replace("this.", "") if len(rets) == 1 else None
            want = "_core.registry.%s(%s)" % (b["name"], ps[0]["n"])
            alt = "isResumable(%s)" % ps[0]["n"] if b["name"] == "isScheduled" else None
            ctx.instance("C13.facade", site, {"function": site, "loc": F.floc(fid), "returns": t})
            if t != want and t != alt:
                ctx.violation("C13.facade", site, "%s (%s)" % (site, F.floc(fid)), "%s returns `%s`, expected `%s`" % (site, t, want), {})
