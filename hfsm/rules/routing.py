"""Routing / resolution tables of C_ (shared by C01, C02, C12): for every resolution function of a composite region,
 * which SubStates member it must descend into, and which prong it must hand down,
 * where the value it stores into compoRequested must come from.
Every row restates a sentence of the properties ("restart: the first; resume: the last active one, else the first; select: the
index returned by its select(); utilize: the highest utility; randomize: a weighted draw; change: whichever the region was
declared with") and was confirmed by reading composite.inl."""
from ..ir import AnalysisBroken, walk, strip
from ..origin import Origins
from .common import insts, paths_of, is_regfield

# resolver -> (required SubStates callees in order, index of the callee that takes the chosen prong or None)
DESCEND = {
    "deepRequestChangeComposite": (["wideRequestChangeComposite"], None),
    "deepRequestChangeResumable": (["wideRequestChangeResumable"], 0),
    "deepRequestChangeSelectable": (["wideRequestChangeSelectable"], 0),
    "deepRequestChangeUtilitarian": (["wideReportChangeUtilitarian"], None),
    "deepRequestChangeRandom": (["wideReportRank", "wideReportChangeRandom"], None),
    "deepRequestRestart": (["wideRequestRestart"], None),
    "deepRequestResume": (["wideRequestResume"], 0),
    "deepRequestSelect": (["wideRequestSelect"], 0),
    "deepRequestUtilize": (["wideReportUtilize"], None),
    "deepRequestRandomize": (["wideReportRank", "wideReportRandomize"], None),
    "deepReportChangeComposite": (["wideReportChangeComposite"], None),
    "deepReportChangeResumable": (["wideReportChangeResumable"], 0),
    "deepReportChangeSelectable": (["wideReportChangeSelectable"], 0),
    "deepReportChangeUtilitarian": (["wideReportChangeUtilitarian"], None),
    "deepReportChangeRandom": (["wideReportRank", "wideReportChangeRandom"], None),
    "deepReportUtilize": (["wideReportUtilize"], None),
    "deepReportRandomize": (["wideReportRank", "wideReportRandomize"], None),
}

# resolver -> source kind of the value stored into compoRequested
SOURCE = {
    "deepRequestChangeComposite": "first", "deepRequestRestart": "first", "deepReportChangeComposite": "first",
    "deepRequestChangeResumable": "resumable", "deepRequestResume": "resumable", "deepReportChangeResumable": "resumable",
    "deepRequestChangeSelectable": "select", "deepRequestSelect": "select", "deepReportChangeSelectable": "select",
    "deepRequestChangeUtilitarian": "utility:wideReportChangeUtilitarian", "deepReportChangeUtilitarian": "utility:wideReportChangeUtilitarian",
    "deepRequestUtilize": "utility:wideReportUtilize", "deepReportUtilize": "utility:wideReportUtilize",
    "deepRequestChangeRandom": "random", "deepRequestRandomize": "random", "deepReportChangeRandom": "random", "deepReportRandomize": "random",
}

RESOLVERS = tuple(DESCEND)


def _ci(F, b):
    ci = F.const(b["tid"], "COMPO_INDEX")
    if ci is None:
        raise AnalysisBroken("COMPO_INDEX not evaluated")
    return ci


def requested_assignments(F, b):
    """assignment nodes whose target is the region's requested prong (local alias `requested` or the accessor call)."""
    out = []
    for x in walk(b["body"]):
        if x.get("k") == "asg" and x.get("op") == "=":
            l = strip(x["lhs"])
            if l.get("k") == "var" and l.get("d") == "local" and l.get("n") == "requested":
                out.append(x)
            elif l.get("k") == "call" and "f" in l and F.fn(l["f"])["name"] == "compoRequested":
                out.append(x)
    return out


def source_kind(F, atoms, ci):
    """classify the origin atoms of a value stored into compoRequested -> (kind string, problems)"""
    kinds = set()
    for a in atoms:
        k, d, via = a.kind, str(a.detail), a.via
        if k == "lit" and via is None:
            kinds.add("lit%s" % d)
        elif k == "guarded" and "compoResumable" in d:
            kinds.add("guarded-resumable")
        elif via is not None and via[1] == "wrapSelect":
            kinds.add("select")
        elif via is not None and via[1] == "resolveRandom":
            kinds.add("random")
        elif via is not None and via[0] == "CS_" and via[1].startswith("wideReport"):
            kinds.add("utility:" + via[1])
        elif via is not None and via[0] == "S_":
            kinds.add("head:" + via[1])
        elif k == "read":
            for f in ("compoResumable", "compoActive", "compoRequested"):
                if f in d:
                    kinds.add("raw-" + f)
                    break
            else:
                kinds.add("read:" + d)
        else:
            kinds.add("%s:%s" % (k, d))
    if kinds == {"lit0"}:
        return "first"
    if kinds == {"guarded-resumable", "lit0"}:
        return "resumable"
    if len(kinds) == 1:
        return next(iter(kinds))
    return "+".join(sorted(kinds))


def check_descend(ctx, F, rule):
    """every resolver descends into the matching SubStates member on every path; the prong handed down is the value just stored."""
    for fid, b in insts(F, "C_", set(RESOLVERS)):
        name = b["name"]
        ci = _ci(F, b)
        want, prong_idx = DESCEND[name]
        site = "C_::" + name
        bad = None
        for p in paths_of(ctx, F, fid):
            got = []
            for ev in p:
                if ev[0] == "call" and ev[2] is not None:
                    cf = F.fn(ev[2])
                    if cf.get("cls") == "CS_" and (cf["name"].startswith("wideRequest") or cf["name"].startswith("wideReport")):
                        got.append((cf["name"], ev[4]))
            names = [g[0] for g in got]
            if names != want:
                bad = "descends through %s, expected %s" % (names or "nothing", want)
            elif prong_idx is not None:
                args = got[prong_idx][1]
                if not args or not is_regfield(args[-1], "compoRequested", ci):
                    bad = "hands `%s` down to %s, expected the prong just stored in compoRequested[COMPO_INDEX]" % (
                        args[-1] if args else "?", want[prong_idx])
        ctx.instance(rule, site, {"function": site, "loc": F.floc(fid), "expected_descent": want})
        if bad:
            ctx.violation(rule, site, "%s (%s)" % (site, F.floc(fid)), "%s %s" % (site, bad), {"expected": want})


def sources(ctx, F):
    """-> {fid: (site, kind string, assignment count)} for every C_ resolver instantiation"""
    O = Origins(F)
    out = {}
    for fid, b in insts(F, "C_", set(RESOLVERS)):
        ci = _ci(F, b)
        asg = requested_assignments(F, b)
        atoms = set()
        for x in asg:
            atoms |= O.origin(fid, x["rhs"])
        out[fid] = ("C_::" + b["name"], source_kind(F, atoms, ci) if asg else "none", len(asg), atoms)
    return out
