"""C20 — the bundled generators are seed-determined, match xoshiro/splitmix, stay in [0,1).

Decided: every float / double handed out lies in [0,1) (known-bits argument over the bit pattern that is reinterpreted); the seeding
routine never hands out a zero word and fills all four state words through it; generators read and write nothing but their own
state; the state-update and output maps of splitmix64/32, xoshiro256+/128+, xoshiro256**/128** and their jump() are *the* published
maps: the HFSM2 functions and the vendored reference sources (/verif/ref/ref_rng.cpp, parsed by the same extractor) are symbolically
evaluated to canonical terms over the input state (xor / shift / rotate exact, + and * commutative uninterpreted) and compared.
"""
import re

from ..engine import site_str
from ..ir import AnalysisBroken, walk, strip, is_noop
from .C12 import _expr_txt, _FN

TEXT = {
    "C20.unit-interval": "uniform(uint32) = reinterpret<float>((0x7F << 23) | (u >> 9)) - 1.0f and uniform(uint64) = reinterpret<double>((0x3FF << 52) | (u >> 12)) - 1.0: "
                         "sign bit 0, exponent exactly the bias, mantissa = the top bits of u => value in [1,2), minus 1 exact => [0,1); every float/double "
                         "returning generator member returns uniform(...) of its own integer output",
    "C20.nonzero-seed": "SimpleRandomT::uint64 / uint32 return only a value that was tested non-zero; BaseRandomT fills all four state words through them",
    "C20.pure": "generator members write only their own _state (and locals), call only their own members and the arithmetic helpers; no statics",
    "C20.sequenced": "no expression of a generator member has two operands that both advance the generator unless the language orders them (&&, ||, comma, "
                     "braced initialiser, separate statements): the order in which function arguments and operator operands are evaluated is unspecified, "
                     "so the output would depend on the compiler and not only on the seed",
    "C20.reference": "next-state and output terms of raw64/raw32, FloatRandomT/IntRandomT::uint64/uint32 equal the reference terms of splitmix64/32, "
                     "xoshiro256+/128+/256**/128**; jump(): JUMP tables, loop bounds and loop body equal the reference's",
}
MIN_INSTANCES = {"C20.unit-interval": 2, "C20.nonzero-seed": 4, "C20.pure": 10, "C20.sequenced": 10, "C20.reference": 10}


def declare(ctx):
    for r, t in TEXT.items():
        ctx.rule(r, t)


def check(ctx, F):
    _FN["F"] = F
    if F.unit and F.unit.name == "refrng":
        ctx.shared["C20.ref"] = collect(F, reference=True)
        return
    ctx.shared["C20.lib"] = collect(F, reference=False)
    check_unit_interval(ctx, F)
    check_seed(ctx, F)
    check_pure(ctx, F)
    check_sequenced(ctx, F)


# ------------------------------------------------------------------------------------------------ symbolic terms


class Sx:
    """symbolic evaluation of straight-line generator code to canonical terms; W = word width"""

    def __init__(self, F, W, state_names):
        self.F = F
        self.W = W
        self.mask = (1 << W) - 1
        self.state_names = state_names
        self.state = {}
        self.env = {}
        self.ret = None

    def st(self, i):
        return self.state.get(i, ("s", i))

    def const(self, v):
        return ("c", v & self.mask)

    def norm(self, op, a, b):
        if a[0] == "c" and b[0] == "c":
            v = {"xor": a[1] ^ b[1], "add": a[1] + b[1], "mul": a[1] * b[1], "or": a[1] | b[1], "and": a[1] & b[1]}[op]
            return self.const(v)
        x, y = sorted((a, b), key=repr)
        return (op, x, y)

    def shift(self, op, a, k):
        if k[0] != "c":
            raise AnalysisBroken("non-constant shift in generator code")
        if a[0] == "c":
            return self.const(a[1] << k[1] if op == "shl" else a[1] >> k[1])
        return (op, a, k[1])

    def place(self, e):
        e = strip(e)
        if e.get("k") == "idx":
            b = strip(e["b"])
            i = strip(e["i"])
            bn = b.get("n")
            if bn in self.state_names and ("cv" in i or i.get("k") == "lit"):
                return ("state", i.get("cv", i.get("v")))
        if e.get("k") == "mem" and e.get("n") in self.state_names:
            return ("state", 0)
        if e.get("k") == "var" and e.get("d") in ("local", "param"):
            return ("local", e["n"])
        return None

    def load(self, pl):
        if pl[0] == "state":
            return self.st(pl[1])
        if pl[1] not in self.env:
            raise AnalysisBroken("read of unknown local %s" % pl[1])
        return self.env[pl[1]]

    def store(self, pl, v):
        if pl[0] == "state":
            self.state[pl[1]] = v
        else:
            self.env[pl[1]] = v

    def ev(self, e):
        e = strip(e)
        k = e.get("k")
        if k == "lit":
            return self.const(int(e["v"]))
        if "cv" in e and k not in ("asg", "call"):
            return self.const(int(e["cv"]))
        pl = self.place(e)
        if pl is not None and k != "asg":
            return self.load(pl)
        if k == "bin":
            op = e["op"]
            a = self.ev(e["lhs"])
            b = self.ev(e["rhs"])
            if op in ("<<", ">>"):
                return self.shift("shl" if op == "<<" else "shr", a, b)
            if op == "-" and a[0] == "c" and b[0] == "c":
                return ("c", a[1] - b[1])      # rotation complement (W - k): plain integers, not wrapped
            m = {"^": "xor", "+": "add", "*": "mul", "|": "or", "&": "and"}.get(op)
            if m is None:
                raise AnalysisBroken("operator %s in generator code" % op)
            return self.norm(m, a, b)
        if k == "asg":
            pl = self.place(e["lhs"])
            if pl is None:
                raise AnalysisBroken("assignment to `%s` in generator code" % _expr_txt(e["lhs"]))
            v = self.ev(e["rhs"])
            if e["op"] != "=":
                cur = self.load(pl)
                op = e["op"][:-1]
                if op in ("<<", ">>"):
                    v = self.shift("shl" if op == "<<" else "shr", cur, v)
                else:
                    v = self.norm({"^": "xor", "+": "add", "*": "mul", "|": "or", "&": "and"}[op], cur, v)
            self.store(pl, v)
            return v
        if k == "call" and "f" in e:
            fn = self.F.fn(e["f"])
            b = self.F.body(e["f"])
            if fn["name"].startswith("rotl") and b is not None:
                args = [self.ev(a) for a in e.get("a", [])]
                sub = Sx(self.F, self.W, ())
                for p, a in zip(b.get("params", []), args):
                    sub.env[p["n"]] = a
                sub.run(b["body"])
                return sub.ret
            raise AnalysisBroken("call to %s in generator code" % fn["name"])
        if k == "ctor" and len(e.get("a", [])) == 1:
            return self.ev(e["a"][0])
        raise AnalysisBroken("expression kind %s in generator code" % k)

    def run(self, body):
        for s in body.get("s", []) if body.get("k") == "seq" else [body]:
            if is_noop(s):
                continue
            k = s.get("k")
            if k == "decl":
                for v in s["vars"]:
                    self.env[v["n"]] = self.ev(v["init"]) if v.get("init") is not None else self.const(0)
            elif k == "ret":
                self.ret = self.ev(s["e"]) if s.get("e") is not None else None
            elif k in ("asg", "call", "bin"):
                self.ev(s)
            else:
                raise AnalysisBroken("statement kind %s in generator code" % k)


def rot_normal(t, W):
    """or(shl(x,k), shr(x,W-k)) -> rotl(x,k)"""
    if not isinstance(t, tuple):
        return t
    t = tuple(rot_normal(x, W) if isinstance(x, tuple) else x for x in t)
    if t[0] == "or":
        a, b = t[1], t[2]
        for p, q in ((a, b), (b, a)):
            if p[0] == "shl" and q[0] == "shr" and p[1] == q[1] and p[2] + q[2] == W:
                return ("rotl", p[1], p[2])
    return t


def summarise(F, fid, W, state_names):
    b = F.body(fid)
    sx = Sx(F, W, state_names)
    sx.run(b["body"])
    return {"ret": rot_normal(sx.ret, W), "state": {i: rot_normal(v, W) for i, v in sorted(sx.state.items())}}


def jump_summary(F, fid, next_name, state_names):
    b = F.body(fid)
    table = None
    for x in walk(b["body"]):
        if x.get("k") == "decl":
            for v in x["vars"]:
                if v["n"] == "JUMP":
                    init = strip(v.get("init") or {})
                    table = [strip(a).get("cv", strip(a).get("v")) for a in init.get("a", [])]
    loops = [x for x in walk(b["body"]) if x.get("k") == "for"]
    bounds = []
    for l in loops:
        c = strip(l.get("c") or {})
        r = strip(c.get("rhs") or {})
        bounds.append(r.get("cv", r.get("v")) if ("cv" in r or r.get("k") == "lit") else _expr_txt(r))
    stm = []
    for x in walk(b["body"]):
        if x.get("k") == "asg":
            t = _expr_txt(x)
        elif x.get("k") == "if":
            from ..ir import truthy
            t = "if " + _expr_txt(truthy(x["c"]))
        elif x.get("k") == "call" and "f" in x and F.fn(x["f"])["name"] == next_name:
            t = "next()"
        else:
            continue
        for n in state_names:
            t = re.sub(r"\b(this\.)?%s\b" % n, "S", t)
        t = re.sub(r"UINT(64|32)_C\(1\)", "1", t)
        stm.append(t.replace("this.", ""))
    return {"table": table, "bounds": bounds, "body": stm}


LIB = {  # (class, width arg) -> list of (function, reference struct, reference function)
    ("SimpleRandomT", 8): [("raw64", "splitmix64", "next")],
    ("SimpleRandomT", 4): [("raw32", "splitmix32", "next")],
    ("FloatRandomT", 8): [("uint64", "xoshiro256plus", "next"), ("jump", "xoshiro256plus", "jump")],
    ("FloatRandomT", 4): [("uint32", "xoshiro128plus", "next"), ("jump", "xoshiro128plus", "jump")],
    ("IntRandomT", 8): [("uint64", "xoshiro256starstar", "next"), ("jump", "xoshiro256starstar", "jump")],
    ("IntRandomT", 4): [("uint32", "xoshiro128starstar", "next"), ("jump", "xoshiro128starstar", "jump")],
}


def collect(F, reference):
    out = {}
    if reference:
        for fid, b in F.bodies.items():
            cls = b.get("cls")
            if cls and b["name"] in ("next", "jump"):
                W = 64 if "64" in cls or "256" in cls else 32
                names = ("x",) if cls.startswith("splitmix") else ("s",)
                out[(cls, b["name"])] = (jump_summary(F, fid, "next", names) if b["name"] == "jump" else summarise(F, fid, W, names), F.floc(fid), fid)
        return out
    for fid, b in F.bodies.items():
        cls = b.get("cls")
        t = F.type(b.get("tid"))
        if cls in ("SimpleRandomT", "FloatRandomT", "IntRandomT") and t and t.get("args"):
            wa = t["args"][0].get("v")
            for fn, rcls, rfn in LIB.get((cls, wa), []):
                if b["name"] == fn:
                    W = 64 if wa == 8 else 32
                    if fn == "jump":
                        out[(cls, wa, fn)] = (jump_summary(F, fid, "uint64" if wa == 8 else "uint32", ("_state",)), F.floc(fid), fid)
                    else:
                        out[(cls, wa, fn)] = (summarise(F, fid, W, ("_state",)), F.floc(fid), fid)
    return out


def final(ctx):
    lib = ctx.shared.get("C20.lib")
    ref = ctx.shared.get("C20.ref")
    if lib is None or ref is None:
        raise AnalysisBroken("C20.reference needs both the library unit and the reference unit")
    for (cls, wa), fns in LIB.items():
        for fn, rcls, rfn in fns:
            site = "%s<%d>::%s ~ %s::%s" % (cls, wa, fn, rcls, rfn)
            if (cls, wa, fn) not in lib:
                raise AnalysisBroken("library function %s<%d>::%s not found" % (cls, wa, fn))
            if (rcls, rfn) not in ref:
                raise AnalysisBroken("reference function %s::%s not found" % (rcls, rfn))
            a, la, _ = lib[(cls, wa, fn)]
            r, lr, _ = ref[(rcls, rfn)]
            ctx.instance("C20.reference", site, {"pair": site, "loc": [la, lr], "library": _short(a), "reference": _short(r)})
            if a != r:
                diff = []
                if fn == "jump":
                    for k in ("table", "bounds", "body"):
                        if a[k] != r[k]:
                            diff.append("%s: library %s, reference %s" % (k, _hex(a[k]), _hex(r[k])))
                else:
                    if a["ret"] != r["ret"]:
                        diff.append("output term: library %s, reference %s" % (a["ret"], r["ret"]))
                    for i in sorted(set(a["state"]) | set(r["state"])):
                        if a["state"].get(i) != r["state"].get(i):
                            diff.append("state word %s: library %s, reference %s" % (i, a["state"].get(i), r["state"].get(i)))
                ctx.violation("C20.reference", site, "%s (%s | %s)" % (site, la, lr), "%s differs from the published algorithm: %s" % (site, "; ".join(diff)[:700]), {})


def _hex(v):
    if isinstance(v, list) and v and all(isinstance(x, int) for x in v):
        return [hex(x) for x in v]
    return v


def _short(s):
    return {k: (str(v)[:200]) for k, v in s.items()}


# ------------------------------------------------------------------------------------------------ other rules


def check_unit_interval(ctx, F):
    for fid, b in F.bodies.items():
        if b.get("cls") or b["name"] != "uniform" or not b["inst"]:
            continue
        pty = b["params"][0].get("ty")
        W = {"unsigned int": 32, "unsigned long": 64}.get(pty)
        site = "uniform(uint%s_t)" % W
        rets = [x for x in walk(b["body"]) if x.get("k") == "ret"]
        bad = None
        if len(rets) != 1:
            bad = "more than one return"
        else:
            from ..ir import const_local_defs, subst_locals
            e = strip(subst_locals(rets[0]["e"], const_local_defs(b["body"])))      # `const uint32_t bits = ...; return reinterpret<float>(bits) - 1.0f;`
            ok = False
            if e.get("k") == "bin" and e["op"] == "-":
                one = strip(e["rhs"])
                call = strip(e["lhs"])
                if one.get("k") == "lit" and float(one.get("v")) == 1.0 and call.get("k") == "call" and F.fn(call["f"])["name"] == "reinterpret":
                    fta = F.fn(call["f"]).get("ftargs") or []
                    tgt = fta[0] if fta else None
                    arg = strip(call["a"][0])
                    exp_bits, mant = (8, 23) if W == 32 else (11, 52)
                    bias = (1 << (exp_bits - 1)) - 1
                    want_c = bias << mant
                    if arg.get("k") == "bin" and arg["op"] == "|":
                        l, r = strip(arg["lhs"]), strip(arg["rhs"])
                        for c, sh in ((l, r), (r, l)):
                            cv = c.get("cv", c.get("v") if c.get("k") == "lit" else None)
                            if cv == want_c and sh.get("k") == "bin" and sh["op"] == ">>":
                                k = strip(sh["rhs"])
                                kv = k.get("cv", k.get("v"))
                                src = strip(sh["lhs"])
                                # known bits: (u >> k) has its top k bits zero; with k == W - mant the mantissa field is exactly filled and the
                                # exponent / sign fields come from the constant alone
                                if src.get("k") == "var" and src.get("d") == "param" and kv == W - mant:
                                    want_t = "float" if W == 32 else "double"
                                    if tgt == want_t:
                                        ok = True
                                    else:
                                        bad = "bit pattern is reinterpreted as %s, expected %s" % (tgt, want_t)
                                else:
                                    bad = "mantissa is `%s >> %s`, expected the parameter >> %d" % (_expr_txt(src), kv, W - mant)
                            elif cv is not None and cv != want_c and sh.get("k") == "bin":
                                bad = "exponent constant is %#x, expected %#x (sign 0, exponent = bias)" % (cv, want_c)
            # second sound idiom: (u >> k) * 2^-(W-k) with W-k <= mantissa+1 bits (exact conversion, exact scaling): value in [0, 1 - 2^-(W-k)]
            if not ok and e.get("k") == "bin" and e["op"] == "*":
                exp_bits, mant = (8, 23) if W == 32 else (11, 52)
                for c, sh in ((strip(e["lhs"]), strip(e["rhs"])), (strip(e["rhs"]), strip(e["lhs"]))):
                    while sh.get("k") == "ctor" and len(sh.get("a", [])) == 1:
                        sh = strip(sh["a"][0])
                    if c.get("k") == "lit" and isinstance(c.get("v"), float) and sh.get("k") == "bin" and sh["op"] == ">>":
                        kv = strip(sh["rhs"]).get("cv", strip(sh["rhs"]).get("v"))
                        if isinstance(kv, int) and 0 < W - kv <= mant + 1 and c["v"] == 2.0 ** -(W - kv) and strip(sh["lhs"]).get("d") == "param":
                            ok = True
                            bad = None
            if not ok:
                bad = bad or "uniform is not `reinterpret<%s>((bias << mantissa) | (u >> k)) - 1`: the result is not provably in [0,1) (`%s`)" % (
                    "float" if W == 32 else "double", _expr_txt(e)[:120])
        ctx.instance("C20.unit-interval", site, {"function": site, "loc": F.floc(fid)})
        if bad:
            ctx.violation("C20.unit-interval", site, "%s (%s)" % (site, F.floc(fid)), bad, {})
    for fid, b in F.bodies.items():
        if b.get("cls") in ("FloatRandomT", "IntRandomT") and b["name"] in ("float32", "float64", "next") and b["inst"]:
            t = F.type(b["tid"])
            site = "%s<%s>::%s" % (b["cls"], t["args"][0].get("v"), b["name"])
            rets = [_expr_txt(x["e"]) for x in walk(b["body"]) if x.get("k") == "ret" and x.get("e") is not None]
            want = {"float32": ["uniform(uint32())"], "float64": ["uniform(uint64())"], "next": ["float32()"]}[b["name"]]
            ctx.instance("C20.unit-interval", site, {"function": site, "loc": F.floc(fid), "returns": rets})
            if rets != want:
                ctx.violation("C20.unit-interval", site, "%s (%s)" % (site, F.floc(fid)), "%s returns %s, expected %s" % (site, rets, want), {})


def check_seed(ctx, F):
    for fid, b in F.bodies.items():
        if b.get("cls") == "SimpleRandomT" and b["name"] in ("uint64", "uint32") and b["inst"]:
            t = F.type(b["tid"])
            site = "SimpleRandomT<%s>::%s" % (t["args"][0].get("v"), b["name"])
            raw = "raw64" if b["name"] == "uint64" else "raw32"
            bad = None
            rets = [x for x in walk(b["body"]) if x.get("k") == "ret"]
            ifs = [x for x in walk(b["body"]) if x.get("k") == "if"]
            okc = False
            for i in ifs:
                cv = i.get("cvar")
                if cv and _expr_txt(cv.get("init") or {}) == raw + "()":
                    inner = [y for y in walk(i["t"]) if y.get("k") == "ret"]
                    if inner and all(_expr_txt(y["e"]) == cv["n"] for y in inner) and len(inner) == len(rets):
                        okc = True
            if not okc:
                bad = "a return is not dominated by a test that the returned %s() value is non-zero" % raw
            ctx.instance("C20.nonzero-seed", site, {"function": site, "loc": F.floc(fid)})
            if bad:
                ctx.violation("C20.nonzero-seed", site, "%s (%s)" % (site, F.floc(fid)), bad, {})
        if b.get("cls") == "BaseRandomT" and b["inst"] and b.get("params") and "SimpleRandom" in b["params"][0]["t"] and b["name"] in ("BaseRandomT", "seed"):
            t = F.type(b["tid"])
            wa = t["args"][0].get("v")
            site = "BaseRandomT<%s>::%s(SimpleRandom&&)" % (wa, b["name"])
            want = "simple.uint64()" if wa == 8 else "simple.uint32()"
            vals = []
            for init in b.get("inits") or []:
                if init.get("member") == "_state":
                    vals += [_expr_txt(a) for a in strip(init.get("init") or {}).get("a", [])]
            for x in walk(b.get("body") or {}):
                if x.get("k") == "asg" and "_state[" in _expr_txt(x["lhs"]):
                    vals.append(_expr_txt(x["rhs"]))
            ctx.instance("C20.nonzero-seed", site, {"function": site, "loc": F.floc(fid), "words": vals})
            if vals != [want] * 4:
                ctx.violation("C20.nonzero-seed", site, "%s (%s)" % (site, F.floc(fid)),
                              "%s fills the state with %s, expected four %s (the zero-rejecting draw)" % (site, vals, want), {})


GENERATORS = ("SimpleRandomT", "BaseRandomT", "FloatRandomT", "IntRandomT")


def _advancing(F):
    """generator members that change the generator's state: write _state, or call one that does (fixpoint over resolved callees)"""
    gens = {fid: b for fid, b in F.bodies.items() if b.get("cls") in GENERATORS}
    adv = set()
    for fid, b in gens.items():
        for x in walk(b.get("body") or {}):
            k = x.get("k")
            if k == "asg" or (k == "un" and x.get("op") in ("++", "--")):
                root = strip(x["lhs"] if k == "asg" else x["e"])
                while root.get("k") == "idx":
                    root = strip(root.get("b") or {})
                if root.get("k") == "mem" and root.get("n") == "_state":
                    adv.add(fid)
    changed = True
    while changed:
        changed = False
        for fid, b in gens.items():
            if fid in adv:
                continue
            if any(x.get("k") == "call" and x.get("f") in adv for x in walk(b.get("body") or {})):
                adv.add(fid)
                changed = True
    return adv


def check_sequenced(ctx, F):
    adv = _advancing(F)

    def advances(e):
        return [F.fn(x["f"])["name"] for x in walk(e or {}) if x.get("k") in ("call", "ctor") and x.get("f") in adv]

    for fid, b in F.bodies.items():
        if b.get("cls") not in GENERATORS or not b["inst"]:
            continue
        t = F.type(b["tid"])
        site = "%s<%s>::%s/%d" % (b["cls"], t["args"][0].get("v") if t.get("args") else "", b["name"], len(b.get("params", [])))
        bad = None
        for x in walk(b.get("body") or {}):
            k = x.get("k")
            ops = None
            if k == "call":
                ops = [o for o in [x.get("obj")] + list(x.get("a", [])) if o is not None]
                what = "arguments of the call to %s" % (F.fn(x["f"])["name"] if "f" in x else "?")
            elif k == "bin" and x.get("op") not in ("&&", "||", ","):
                ops = [x.get("lhs"), x.get("rhs")]
                what = "operands of `%s`" % x.get("op")
            elif k == "asg":
                ops = [x.get("lhs"), x.get("rhs")]
                what = "sides of the assignment"
            if not ops:
                continue
            hit = [a for a in (advances(o) for o in ops) if a]
            if len(hit) >= 2:
                bad = "%s: %s" % (what, " / ".join("+".join(h) + "()" for h in hit))
        ctx.instance("C20.sequenced", site, {"function": site, "loc": F.floc(fid), "state_advancing_members": len(adv)})
        if bad:
            ctx.violation("C20.sequenced", site, "%s (%s)" % (site, F.floc(fid)),
                          "%s: two %s advance the generator and their order of evaluation is unspecified (g++: right to left, clang++: left to right): "
                          "the output depends on the compiler, not only on the seed" % (site, bad), {})


ALLOWED_CALLEES = {"uniform", "reinterpret", "rotl", "widen", "count", "overwriteWith", "uint64", "uint32", "raw64", "raw32", "float32", "float64", "next", "seed",
                   "BaseRandomT", "SimpleRandomT", "memcpy", "__builtin_memcpy", "move"}


def check_pure(ctx, F):
    for fid, b in F.bodies.items():
        if b.get("cls") not in ("SimpleRandomT", "BaseRandomT", "FloatRandomT", "IntRandomT") or not b["inst"]:
            continue
        t = F.type(b["tid"])
        site = "%s<%s>::%s/%d" % (b["cls"], t["args"][0].get("v") if t.get("args") else "", b["name"], len(b.get("params", [])))
        bad = None
        for x in walk(b.get("body") or {}):
            k = x.get("k")
            if k == "asg" or (k == "un" and x.get("op") in ("++", "--")):
                tgt = strip(x["lhs"] if k == "asg" else x["e"])
                root = tgt
                while root.get("k") in ("idx", "mem") and root.get("k") != "var":
                    if root.get("k") == "mem" and strip(root.get("b") or {}).get("k") == "this":
                        break
                    root = strip(root.get("b") or {})
                if root.get("k") == "mem":
                    if root.get("n") != "_state":
                        bad = "writes member %s" % root.get("n")
                elif root.get("k") == "var":
                    if root.get("d") not in ("local", "param"):
                        bad = "writes non-local `%s`" % root.get("n")
                else:
                    bad = "writes `%s`" % _expr_txt(tgt)
            if k == "decl":
                for v in x["vars"]:
                    if v.get("static") and not v.get("constexpr") and not v.get("const"):
                        bad = "static local %s" % v["n"]
            if k == "var" and x.get("d") == "global" and "cv" not in x:
                bad = "reads global `%s`" % x.get("n")
            if k == "call" and "f" in x and F.fn(x["f"])["name"] not in ALLOWED_CALLEES:
                bad = "calls %s" % F.fn(x["f"])["name"]
        ctx.instance("C20.pure", site, {"function": site, "loc": F.floc(fid)})
        if bad:
            ctx.violation("C20.pure", site, "%s (%s)" % (site, F.floc(fid)), "%s %s: the generator is not a pure function of its state" % (site, bad), {})
