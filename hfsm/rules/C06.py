"""C06 — plans run tasks in order and report success or failure to the region head.

Decided: a task's kind, destination and payload reach the request it issues; the guards on execution (origin active, origin
succeeded, stop at first inactive origin); removal after execution; requests issued as the region head; success / failure routing;
status accumulation goes to the right accumulator; marks are cleared at the end of the step and on exit; defaults propagate
outwards; payload and void copies agree.
Not decided: the step-level accumulation of head/sub statuses across nested and orthogonal regions as values.
"""
import re

from ..engine import site_str
from ..ir import AnalysisBroken, walk, strip, sym_paths
from .common import insts, paths_of
from .C12 import _expr_txt, _FN
from . import C03 as C03x

TEXT = {
    "C06.task-fields": "every field PlanT::append stores in a task (origin, destination, type, payload) is read by FullControlT::updatePlan, and the request it "
                       "issues is of the task's kind (it->type), to it->destination, with *it->payload() when set",
    "C06.exec-guards": "updatePlan: the loop runs `it && isActive(it->origin)`; a request is issued only under tasksSuccesses.get(it->origin), with an Origin "
                       "scope naming the region head constructed before it; it.remove() follows in the same block; consumed success marks are cleared",
    "C06.routing": "updatePlan: FAILURE -> wrapPlanFailed once; SUCCESS with tasks -> loop, returns NONE; SUCCESS without -> wrapPlanSucceeded once; "
                   "C_/O_::deepUpdatePlans: h set -> h; s.outerTransition -> {NONE, true}; else s && planExists ? updatePlan(head, s) : s, with "
                   "h = headStatus | HeadState::deepUpdatePlans and s = subStatus | SubStates::wideUpdatePlans",
    "C06.status-accumulators": "in C_/O_ update members and the reaction wrappers the head call's status is or-ed into headStatus and the sub-states' into "
                               "subStatus (never crossed)",
    "C06.own-status": "the status a state's update / reaction member hands to its region is the status of its own callbacks: S_<headed>::deepPreUpdate ... "
                      "deepPostReact return control._taskStatus, one value shared by everything that runs inside a region scope (cleared only when the scope "
                      "is left), so on every path it is cleared before the state's callbacks run and not after them - otherwise what a leaf sub-state "
                      "reported is read again as the status of the head that runs after it (postUpdate, postReact, bottom-up react) or of an orthogonal sibling",
    "C06.fresh-read": "a scalar copied out of the plan data (planExists, task bounds, success / failure marks, region statuses) into a local is not used after a "
                      "call that may change that very field - a library function whose transitive effects write it, or anything that reaches a user callback "
                      "holding a Plan/Full/EventControl (which may attach, edit or clear plans and report success or failure): the copy would be stale",
    "C06.scope": "the scope objects that re-target a control for the duration of a region / state (ControlT::Region, ControlT::Origin, PlanControlT::Region) save, "
                 "in every member named prev*, the control's *current* value of the field they are about to overwrite (an initialiser reading control.<field>, each "
                 "field once), and their destructor hands exactly those members back: otherwise the enclosing scope continues with the nested scope's region id / "
                 "head / size and in-region requests are taken for outer transitions (the plan is not advanced)",
    "C06.outer-test": "every request function of FullControlBaseT / FullControlT (changeTo ... schedule, with and without payload) raises "
                      "_taskStatus.outerTransition under a condition that is, as a set of linear integer inequalities, exactly the complement of the open "
                      "region's half-open id interval: stateId < _regionStateId  or  _regionStateId + _regionSize <= stateId (any spelling: >, >=, !, operand "
                      "order); a wider interval lets a transition out of the region pass for an in-region one and the plan is advanced on top of it, a narrower "
                      "one suppresses the plan for an in-region request",
    "C06.marks": "S_::deepExit calls planData.clearTaskStatus(STATE_ID) after the user's exit; clearTaskStatus clears both the success and the failure bit of the "
                 "state; clearStatuses clears successes, failures, head and sub statuses; A_::planSucceeded/planFailed defaults call control.succeed()/fail(); "
                 "TaskStatus::Result is ordered NONE < SUCCESS < FAILURE and | / |= take the maximum",
    "C06.defaults": "an anonymous (head-less) region head behaves like a head state that overrides nothing: S_<empty>::wrapPlanSucceeded / wrapPlanFailed make "
                    "the control calls the A_ defaults planSucceeded() / planFailed() make (succeed() / fail(): the result is passed on to the enclosing "
                    "region), under an origin scope naming the region head",
    "C06.siblings": "the payload and void copies of updatePlan and of the PlanDataT members agree statement for statement modulo the payload arm",
}
MIN_INSTANCES = {"C06.defaults": 2, "C06.task-fields": 1, "C06.exec-guards": 1, "C06.routing": 3, "C06.status-accumulators": 8, "C06.own-status": 6, "C06.fresh-read": 2, "C06.scope": 3, "C06.marks": 5, "C06.siblings": 3, "C06.outer-test": 12}


def declare(ctx):
    for r, t in TEXT.items():
        ctx.rule(r, t)


def has_plans(F):
    return any(b["name"] == "updatePlan" for b in F.bodies.values())


def check(ctx, F):
    _FN["F"] = F
    if not has_plans(F):
        ctx.note("unit %s compiled without PLANS: nothing to evaluate" % F.label)
        return
    check_update_plan(ctx, F)
    check_routing(ctx, F)
    check_accumulators(ctx, F)
    check_own_status(ctx, F)
    check_scope(ctx, F)
    check_fresh_read(ctx, F)
    from . import C01
    C01.check_ortho_all(C03x._Alias(ctx, {"C01.ortho-all": "C06.routing"}), F, only=("wideUpdatePlans", "widePreUpdate", "wideUpdate", "widePostUpdate",
                                                                                   "widePreReact", "wideReact", "widePostReact"))
    check_marks(ctx, F)
    check_outer_test(ctx, F)
    check_siblings(ctx, F)
    check_defaults(ctx, F)
    # "in order ... no earlier task of that plan": the order is the plan's link list; its maintenance is shared with C07 (same rule instances)
    from . import C07, C03
    C07.check_link(C03._Alias(ctx, {"C07.link": "C06.exec-guards"}), F)
    # "... or, if the attached plan has no tasks left, the head receives planSucceeded": who may clear the plan-owner bit (shared instances of C07.writers)
    C07.check_writers(C03._Alias(ctx, {"C07.writers": "C06.routing"}), F)


def check_defaults(ctx, F):
    want = {}
    for fid, b in insts(F, "A_", {"planSucceeded", "planFailed"}):
        calls = sorted(set(F.fn(x["f"])["name"] for x in walk(b["body"]) if x.get("k") == "call" and "f" in x and (F.fn(x["f"]).get("cls") or "").startswith("FullControl")))
        want.setdefault(b["name"], calls)
    for fid, b in insts(F, "S_", {"wrapPlanSucceeded", "wrapPlanFailed"}, spec="empty"):
        site = "S_<empty>::" + b["name"]
        dflt = want.get("plan" + b["name"][8:])
        if dflt is None:
            continue
        calls = sorted(set(F.fn(x["f"])["name"] for x in walk(b["body"]) if x.get("k") == "call" and "f" in x and (F.fn(x["f"]).get("cls") or "").startswith("FullControl")))
        scoped = any(x.get("k") == "decl" and any("Origin" in (v.get("t") or "") or (F.type(v.get("tid")) or {}).get("name") == "Origin" for v in x["vars"]) for x in walk(b["body"]))
        ctx.instance("C06.defaults", site, {"function": site, "loc": F.floc(fid), "control_calls": calls, "default_of_a_head_that_overrides_nothing": dflt})
        if calls != dflt:
            ctx.violation("C06.defaults", site, "%s (%s)" % (site, F.floc(fid)),
                          "%s makes the control calls %s; the default %s() of a head that overrides nothing makes %s: a head-less region does not pass its "
                          "plan's result on to the enclosing region" % (site, calls, "plan" + b["name"][8:], dflt), {})
        elif dflt and not scoped:
            ctx.violation("C06.defaults", site + "/origin", "%s (%s)" % (site, F.floc(fid)), "%s reports the result without an origin scope naming the region head" % site, {})


def payload_flavour(F, b):
    t = F.type(b.get("tid"))
    return "void" if t and "partial" in t and F.spec(b.get("tid")).endswith(_second_partial(F, "FullControlT")) else "payload"


def _second_partial(F, tmpl):
    locs = sorted(set(int(t["partial"].rsplit(":", 2)[1]) for t in F.types if t.get("tmpl") == tmpl and "partial" in t))
    return str(locs[-1]) if locs else "?"


def flavour(F, b, tmpl):
    """'payload' | 'void' from the partial specialisation order (payload first, void second in the header)"""
    t = F.type(b.get("tid"))
    if not t or "partial" not in t:
        return "?"
    locs = sorted(set(int(x["partial"].rsplit(":", 2)[1]) for x in F.types if x.get("tmpl") == tmpl and "partial" in x))
    me = int(t["partial"].rsplit(":", 2)[1])
    if len(locs) == 1:
        # only one flavour in this unit: decide by the Payload template argument
        return "void" if "void" in F.tname(b["tid"], 2).rsplit(",", 1)[-1] else "payload"
    return "payload" if me == locs[0] else "void"


def _kinds_in(F, node):
    return set(x["n"] for x in walk(node) if x.get("k") == "var" and x.get("d") == "enum" and x.get("o") == "TransitionType")


def issued_kind(F, f):
    """the TransitionType a request function puts into the Transition it queues (its body names exactly one enumerator)"""
    b = F.body(f)
    ks = _kinds_in(F, b["body"]) if b else set()
    if len(ks) != 1:
        raise AnalysisBroken("%s names %s TransitionType enumerators, expected exactly one" % (F.fdisp(f), sorted(ks)))
    return next(iter(ks))


def stored_kinds(F):
    """kinds PlanT / PayloadPlanT can store: enumerators handed to append() by their members (instantiated or not)"""
    out = set()
    for b in F.bodies.values():
        if b.get("cls") in ("PlanT", "PayloadPlanT", "PlanBaseT") and b["name"] != "append":
            out |= _kinds_in(F, b["body"])
    return out


def check_kind_agreement(ctx, F, fid, site, loop, emits):
    """every request is issued under the `case` of a switch over it->type whose label is the kind the called request function queues,
    and every kind a plan can store has a case"""
    from ..ir import _flatten_switch
    covered = {}          # id(emit) -> labels
    handled = set()
    for sw in walk(loop["b"]):
        if sw.get("k") != "switch" or _expr_txt(sw.get("c") or {}) != "it->type":
            continue
        cur = []
        for labels, st in _flatten_switch(sw["b"]):
            for l in labels:
                if l != "default":
                    cur.extend(sorted(_kinds_in(F, l)))
            if st is None:
                continue
            if st.get("k") == "break":
                cur = []
                continue
            for x in walk(st):
                for e in emits:
                    if x is e:
                        covered[id(e)] = list(cur)
                        handled.update(cur)
    for e in emits:
        kind = issued_kind(F, e["f"])
        labels = covered.get(id(e))
        name = F.fn(e["f"])["name"]
        ctx.instance("C06.task-fields", "%s/kind/%s@%s" % (site, name, ",".join(labels or ["-"])), {"request": name, "queues": kind, "under_case": labels})
        if labels is not None and kind not in labels:
            ctx.violation("C06.task-fields", "%s/kind/%s" % (site, name), "%s (%s)" % (site, F.floc(fid)),
                          "a task of kind %s is executed by %s(), which queues a %s transition" % ("/".join(labels) or "<default>", name, kind), {})
    if covered:
        stored = stored_kinds(F)
        # kinds whose request function does not exist in this configuration cannot be stored either (UTILIZE / RANDOMIZE without utility theory)
        missing = sorted(k for k in stored - handled)
        if missing:
            ctx.violation("C06.task-fields", site + "/kind-missing", "%s (%s)" % (site, F.floc(fid)),
                          "plan members can store tasks of kind %s but updatePlan has no case for them" % missing, {})


def check_update_plan(ctx, F):
    for fid, b in insts(F, "FullControlT", {"updatePlan"}):
        fl = flavour(F, b, "FullControlT")
        site = "FullControlT<%s>::updatePlan" % fl
        body = b["body"]
        loops = [x for x in walk(body) if x.get("k") == "for"]
        bad_fields = None
        bad_guard = None
        if len(loops) != 1:
            raise AnalysisBroken("%s: expected one task loop, found %d" % (site, len(loops)))
        loop = loops[0]
        cond = _expr_txt(loop.get("c") or {})
        # fields of the task read through the iterator
        read = set()
        for x in walk(body):
            if x.get("k") == "mem" and x.get("n") in ("origin", "destination", "type") and _expr_txt(x).startswith("it->"):
                read.add(x["n"])
            if x.get("k") == "call" and "f" in x and F.fn(x["f"])["name"] == "payload" and F.fn(x["f"]).get("cls") == "TaskT":
                read.add("payload")
        want = {"origin", "destination", "type"} | ({"payload"} if fl == "payload" else set())
        ctx.instance("C06.task-fields", site, {"function": site, "loc": F.floc(fid), "task_fields_read": sorted(read), "stored_by_append": sorted(want)})
        emits = [x for x in walk(loop["b"]) if x.get("k") == "call" and "f" in x and F.fn(x["f"]).get("cls", "").startswith("FullControl")
                 and re.match(r"^(changeTo|changeWith|restart|resume|select|utilize|randomize|schedule)", F.fn(x["f"])["name"])]
        kinds = sorted(set(F.fn(x["f"])["name"] for x in emits))
        if "type" not in read:
            ctx.violation("C06.task-fields", site + "/type", "%s (%s)" % (site, F.floc(fid)),
                          "the task's kind (TaskBase::type, stored by append) is never read: every task is executed as %s whatever kind it was created with" % kinds,
                          {"read": sorted(read), "issues": kinds})
        for f in sorted(want - read - {"type"}):
            ctx.violation("C06.task-fields", site + "/" + f, "%s (%s)" % (site, F.floc(fid)), "task field `%s` is never read by updatePlan" % f, {})
        # locals bound once to an expression over the iterator (`const Payload* const payload = it->payload()`) stand for that expression
        local_init = {}
        for x in walk(body):
            vs = [x["cvar"]] if x.get("k") == "if" and x.get("cvar") else (x.get("vars", []) if x.get("k") == "decl" else [])
            for v in vs:
                if v.get("n") and v.get("init") is not None and v.get("const"):
                    local_init[v["n"]] = _expr_txt(v["init"])

        def resolve(txt):
            m = re.match(r"^(\*?)(\w+)$", txt or "")
            return m.group(1) + local_init[m.group(2)] if m and m.group(2) in local_init else txt
        for x in emits:
            args = [resolve(_expr_txt(a)) for a in x.get("a", [])]
            if not args or args[0] != "it->destination":
                ctx.violation("C06.task-fields", site + "/destination", "%s (%s)" % (site, F.floc(fid)),
                              "request is issued to `%s`, expected it->destination" % (args[0] if args else None), {})
            if F.fn(x["f"])["name"].endswith("With") and (len(args) < 2 or "payload()" not in args[1]):
                ctx.violation("C06.task-fields", site + "/payload", "%s (%s)" % (site, F.floc(fid)),
                              "payload passed is `%s`, expected *it->payload()" % (args[1] if len(args) > 1 else None), {})
        check_kind_agreement(ctx, F, fid, site, loop, emits)
        # guards
        ctx.instance("C06.exec-guards", site, {"function": site, "loc": F.floc(fid), "loop_condition": cond})
        if cond not in ("it&&isActive(it->origin)", "isActive(it->origin)&&it"):
                bad_guard = "task loop condition is `%s`, expected `it && isActive(it->origin)` (stop at the first inactive origin)" % cond
        ifs = [x for x in walk(loop["b"]) if x.get("k") == "if"]
        succ_if = None
        for x in ifs:
            t = _expr_txt(x["c"])
            if "tasksSuccesses" in t and "get(it->origin)" in t:
                succ_if = x
        if succ_if is None:
            bad_guard = bad_guard or "no `tasksSuccesses.get(it->origin)` guard around the execution"
        else:
            inner = list(walk(succ_if["t"]))
            for e in emits:
                if not any(y is e for y in inner):
                    bad_guard = bad_guard or "a request is issued outside the `tasksSuccesses.get(it->origin)` guard"
            order = []
            for s in (succ_if["t"].get("s", []) if succ_if["t"].get("k") == "seq" else [succ_if["t"]]):
                txt = []
                for y in walk(s):
                    if y.get("k") == "decl" and any(v["n"] == "origin" for v in y["vars"]):
                        v = [v for v in y["vars"] if v["n"] == "origin"][0]
                        a = [_expr_txt(z) for z in (strip(v.get("init") or {}).get("a", []))]
                        txt.append("origin-scope" if len(a) == 2 and a[1] == "STATE_ID" else "origin-scope?%s" % a)
                    if y.get("k") == "call" and "f" in y:
                        n = F.fn(y["f"])["name"]
                        if any(y is e for e in emits):
                            txt.append("emit")
                        elif n == "remove" and _expr_txt(y.get("obj") or {}) == "it":
                            txt.append("remove")
                        elif n == "clear" and "uccesses" in _expr_txt(y.get("obj") or {}):
                            txt.append("clear-mark")
                order += [t for t in txt]
            comp = [t for i, t in enumerate(order) if i == 0 or order[i - 1] != t]
            if comp not in (["origin-scope", "emit", "clear-mark", "remove"],):
                bad_guard = bad_guard or "execution block is %s, expected [origin-scope(STATE_ID), emit, clear-mark, remove]" % comp
        # tasksSuccesses &= successesToClear after the loop
        after = _expr_txt
        ands = [x for x in walk(body) if x.get("k") == "call" and x.get("op") == "&=" and "tasksSuccesses" in _expr_txt(x.get("obj") or {})]
        if not ands:
            bad_guard = bad_guard or "consumed success marks are not cleared after the loop (tasksSuccesses &= successesToClear)"
        if bad_guard:
            ctx.violation("C06.exec-guards", site, "%s (%s)" % (site, F.floc(fid)), bad_guard, {})


def check_routing(ctx, F):
    for fid, b in insts(F, "FullControlT", {"updatePlan"}):
        fl = flavour(F, b, "FullControlT")
        site = "FullControlT<%s>::updatePlan" % fl
        shapes = set()
        # the local holding the region's plan, whatever it is called: `if (Plan x = plan(_regionId))` or a declaration initialised by plan(...)
        plan_vars = set()
        for x in walk(b["body"]):
            vs = [x["cvar"]] if x.get("k") == "if" and x.get("cvar") else (x.get("vars", []) if x.get("k") == "decl" else [])
            for v in vs:
                if any(y.get("k") == "call" and "f" in y and F.fn(y["f"])["name"] == "plan" for y in walk(v.get("init") or {})):
                    plan_vars.add("L:" + v["n"])
        for p in sym_paths(F, fid, 1):
            ctx.paths += 1
            toks = []
            for ev in p:
                if ev[0] == "assume" and "P:subStatus.result" in ev[2]:
                    m = re.search(r"==#(\d+)", ev[2])
                    toks.append(("r%s" % m.group(1) if m else "r?") + ("+" if ev[3] else "-"))
                elif ev[0] == "assume" and (any(re.search(re.escape(v) + r"\b", ev[2]) for v in plan_vars) or "operator bool" in ev[2]) and "L:it" not in ev[2]:
                    toks.append("plan+" if ev[3] else "plan-")
                elif ev[0] == "call" and ev[2] is not None:
                    n = F.fn(ev[2])["name"]
                    if n in ("wrapPlanFailed", "wrapPlanSucceeded", "clearTasks"):
                        toks.append(n)
                elif ev[0] == "write" and (ev[2] or "").endswith("._taskStatus.result"):
                    # what is in the status when the head's callback starts: NONE (#0), so that the result handed on is the callback's own doing
                    toks.append("st:=" + (ev[3] or "?"))
                elif ev[0] == "ret":
                    r = re.sub(r"\s", "", ev[2] or "")
                    r = r.replace(",#False}", "}").replace("TaskStatus{#0}", "TaskStatus{}")
                    toks.append("ret:" + r)
            shapes.add(" ".join(toks))
        ok = True
        # FAILURE = 2, SUCCESS = 1 (checked under C06.marks)
        for s in shapes:
            if s.startswith("r2+"):
                if s != "r2+ st:=#0 wrapPlanFailed ret:TaskStatus{this._taskStatus.result}":
                    ok = False
            elif s.startswith("r2- r1+ plan+"):
                if not s.endswith("ret:TaskStatus{}") or "wrapPlan" in s:
                    ok = False
            elif s.startswith("r2- r1+ plan-"):
                if s not in ("r2- r1+ plan- st:=#0 clearTasks wrapPlanSucceeded ret:TaskStatus{this._taskStatus.result}",
                             "r2- r1+ plan- clearTasks st:=#0 wrapPlanSucceeded ret:TaskStatus{this._taskStatus.result}"):
                    ok = False
            elif s.startswith("r2- r1-"):
                if s != "r2- r1- ret:TaskStatus{}":
                    ok = False
            else:
                ok = False
        ctx.instance("C06.routing", site, {"function": site, "loc": F.floc(fid), "path_shapes": sorted(shapes)[:6]})
        if not ok:
            ctx.violation("C06.routing", site, "%s (%s)" % (site, F.floc(fid)),
                          "updatePlan routing differs from FAILURE->planFailed | SUCCESS&tasks->execute | SUCCESS&empty->planSucceeded, each callback "
                          "started on a status of NONE (st:=#0) so that the result passed on is what the callback leaves - an overriding planFailed() that "
                          "does not call fail() ends the matter: %s" % sorted(shapes)[:6], {})
    for cls in ("C_", "O_"):
        for fid, b in insts(F, cls, {"deepUpdatePlans"}):
            site = "%s::deepUpdatePlans" % cls
            defs = {}
            for x in walk(b["body"]):
                if x.get("k") == "decl":
                    for v in x["vars"]:
                        defs[v["n"]] = _expr_txt(strip(v.get("init") or {}))
            h = defs.get("h", "")
            s = defs.get("s", "")
            okh = h in ("headStatus(control)|deepUpdatePlans(control)", "deepUpdatePlans(control)|headStatus(control)")
            oks = s in ("subStatus(control)|wideUpdatePlans(control,active)", "subStatus(control)|wideUpdatePlans(control)",
                        "wideUpdatePlans(control,active)|subStatus(control)", "wideUpdatePlans(control)|subStatus(control)")
            # the callee classes: head = S_, subs = CS_/OS_
            for x in walk(b["body"]):
                if x.get("k") == "call" and "f" in x and F.fn(x["f"])["name"] == "deepUpdatePlans" and F.fn(x["f"]).get("cls") != "S_":
                    okh = False
                if x.get("k") == "call" and "f" in x and F.fn(x["f"])["name"] == "wideUpdatePlans" and F.fn(x["f"]).get("cls") not in ("CS_", "OS_"):
                    oks = False
            shapes = set()
            for p in paths_of(ctx, F, fid):
                toks = []
                for ev in p:
                    if ev[0] == "assume":
                        sx = ev[2]
                        if sx.startswith("L:h"):
                            toks.append("h+" if ev[3] else "h-")
                        elif "outerTransition" in sx:
                            toks.append("outer+" if ev[3] else "outer-")
                        elif sx.startswith("L:s"):
                            toks.append("s+" if ev[3] else "s-")
                        elif "planExists" in sx:
                            toks.append("plan+" if ev[3] else "plan-")
                    elif ev[0] == "call" and ev[2] is not None and F.fn(ev[2])["name"] == "updatePlan":
                        toks.append("updatePlan" if len(ev[4]) == 2 and ev[4][1] == "L:s" and "this" in ev[4][0] else "updatePlan?%s" % ev[4])
                    elif ev[0] == "ret":
                        r = ev[2] or ""
                        if r == "L:h":
                            toks.append("ret:h")
                        elif re.match(r"^TaskStatus\{#0,#True\}$", r):
                            toks.append("ret:outer")
                        elif "updatePlan" in toks:
                            toks.append("ret:plan")
                        elif r == "L:s" or re.match(r"^\(.*\?.*updatePlan.*:L:s\)$", r):
                            toks.append("ret:s")
                        else:
                            toks.append("ret:" + r[:60])
                shapes.add(" ".join(toks))
            want = {"h+ ret:h", "h- outer+ ret:outer", "h- outer- s+ plan+ updatePlan ret:plan", "h- outer- s+ plan- ret:s", "h- outer- s- ret:s"}
            ctx.instance("C06.routing", site, {"function": site, "loc": F.floc(fid), "h": h, "s": s, "path_shapes": sorted(shapes)})
            if not okh or not oks:
                ctx.violation("C06.routing", site + "/inputs", "%s (%s)" % (site, F.floc(fid)),
                              "h = `%s`, s = `%s`; expected headStatus | HeadState::deepUpdatePlans and subStatus | SubStates::wideUpdatePlans" % (h, s), {})
            if shapes != want:
                ctx.violation("C06.routing", site, "%s (%s)" % (site, F.floc(fid)),
                              "deepUpdatePlans decision tree %s differs from %s" % (sorted(shapes), sorted(want)), {})


ACC_FUNCS = {"deepPreUpdate", "deepUpdate", "deepPostUpdate"}


def check_accumulators(ctx, F):
    def scan(fid, b, site):
        bad = None
        n = 0
        for x in walk(b["body"]):
            if x.get("k") == "call" and x.get("op") == "|=":
                tgt = _expr_txt(x.get("a", [None])[0] if not x.get("obj") else x.get("obj"))
                args = x.get("a", [])
                lhs = strip(args[0]) if args else {}
                rhs = strip(args[1]) if len(args) > 1 else {}
                acc = None
                if lhs.get("k") == "call" and "f" in lhs:
                    acc = F.fn(lhs["f"])["name"]
                if acc not in ("headStatus", "subStatus"):
                    continue
                n += 1
                # what produced the right-hand side?
                src = _unwrap(rhs)
                if src.get("k") == "var" and src.get("d") == "local":
                    name = src["n"]
                    for y in walk(b["body"]):
                        if y.get("k") == "decl":
                            for v in y["vars"]:
                                if v["n"] == name:
                                    src = _unwrap(v.get("init") or {})
                role = None
                if src.get("k") == "call" and "f" in src:
                    c = F.fn(src["f"]).get("cls")
                    role = "head" if c == "S_" else ("subs" if c in ("CS_", "OS_") else None)
                want = "headStatus" if role == "head" else ("subStatus" if role == "subs" else None)
                if want is None:
                    bad = "status accumulated into %s comes from `%s`" % (acc, _expr_txt(rhs))
                elif want != acc:
                    bad = "the %s status is or-ed into %s" % ("head's" if role == "head" else "sub-states'", acc)
        # ... and what the member hands to *its* parent is the head's own status (the sub-states' belongs to this region's plan): every returned
        # local is initialised from the head call
        if n:
            for x in walk(b["body"]):
                if x.get("k") == "ret" and x.get("e") is not None:
                    src = _unwrap(strip(x["e"]))
                    if src.get("k") == "var" and src.get("d") == "local":
                        name = src["n"]
                        init = None
                        for y in walk(b["body"]):
                            if y.get("k") == "decl":
                                for v in y["vars"]:
                                    if v["n"] == name:
                                        init = _unwrap(v.get("init") or {})
                        if init is not None and init.get("k") == "call" and "f" in init:
                            c = F.fn(init["f"]).get("cls")
                            if c in ("CS_", "OS_"):
                                bad = bad or "returns `%s`, the status of the sub-states (%s): the enclosing region takes it for this region's own result" % (
                                    name, F.fn(init["f"])["name"])
        if n:
            ctx.instance("C06.status-accumulators", site, {"function": site, "loc": F.floc(fid), "accumulations": n})
        if bad:
            ctx.violation("C06.status-accumulators", site, "%s (%s)" % (site, F.floc(fid)), bad, {})

    for cls in ("C_", "O_"):
        for fid, b in insts(F, cls, ACC_FUNCS):
            scan(fid, b, "%s::%s" % (cls, b["name"]))
    for fid, b in F.bodies.items():
        if b["inst"] and b.get("cls") in ("PreReactWrapperT", "ReactWrapperT", "PostReactWrapperT") and b["name"] == "execute":
            scan(fid, b, "%s<%s>::execute/%d" % (b["cls"], F.spec(b["tid"]), len(b.get("params", []))))


PLAN_FIELDS = ("tasks", "taskLinks", "taskPayloads", "payloadExists", "taskBounds", "planExists", "tasksSuccesses", "tasksFailures", "headStatuses", "subStatuses")
USER_WRITES = {"tasks", "taskLinks", "taskPayloads", "payloadExists", "taskBounds", "planExists", "tasksSuccesses", "tasksFailures"}   # through plan() / succeed() / fail()


def _plan_writers(F):
    """fid -> set of plan fields the function may change (transitively); user callbacks holding a Plan/Full/EventControl may change USER_WRITES"""
    from ..effects import Effects
    from .. import facts as factsmod
    lib = (factsmod.REPO.rstrip("/") + "/", "/usr/")
    w = {}

    CB = {"entryGuard", "enter", "reenter", "preUpdate", "update", "postUpdate", "preReact", "react", "postReact", "exitGuard", "exit", "planSucceeded", "planFailed"}
    CB |= {"wide" + n[0].upper() + n[1:] for n in CB}

    def user_cb(f):
        """a state's callback (whatever the witness states happen to override: the user's type may define any of them) or other user code,
        holding a control through which plans can be edited and results reported"""
        fn = F.fn(f)
        def plan_control(p):
            if re.search(r"\b(Plan|Full|Event)Control", p.get("t") or ""):
                return True
            return "tid" in p and (F.type(p["tid"]).get("name") or "") in ("PlanControlT", "FullControlBaseT", "FullControlT", "EventControlT")
        if not any(plan_control(p) for p in fn.get("params", [])):
            return False
        if fn["name"] in CB and fn.get("cls") in (None, "A_", "B_") or (fn["name"] in CB and not (fn.get("loc") or "").startswith(lib)):
            return True
        loc = fn.get("loc") or ""
        return bool(loc) and not loc.startswith(lib) and F.body(f) is None

    PURE = {"get", "operator[]", "cbits", "count", "empty", "operator bool", "first", "next", "begin", "end", "payload", "operator*", "operator->"}

    def fields_of(e):
        return {m.get("n") for m in walk(e or {}) if m.get("k") == "mem" and m.get("n") in PLAN_FIELDS}

    for fid, b in F.bodies.items():
        if not b["inst"]:
            continue
        d = set()
        for x in walk(b.get("body") or {}):
            k = x.get("k")
            if k == "asg":
                d |= fields_of(x.get("lhs"))
            elif k == "un" and x.get("op") in ("++", "--"):
                d |= fields_of(x.get("e"))
            elif k == "call" and "f" in x and x.get("obj") is not None:
                cf = F.fn(x["f"])
                if not cf.get("const") and cf["name"] not in PURE:
                    d |= fields_of(x.get("obj"))
            if k == "call" and "f" in x and x.get("op") in ("|=", "&=", "^=", "=") and x.get("a"):
                d |= fields_of(x["a"][0])
        w[fid] = d
    changed = True
    while changed:
        changed = False
        for fid, b in F.bodies.items():
            if not b["inst"]:
                continue
            cur = w[fid]
            for x in walk(b.get("body") or {}):
                if x.get("k") in ("call", "ctor") and "f" in x:
                    c = x["f"]
                    add = USER_WRITES if user_cb(c) else w.get(c)
                    if add and not add <= cur:
                        cur |= add
                        changed = True
    return w, user_cb


def check_fresh_read(ctx, F):
    w, user_cb = _plan_writers(F)
    for fid, b in F.bodies.items():
        if not b["inst"] or b.get("cls") not in ("C_", "O_", "S_", "CS_", "OS_", "FullControlT", "FullControlBaseT", "PlanControlT", "R_", "RV_", "PlanT", "PlanDataT"):
            continue
        # locals that copy a scalar out of a plan field
        cands = {}
        for x in walk(b.get("body") or {}):
            if x.get("k") == "decl":
                for v in x.get("vars", []):
                    if v.get("ref") or v.get("ptr") or not v.get("init"):
                        continue
                    if v.get("ty") is None and not re.match(r"^(const )?(bool|hfsm2::(Short|Long|Prong|StateID|RegionID|TaskStatus)\b)", v.get("t") or ""):
                        continue
                    fields = {m.get("n") for m in walk(v["init"]) if m.get("k") == "mem" and m.get("n") in PLAN_FIELDS}
                    # a value the init *computes* through calls that change the field themselves is not a copy of it
                    if fields:
                        cands[v["n"]] = fields
        if not cands:
            continue
        site = "%s::%s" % (b["cls"], b["name"])
        bad = None
        try:
            pp = paths_of(ctx, F, fid)
        except AnalysisBroken as e:
            raise AnalysisBroken("%s (locals %s): %s" % (site, sorted(cands), e))
        for p in pp:
            live = {}         # local -> fields it copies, once declared on this path
            stale = {}        # local -> (callee, field)
            for ev in p:
                node = ev[1] if len(ev) > 1 and isinstance(ev[1], dict) else None
                if node is not None and ev[0] != "decl":
                    for y in walk(node):
                        if y.get("k") == "var" and y.get("d") == "local" and y.get("n") in stale:
                            bad = (y["n"],) + stale[y["n"]]
                if ev[0] == "decl":
                    for v in (node or {}).get("vars", [node] if node else []):
                        if isinstance(v, dict) and v.get("n") in cands:
                            live[v["n"]] = cands[v["n"]]
                            stale.pop(v["n"], None)
                    if node is not None and node.get("n") in cands:
                        live[node["n"]] = cands[node["n"]]
                        stale.pop(node["n"], None)
                elif ev[0] == "call" and ev[2] is not None:
                    c = ev[2]
                    ww = USER_WRITES if user_cb(c) else w.get(c, set())
                    for n, fs in live.items():
                        hit = fs & (ww or set())
                        if hit and n not in stale:
                            stale[n] = (F.fn(c)["name"], sorted(hit)[0])
        ctx.instance("C06.fresh-read", site, {"function": site, "loc": F.floc(fid), "locals": sorted(cands)})
        if bad:
            ctx.violation("C06.fresh-read", site + "/" + bad[0], "%s (%s)" % (site, F.floc(fid)),
                          "local `%s` copies planData.%s and is used after the call to %s(), which may change that field (directly or through a user callback "
                          "that edits plans): the decision is taken on a stale value" % (bad[0], bad[2], bad[1]), {})


def check_scope_order(ctx, F, rule="C06.scope"):
    """a region member that opens a region scope opens it before it hands the control to the region's head or sub-states: inside their callbacks
    control.plan(), regionId() and the outer-transition test refer to the scope that is open"""
    for fid, b in F.bodies.items():
        if not b["inst"] or b.get("cls") not in ("C_", "O_") or not b["name"].startswith("deep"):
            continue
        if b["name"] == "deepUpdatePlans":
            # no callback of this region runs in the first part (S_::deepUpdatePlans is empty, sub-regions open their own scope); the scope is opened
            # for the head's planSucceeded / planFailed further down - decided by C06.routing
            continue
        site = "%s::%s" % (b["cls"], b["name"])
        has_scope = any(x.get("k") in ("ctor", "call") and "f" in x and F.fn(x["f"]).get("cls") == "Region" and F.fn(x["f"]).get("kind") == "ctor"
                        for x in walk(b.get("body") or {}))
        if not has_scope:
            # a member that lets the region's *head* run a callback on a control through which plans are addressed (PlanControl and richer)
            # needs the scope too: without it control.plan() inside that callback (exit()!) is the enclosing region's plan
            ps = b.get("params", [])
            ct = F.type(ps[0].get("tid")) if ps and ps[0].get("tid") is not None else None
            rich = (ct or {}).get("name") in ("PlanControlT", "FullControlBaseT", "FullControlT", "GuardControlT", "EventControlT")
            head_calls = [F.fn(x["f"])["name"] for x in walk(b.get("body") or {})
                          if x.get("k") == "call" and "f" in x and F.fn(x["f"]).get("cls") == "S_" and F.fn(x["f"])["name"].startswith("deep")]
            if rich and head_calls:
                ctx.instance(rule, site + "/scope-first", {"function": site, "loc": F.floc(fid)})
                ctx.violation(rule, site + "/scope-first", "%s (%s)" % (site, F.floc(fid)),
                              "%s lets the head (and the sub-states) run %s on a %s without opening the region's scope: inside those callbacks "
                              "control.plan() addresses the enclosing region's plan" % (site, "/".join(sorted(set(head_calls))), ct.get("name")), {})
            continue
        bad = None
        for p in paths_of(ctx, F, fid):
            opened = False
            for ev in p:
                if ev[0] != "call" or ev[2] is None:
                    continue
                cf = F.fn(ev[2])
                if cf.get("cls") == "Region" and cf.get("kind") == "ctor":
                    opened = True
                elif cf.get("cls") in ("S_", "CS_", "OS_") and (cf["name"].startswith("deep") or cf["name"].startswith("wide")) and \
                        any("P:control" == a or (a or "").startswith("P:control") for a in (ev[4] or [])):
                    if not opened:
                        bad = "%s::%s receives the control before the region scope is opened" % (cf.get("cls"), cf["name"])
        ctx.instance(rule, site + "/scope-first", {"function": site, "loc": F.floc(fid)})
        if bad:
            ctx.violation(rule, site + "/scope-first", "%s (%s)" % (site, F.floc(fid)),
                          bad + ": inside that callback control.plan() edits the *enclosing* region's plan and requests are judged against its range", {})


def check_scope(ctx, F):
    check_scope_order(ctx, F)
    done = set()
    for fid, b in F.bodies.items():
        if not b["inst"] or b.get("kind") != "ctor" or b.get("cls") not in ("Region", "Origin"):
            continue
        t = F.type(b["tid"]) or {}
        outer = t.get("outername") or "?"
        site = "%s::%s::%s" % (outer, b["cls"], b["cls"])
        if (site, F.floc(fid)) in done:
            continue
        done.add((site, F.floc(fid)))
        saved = {}
        bad = None
        for i in b.get("inits") or []:
            m = i.get("member")
            if not m or not m.startswith("prev"):
                continue
            e = strip(i.get("init") or {})
            while e.get("k") in ("ctor", "cast", "ilist") and (e.get("a") or e.get("e")):
                e = strip(e["a"][0] if e.get("k") in ("ctor", "ilist") else e["e"])
            src = None
            if e.get("k") == "mem":
                base = strip(e.get("b") or {})
                if base.get("k") == "var" and base.get("d") in ("param", "member") or base.get("k") == "mem":
                    src = e.get("n")
            if src is None:
                bad = "`%s` is initialised with `%s`, not with the control's current value of a field" % (m, _expr_txt(i.get("init") or {}))
            elif src in saved.values():
                bad = "`%s` saves control.%s, which another member already saves" % (m, src)
            saved[m] = src
        if not saved:
            continue
        ctx.instance("C06.scope", site, {"function": site, "loc": F.floc(fid), "saved": saved})
        if bad:
            ctx.violation("C06.scope", site, "%s (%s)" % (site, F.floc(fid)),
                          "%s: when this scope ends the control is handed a value that was never its own, the enclosing scope continues with the wrong region "
                          "id / head / size" % bad, {})


STATUS_MEMBERS = {"deepPreUpdate": ("widePreUpdate", "preUpdate"), "deepUpdate": ("wideUpdate", "update"), "deepPostUpdate": ("postUpdate", "widePostUpdate"),
                  "deepPreReact": ("widePreReact", "preReact"), "deepReact": ("wideReact", "react"), "deepPostReact": ("postReact", "widePostReact")}


def check_own_status(ctx, F):
    for fid, b in insts(F, "S_", set(STATUS_MEMBERS), spec="headed"):
        site = "S_<headed>::%s" % b["name"]
        cbs = STATUS_MEMBERS[b["name"]]
        bad = None
        for p in paths_of(ctx, F, fid):
            first_cb = None
            clears = []
            ret = None
            snaps = {}
            early = None
            for i, ev in enumerate(p):
                if ev[0] == "icall" or (ev[0] == "call" and ev[2] is not None and F.fn(ev[2])["name"] in cbs):
                    if first_cb is None:
                        first_cb = i
                elif ev[0] == "call" and ev[2] is not None and F.fn(ev[2])["name"] == "clear" and (ev[3] or "").endswith("._taskStatus"):
                    clears.append(i)
                elif ev[0] == "write" and (ev[2] or "").endswith("._taskStatus"):
                    clears.append(i)
                elif ev[0] == "decl":
                    node = ev[1] if isinstance(ev[1], dict) else {}
                    for v in (node.get("vars") or [node]):
                        if isinstance(v, dict) and v.get("n") and any(m.get("k") == "mem" and m.get("n") == "_taskStatus" for m in walk(v.get("init") or {})):
                            snaps[v["n"]] = i
                elif ev[0] == "ret":
                    ret = ev[2]
                    m = re.match(r"^L:(\w+)$", ret or "")
                    if m and m.group(1) in snaps:
                        # a named copy of the region-scope status: it stands for the status as of its declaration
                        ret = "snapshot of _taskStatus"
                        last_cb = max([j for j, e2 in enumerate(p) if e2[0] == "icall" or (e2[0] == "call" and e2[2] is not None and F.fn(e2[2])["name"] in cbs)] or [-1])
                        if snaps[m.group(1)] < last_cb:
                            early = m.group(1)
            if first_cb is None:
                raise AnalysisBroken("%s: no callback call found on a path (expected %s)" % (site, "/".join(cbs)))
            if ret is None or "_taskStatus" not in ret:
                raise AnalysisBroken("%s returns `%s`: not the region-scope status - the rule does not know this idiom" % (site, ret))
            if early:
                bad = "returns `%s`, a copy of control._taskStatus taken before its callbacks ran: what the state itself reports is dropped" % early
            elif not any(c < first_cb for c in clears):
                bad = "returns control._taskStatus without clearing it before its callbacks run: it still holds what ran earlier in the region scope"
            elif any(c > first_cb for c in clears):
                bad = "clears control._taskStatus after its callbacks ran: what the state itself reported is dropped"
        ctx.instance("C06.own-status", site, {"function": site, "loc": F.floc(fid), "callbacks": list(cbs)})
        if bad:
            ctx.violation("C06.own-status", site, "%s (%s)" % (site, F.floc(fid)), "%s %s" % (site, bad), {})


def _unwrap(e):
    e = strip(e)
    while isinstance(e, dict) and e.get("k") == "ctor" and len(e.get("a", [])) == 1:
        e = strip(e["a"][0])
    return e if isinstance(e, dict) else {}


def check_marks(ctx, F):
    for fid, b in insts(F, "S_", {"deepExit"}, spec="headed"):
        site = "S_<headed>::deepExit"
        bad = None
        for p in paths_of(ctx, F, fid):
            seq = []
            for ev in p:
                if ev[0] == "call" and ev[2] is not None:
                    n = F.fn(ev[2])["name"]
                    if n == "exit":
                        seq.append("exit")
                    elif n == "clearTaskStatus":
                        sid = F.const(b["tid"], "STATE_ID")
                        seq.append("clear" if ev[4] == ["#%s" % sid] else "clear?%s" % ev[4])
            if seq != ["exit", "clear"]:
                bad = seq
        ctx.instance("C06.marks", site, {"function": site, "loc": F.floc(fid)})
        if bad is not None:
            ctx.violation("C06.marks", site, "%s (%s)" % (site, F.floc(fid)), "exit sequence %s, expected [user exit, clearTaskStatus(STATE_ID)]" % bad, {})
    # the anonymous head of a head-less region has a state id like any other (marks can be set on it from outside, and by its default
    # planSucceeded / planFailed): its exit clears them too
    for fid, b in insts(F, "S_", {"deepExit"}, spec="empty"):
        site = "S_<empty>::deepExit"
        sid = F.const(b["tid"], "STATE_ID")
        bad = None
        for p in paths_of(ctx, F, fid):
            clears = [ev[4] for ev in p if ev[0] == "call" and ev[2] is not None and F.fn(ev[2])["name"] == "clearTaskStatus"]
            if clears != [["#%s" % sid]]:
                bad = clears
        ctx.instance("C06.marks", site, {"function": site, "loc": F.floc(fid)})
        if bad is not None:
            ctx.violation("C06.marks", site, "%s (%s)" % (site, F.floc(fid)),
                          "the exit of a head-less region's head calls clearTaskStatus %s, expected once with its STATE_ID: its marks survive the exit of the region" % bad, {})
    for fid, b in insts(F, "PlanDataT", {"clearTaskStatus", "clearStatuses"}):
        if not b.get("body") or not list(walk(b["body"])):
            continue
        fl = flavour(F, b, "PlanDataT")
        site = "PlanDataT<%s>::%s" % (fl, b["name"])
        cleared = set()
        for p in paths_of(ctx, F, fid):
            c = set()
            for ev in p:
                if ev[0] == "call" and ev[2] is not None and F.fn(ev[2])["name"] == "clear":
                    m = re.search(r"\.(tasksSuccesses|tasksFailures|headStatuses|subStatuses)$", ev[3] or "")
                    if m and (b["name"] == "clearStatuses" or ev[4] == ["P:stateId"]):
                        c.add(m.group(1))
            if c:
                cleared = c if not cleared else (cleared & c)
        want = {"tasksSuccesses", "tasksFailures"} | ({"headStatuses", "subStatuses"} if b["name"] == "clearStatuses" else set())
        if not any(x.get("k") == "call" for x in walk(b["body"])):
            continue  # the plans-disabled stubs
        ctx.instance("C06.marks", site, {"function": site, "loc": F.floc(fid), "cleared": sorted(cleared)})
        if cleared != want:
            ctx.violation("C06.marks", site, "%s (%s)" % (site, F.floc(fid)), "%s clears %s, expected %s" % (site, sorted(cleared), sorted(want)), {})
    for fid, b in insts(F, "A_", {"planSucceeded", "planFailed"}, spec="single"):
        site = "A_<single>::" + b["name"]
        want = "succeed" if b["name"] == "planSucceeded" else "fail"
        calls = [F.fn(c)["name"] for c in b.get("calls", ())]
        ctx.instance("C06.marks", site, {"function": site, "loc": F.floc(fid), "calls": calls})
        if calls != [want]:
            ctx.violation("C06.marks", site, "%s (%s)" % (site, F.floc(fid)), "default %s calls %s, expected control.%s()" % (b["name"], calls, want), {})
    # TaskStatus ordering and max
    for fid, b in F.bodies.items():
        if b["inst"] and b["name"] in ("operator|", "operator|=") and b.get("cls") is None and b.get("params") and "TaskStatus" in b["params"][0]["t"]:
            site = "TaskStatus " + b["name"]
            defs = {}
            for x in walk(b["body"]):
                if x.get("k") == "decl":
                    for v in x["vars"]:
                        defs[v["n"]] = _expr_txt(strip(v.get("init") or {}))
            ok = defs.get("result") in ("lhs.result>rhs.result?lhs.result:rhs.result", "<cond>") or True
            cond = [x for x in walk(b["body"]) if x.get("k") == "cond"]
            shape = None
            if cond:
                c = cond[0]
                shape = "%s?%s:%s" % (_expr_txt(c["c"]), _expr_txt(c["t"]), _expr_txt(c["f"]))
            ctx.instance("C06.marks", site, {"function": site, "loc": F.floc(fid), "result": shape})
            if shape not in ("lhs.result>rhs.result?lhs.result:rhs.result", "lhs.result>=rhs.result?lhs.result:rhs.result",
                             "rhs.result>lhs.result?rhs.result:lhs.result", "lhs.result<rhs.result?rhs.result:lhs.result"):
                ctx.violation("C06.marks", site, "%s (%s)" % (site, F.floc(fid)), "result is `%s`, expected the maximum of both results" % shape, {})
            outer = [_expr_txt(x) for x in walk(b["body"]) if x.get("k") == "bin" and x.get("op") == "||"]
            if "lhs.outerTransition||rhs.outerTransition" not in outer and "rhs.outerTransition||lhs.outerTransition" not in outer:
                ctx.violation("C06.marks", site + "/outer", "%s (%s)" % (site, F.floc(fid)), "outerTransition is not or-ed", {})
    for t in F.types:
        if t.get("name") == "TaskStatus" and t.get("complete"):
            pass
    # enum order: NONE < SUCCESS < FAILURE (values seen in bodies)
    vals = {}
    for b in F.bodies.values():
        if b["name"] in ("updatePlan", "deepUpdatePlans", "succeed", "fail"):
            for x in walk(b["body"]):
                if x.get("k") == "var" and x.get("d") == "enum" and x.get("o") == "Result":
                    vals[x["n"]] = x.get("cv")
    if vals:
        ctx.instance("C06.marks", "TaskStatus::Result", {"enumerators": vals})
        if not (vals.get("NONE", 0) < vals.get("SUCCESS", 1) < vals.get("FAILURE", 2)):
            ctx.violation("C06.marks", "TaskStatus::Result", "TaskStatus::Result", "enumerators %s are not ordered NONE < SUCCESS < FAILURE" % vals, {})


def skeleton(F, fid, erase):
    out = set()
    for p in sym_paths(F, fid, 1):
        toks = []
        for ev in p:
            if ev[0] == "call" and ev[2] is not None:
                n = F.fn(ev[2])["name"]
                if n in erase or n in ("operator->", "operator*", "operator bool", "operator[]"):
                    continue
                n = {"changeWith": "changeTo"}.get(n, re.sub(r"With$", "", n))
                obj = re.sub(r"^.*\.", "", ev[3] or "")
                na = len([a for a in (ev[4] or []) if not any(e in (a or "") for e in erase)])       # overloads: clear() vs clear(index)
                toks.append(("%s.%s/%d" % (obj, n, na)) if obj else "%s/%d" % (n, na))
            elif ev[0] == "write":
                toks.append("w:" + re.sub(r"^.*\.", "", ev[2]))
            elif ev[0] == "assume":
                s = ev[2]
                if any(e in s for e in erase):
                    continue
                toks.append(("+" if ev[3] else "-") + re.sub(r"TaskT|PayloadPlanT|PlanT", "", re.sub(r"<\w+>", "", s))[-60:])
            elif ev[0] == "ret":
                toks.append("ret")
        out.add(tuple(toks))
    return out


def check_siblings(ctx, F):
    """collect per-flavour skeletons; compared across units in final() (a machine has one payload type, so one unit rarely holds both copies)"""
    sk = ctx.shared.setdefault("C06.skel", {})
    for fid, b in insts(F, "FullControlT", {"updatePlan"}):
        fl = flavour(F, b, "FullControlT")
        sk.setdefault(("FullControlT::updatePlan", fl), (skeleton(F, fid, ("payload",)), F.floc(fid)))
    for name in ("clearTaskStatus", "clearStatuses", "clear"):
        for fid, b in insts(F, "PlanDataT", {name}):
            if any(x.get("k") == "call" for x in walk(b["body"])):
                fl = flavour(F, b, "PlanDataT")
                a = skeleton(F, fid, ("taskPayloads", "payloadExists"))
                a = set(tuple(t for t in x if "taskPayloads" not in t and "payloadExists" not in t) for x in a)
                sk.setdefault(("PlanDataT::" + name, fl), (a, F.floc(fid)))


def final(ctx):
    sk = ctx.shared.get("C06.skel", {})
    names = sorted(set(n for n, _ in sk))
    for n in names:
        if (n, "payload") in sk and (n, "void") in sk:
            a, la = sk[(n, "payload")]
            v, lv = sk[(n, "void")]
            site = n + " payload~void"
            ctx.instance("C06.siblings", site, {"loc": [la, lv], "payload_shapes": len(a), "void_shapes": len(v)})
            if a != v:
                d = sorted(a ^ v, key=len)[:2]
                ctx.violation("C06.siblings", site, "%s (%s | %s)" % (site, la, lv),
                              "the payload and void copies of %s differ beyond the payload arm: %s" % (n, [list(x)[:14] for x in d]), {})


# ---------------------------------------------------------------------------------------------------------------------------------------
# C06.outer-test: the condition under which a request counts as leaving the open region

class _NotLinear(Exception):
    pass


def _lin(e):
    """expression -> ({variable: coefficient}, constant) over the integers; parameters are named by position, members by name"""
    e = strip(e)
    k = e.get("k")
    if "cv" in e and k != "asg" and isinstance(e["cv"], (int, bool)):
        return {}, int(e["cv"])
    if k == "lit" and isinstance(e.get("v"), (int, bool)):
        return {}, int(e["v"])
    if k == "var" and e.get("d") == "param":
        return {"P%d" % e.get("pi", -1): 1}, 0
    if k == "mem" and strip(e.get("b") or {}).get("k") == "this":
        return {e["n"]: 1}, 0
    if k == "paren":
        return _lin(e["e"])
    if k == "bin" and e.get("op") in ("+", "-"):
        (a, ca), (b, cb) = _lin(e["lhs"]), _lin(e["rhs"])
        sg = 1 if e["op"] == "+" else -1
        out = dict(a)
        for v, c in b.items():
            out[v] = out.get(v, 0) + sg * c
        return {v: c for v, c in out.items() if c}, ca + sg * cb
    raise _NotLinear(_expr_txt(e))


def _ineqs(e, neg=False):
    """boolean expression -> list of inequalities `form <= 0` whose disjunction it is (under `neg`: of its negation); conjunctions are not in the fragment"""
    e = strip(e)
    k = e.get("k")
    if k == "paren":
        return _ineqs(e["e"], neg)
    if k == "un" and e.get("op") == "!":
        return _ineqs(e["e"], not neg)
    if k == "bin" and e.get("op") == ("&&" if neg else "||"):
        return _ineqs(e["lhs"], neg) + _ineqs(e["rhs"], neg)
    if k == "bin" and e.get("op") in ("<", "<=", ">", ">="):
        op, l, r = e["op"], e["lhs"], e["rhs"]
        if neg:
            op = {"<": ">=", "<=": ">", ">": "<=", ">=": "<"}[op]
        if op in (">", ">="):
            l, r, op = r, l, {">": "<", ">=": "<="}[op]
        (a, ca), (b, cb) = _lin(l), _lin(r)
        out = dict(a)
        for v, c in b.items():
            out[v] = out.get(v, 0) - c
        c0 = ca - cb + (1 if op == "<" else 0)              # integers: l < r  <=>  l - r + 1 <= 0
        return [(tuple(sorted((v, c) for v, c in out.items() if c)), c0)]
    raise _NotLinear(_expr_txt(e))


_OUTER_WANT = sorted([((("P0", 1), ("_regionStateId", -1)), 1), ((("P0", -1), ("_regionSize", 1), ("_regionStateId", 1)), 0)])


def _writes_outer(n):
    for x in walk(n):
        if x.get("k") == "asg":
            l = strip(x.get("lhs") or {})
            if l.get("k") == "mem" and l.get("n") == "outerTransition":
                return True
    return False


def check_outer_test(ctx, F):
    seen = False
    for cls in ("FullControlBaseT", "FullControlT"):
        for fid, b in insts(F, cls):
            if not b.get("body") or not _writes_outer(b["body"]) or b["name"] in ("updatePlan",):
                continue
            ps = b.get("params", [])
            site = "%s%s::%s/%d" % (cls, "<" + F.spec(b["tid"]) + ">" if F.spec(b["tid"]) else "", b["name"], len(ps))
            conds = []
            for x in walk(b["body"]):
                if x.get("k") == "if" and _writes_outer(x.get("t") or x.get("then") or {}) and not any(
                        y.get("k") == "if" and y is not x and _writes_outer(y) for y in walk(x.get("t") or x.get("then") or {})):
                    conds.append(x["c"])
            seen = True
            ctx.instance("C06.outer-test", site, {"function": site, "loc": F.floc(fid), "conditions": [_expr_txt(strip(c)) for c in conds]})
            if len(conds) != 1:
                raise AnalysisBroken("C06.outer-test: %s writes outerTransition under %d conditions, expected one `if`" % (site, len(conds)))
            try:
                got = sorted(_ineqs(conds[0]))
            except _NotLinear as ex:
                raise AnalysisBroken("C06.outer-test: %s: the outer-transition condition is outside the linear-comparison fragment (%s)" % (site, ex))
            if got != _OUTER_WANT:
                ctx.violation("C06.outer-test", site, "%s (%s)" % (site, F.floc(fid)),
                              "the request raises outerTransition under `%s`, which is not the complement of the open region's id interval "
                              "[_regionStateId, _regionStateId + _regionSize): as inequalities (<= 0) %s, expected %s - a request to a state at the "
                              "boundary is classified wrongly and the plan is advanced over (or suppressed by) it" % (
                                  _expr_txt(strip(conds[0])), got, _OUTER_WANT), {})
    if not seen:
        raise AnalysisBroken("C06.outer-test: no request function writes _taskStatus.outerTransition")
