"""C04 — guards precede any change; a vetoed round changes nothing; rounds are bounded.

Decided: the round loop's protocol in R_::processTransitions / initialEnter; guard order and cancellation detection;
that a veto re-establishes everything a round's application wrote (except scheduling, by the statement); the bound.
"""
import re

from ..effects import Effects
from ..engine import site_str
from ..ir import AnalysisBroken, walk, strip, sym_paths
from .common import insts, paths_of

TEXT = {
    "C04.round": "R_::processTransitions / initialEnter: every path is `backup (apply* (changed: pending:=requests, requests.clear, guards, "
                 "(approved: current+=pending, backup | vetoed: restore), pending.clear | unchanged: requests.clear))* commit`; no lifecycle call inside the loop; "
                 "deepChangeToRequested / deepEnter only after it",
    "C04.guard-order": "approvedByGuards = deepForwardExitGuard && deepForwardEntryGuard on one GuardControl built from current and pending transitions; "
                       "approvedByEntryGuards = deepEntryGuard; S_::deep{Entry,Exit}Guard read _cancelled *before* any guard callback and return "
                       "cancelledBefore || !_cancelled",
    "C04.forward": "every pending change is reached by the guard walk: C_::deepForwardEntryGuard = requested == INVALID ? wideForwardEntryGuard(active) : "
                   "wideEntryGuard(requested); C_::deepForwardExitGuard = requested == INVALID ? wideForwardExitGuard(active) : wideExitGuard(active); "
                   "O_::deepForward{Entry,Exit}Guard = requested bits set ? wideForward...(control, requested) : wideForward...(control) (all prongs when no bit "
                   "is set); RegistryT::requestImmediate marks every orthogonal ancestor of the destination (requestedOrthoFork(forkId).set(prong)) and "
                   "touches every composite ancestor (compoRequested or compoRemains) before stepping to the next ancestor",
    "C04.backup-covers": "every registry field applyRequest may write (except compoResumable: scheduling applies regardless) is re-established on the veto arm "
                         "(by restore(backup) or an explicit statement); backup() captures what restore() writes",
    "C04.bounded": "the round loops are `for (s = 0; s < SUBSTITUTION_LIMIT && requests.count(); ++s)` and s is written nowhere else",
}
MIN_INSTANCES = {"C04.forward": 4, "C04.round": 2, "C04.guard-order": 4, "C04.backup-covers": 2, "C04.bounded": 2}

REG_STATE = ("compoRequested", "orthoRequested", "compoActive", "compoResumable", "compoRemains")


def declare(ctx):
    for r, t in TEXT.items():
        ctx.rule(r, t)


def tokens(F, p):
    """token string of a path of processTransitions / initialEnter"""
    t = []
    last_call = None
    for ev in p:
        if ev[0] == "call" and ev[2] is not None:
            cf = F.fn(ev[2])
            n, cls, obj = cf["name"], cf.get("cls"), ev[3] or ""
            if n == "applyRequest":
                t.append("A")
            elif n == "operator!=" and cls == "RegistryT":
                last_call = "N"
            elif n == "operator=" and obj.startswith("L:pendingTransitions"):
                t.append("P" if ev[4] and ev[4][0].endswith("._core.requests") else "P?")
            elif n == "clear" and obj.endswith("._core.requests"):
                t.append("RC")
            elif n == "clear" and obj.startswith("L:pendingTransitions"):
                t.append("PC")
            elif n == "clear" and obj.endswith(".transitionTargets"):
                t.append("TC")
            elif n in ("approvedByGuards", "approvedByEntryGuards"):
                last_call = "G"
                t.append("g")
            elif obj in ("P:currentTransitions", "L:currentTransitions") and not cf.get("const") and n != "operator+=":
                t.append("CX:" + n)      # the step's record is append-only: any other mutation breaks the protocol
            elif n == "operator+=":
                t.append("PLUS" if obj in ("P:currentTransitions", "L:currentTransitions") and ev[4] and ev[4][0].startswith("L:pendingTransitions") else "PLUS?")
            elif n == "backup" and cls == "RegistryT":
                t.append("BK")
            elif n == "restore" and cls == "RegistryT":
                t.append("RS")
            elif n in ("deepChangeToRequested", "deepEnter", "deepExit", "deepReenter"):
                t.append("D")
            elif n == "clearRequests":
                t.append("CR")
            elif n == "deepRequestChange":
                t.append("Q")
        elif ev[0] == "assume":
            s = ev[2]
            if "operator!=" in s and "registry" in s:
                t.append("N+" if ev[3] else "N-")
            elif "approvedBy" in s:
                t.append("G+" if ev[3] else "G-")
            elif re.match(r"^\(.*<#\d+\)$", s) and ("L:s" in s or re.match(r"^\(\(*#\d", s)) and "requests" not in s and "destination" not in s:
                t.append("L+" if ev[3] else "L-")
            elif s.endswith("._core.requests._count") or "requests.DynamicArrayT::count" in s:
                t.append("R+" if ev[3] else "R-")
            elif "currentTransitions" in s and "count" in s:
                t.append("C+" if ev[3] else "C-")
    return " ".join(t)


# (a round that changes nothing the comparison covers is dropped *and rolled back*: its requests may have left marks - compoRemains - outside the comparison)
ROUND = r"(?:(?:L\+ R\+) (?:A )*(?:N\+ P RC g (?:G\+ PLUS BK|G- (?:TC )?RS) PC|N- RS RC) )*"
RE_PROCESS = re.compile(r"^BK " + ROUND + r"(?:L- |L\+ R- )(?:C\+ D |C- )CR$")
RE_INITIAL = re.compile(r"^(?:TC )?Q g (?:G[+-] )?BK " + ROUND + r"(?:L- |L\+ R- )D CR$")


FORWARD_WANT = {
    ("C_", "deepForwardEntryGuard"): {("inv", "wideForwardEntryGuard", "compoActive"), ("req", "wideEntryGuard", "compoRequested")},
    ("C_", "deepForwardExitGuard"): {("inv", "wideForwardExitGuard", "compoActive"), ("req", "wideExitGuard", "compoActive")},
    # an orthogonal region commits *every* sub-region (O_::deepChangeToRequested is not filtered by the requested-prong bits, and a request aimed at
    # the region or at the root sets sub-regions' requested prongs without setting any bit): the guard walk visits every sub-region too
    ("O_", "deepForwardEntryGuard"): {("?", "wideForwardEntryGuard", "-")},
    ("O_", "deepForwardExitGuard"): {("?", "wideForwardExitGuard", "-")},
}


def check_forward(ctx, F):
    for (cls, name), want in FORWARD_WANT.items():
        for fid, b in insts(F, cls, {name}):
            site = "%s::%s" % (cls, name)
            shapes = set()
            for p in paths_of(ctx, F, fid):
                cond = "?"
                calls = []
                for ev in p:
                    if ev[0] == "assume":
                        m = re.search(r"compoRequested[^=!]*(==|!=)#(255|65535)\)?$", ev[2])
                        if m:
                            cond = "inv" if (m.group(1) == "==") == bool(ev[3]) else "req"
                        elif "operator bool" in ev[2] and "requested" in ev[2]:
                            cond = "bits" if ev[3] else "nobits"
                    elif ev[0] == "call" and ev[2] is not None and F.fn(ev[2]).get("cls") in ("CS_", "OS_") and "Guard" in F.fn(ev[2])["name"]:
                        a = (ev[4] or [None, None])
                        arg = a[1] if len(a) > 1 else "-"
                        m = re.search(r"(compoActive|compoRequested|requested)", arg or "")
                        calls.append((F.fn(ev[2])["name"], m.group(1) if m else arg))
                if len(calls) != 1:
                    shapes.add((cond, "calls=%d" % len(calls), "-"))
                else:
                    shapes.add((cond,) + calls[0])
            ctx.instance("C04.forward", site, {"function": site, "loc": F.floc(fid), "shapes": sorted(shapes)})
            if shapes != want:
                ctx.violation("C04.forward", site, "%s (%s)" % (site, F.floc(fid)),
                              "%s forwards the guard walk as %s, expected %s: a pending change in a sub-region can be committed without its guards" % (
                                  site, sorted(shapes), sorted(want)), {})
    # the request walk marks every ancestor fork
    for fid, b in insts(F, "RegistryT", {"requestImmediate"}):
        spec = F.spec(b["tid"])
        site = "RegistryT<%s>::requestImmediate" % spec
        bad = None
        n = 0
        for p in sym_paths(F, fid, 2):
            ctx.paths += 1
            pending = None
            for ev in p:
                if ev[0] == "assume" and re.search(r"forkId[<>]#0\)?$", ev[2]):
                    lt = "forkId<#0" in ev[2]
                    if lt:
                        # forkId < 0: orthogonal ancestor; forkId neither > 0 nor < 0 cannot happen (forkParent of a real fork; HFSM2_BREAK arm)
                        pending = "ortho" if ev[3] else None
                    elif spec == "general":
                        # forkId > 0: composite ancestor; not composite means orthogonal, whether or not the code goes on to test `< 0`
                        pending = "compo" if ev[3] else "ortho"
                elif ev[0] == "call" and ev[2] is not None:
                    nme = F.fn(ev[2])["name"]
                    if nme == "set" and "requestedOrthoFork" in (ev[3] or "") and pending == "ortho":
                        pending = None
                        n += 1
                    elif nme == "set" and (ev[3] or "").endswith("compoRemains") and pending == "compo":
                        pending = None
                    elif nme == "forkParent":
                        if pending:
                            bad = pending
                        pending = None
                elif ev[0] == "write" and "compoRequested" in ev[2] and pending == "compo":
                    pending = None
            if pending:
                bad = bad or pending
        ctx.instance("C04.forward", site, {"function": site, "loc": F.floc(fid), "orthogonal_marks_seen": n})
        if bad:
            ctx.violation("C04.forward", site, "%s (%s)" % (site, F.floc(fid)),
                          "on some path the walk steps over %s without marking it: guards are forwarded only into marked prongs of an orthogonal region once any "
                          "bit is set, so a change pending below an unmarked prong is committed unguarded" % (
                              "an orthogonal ancestor (no requestedOrthoFork(...).set)" if bad == "ortho" else "a composite ancestor (neither compoRequested nor compoRemains)"), {})


def check_round(ctx, F, extras=False, E=None):
    for fid, b in insts(F, "R_", {"processTransitions", "initialEnter"}):
        site = "R_::" + b["name"]
        rex = RE_PROCESS if b["name"] == "processTransitions" else RE_INITIAL
        bad = None
        n = 0
        shapes = set()
        for p in sym_paths(F, fid, 2):
            ctx.paths += 1
            ts = tokens(F, p)
            # the inner request loop may run 0..2 times: collapse repeated applications
            ts = re.sub(r"(?:TC )", "TC ", ts)
            n += 1
            shapes.add(ts)
            if not rex.match(ts):
                bad = ts
        ctx.instance("C04.round", site, {"function": site, "loc": F.floc(fid), "paths": n, "example_path_tokens": sorted(shapes)[:2]})
        if bad is not None:
            ctx.violation("C04.round", site, "%s (%s)" % (site, F.floc(fid)),
                          "a path through the round loop does not follow the protocol: `%s`" % bad,
                          {"tokens": bad, "legend": "A applyRequest, N+/- registry != backup, P pending:=requests, RC requests.clear, g guards call, "
                                                    "G+/- approved, PLUS current+=pending, BK backup, RS restore, PC pending.clear, TC transitionTargets.clear, "
                                                    "D deepChangeToRequested/deepEnter, CR clearRequests, L loop bound test, R requests.count test"})
        if extras:
            check_bounded(ctx, F, fid, b, site)
            check_backup_covers(ctx, F, E, fid, b, site)


def check(ctx, F):
    check_forward(ctx, F)
    check_forward_leaf(ctx, F)
    from .common import check_accessors
    check_accessors(ctx, F, "C04.forward")        # the guard walk reads the requested prongs / bits through these accessors
    # ... and an orthogonal region decides which sub-regions a guard round visits by CBits::get(prong) on that view
    from . import C18, C03
    if any(bb.get("cls") == "CBits" for bb in F.bodies.values()):
        C18._FN["F"] = F
        C18.check_single(C03._Alias(ctx, {"C18.single-bit": "C04.forward"}), F, classes=("CBits",))
    E = Effects(F)
    check_round(ctx, F, extras=True, E=E)
    check_rounds_once(ctx, F)
    from . import C09
    C09.check_snapshot(ctx, F, "C04.round")
    check_rest(ctx, F, E)


def check_rest(ctx, F, E):
    check_guard_order(ctx, F)
    check_backup_pair(ctx, F)


def check_backup_pair(ctx, F):
    """backup() captures exactly the fields restore() writes back (and from the matching member of the copy)."""
    for spec in ("general", "noortho"):
        got = {}
        for name in ("backup", "restore"):
            for fid, b in insts(F, "RegistryT", {name}, spec=spec):
                pairs = set()
                for p in paths_of(ctx, F, fid):
                    for ev in p:
                        if ev[0] == "call" and ev[2] is not None and F.fn(ev[2])["name"] == "overwriteWith" and len(ev[4]) == 2:
                            pairs.add((ev[4][0], ev[4][1]))
                got[name] = (fid, pairs)
        if len(got) < 2:
            continue
        bfid, bp = got["backup"]
        rfid, rp = got["restore"]
        site = "RegistryT<%s>::backup/restore" % spec
        saved = set(src.split(".")[-1] for dst, src in bp if ".BackUp::" in dst)
        restored = set(dst.split(".")[-1] for dst, src in rp if ".BackUp::" in src)
        crossed = [(d, s_) for d, s_ in list(bp) + list(rp) if d.split("::")[-1].split(".")[-1] != s_.split("::")[-1].split(".")[-1]]
        ctx.instance("C04.backup-covers", site, {"function": site, "loc": F.floc(bfid), "saved": sorted(saved), "restored": sorted(restored)})
        if saved != restored or crossed:
            ctx.violation("C04.backup-covers", site, "%s (%s)" % (site, F.floc(rfid)),
                          "backup() saves %s but restore() writes back %s%s" % (sorted(saved), sorted(restored),
                                                                                 "; mismatched members: %s" % crossed if crossed else ""), {})


def check_bounded(ctx, F, fid, b, site):
    loops = [x for x in walk(b["body"]) if x.get("k") == "for"]
    outer = None
    for l in loops:
        init = l.get("init") or {}
        vs = init.get("vars", []) if init.get("k") == "decl" else []
        if vs and vs[0]["n"] == "s":
            outer = l
    ctx.instance("C04.bounded", site, {"function": site, "loc": F.floc(fid)})
    if outer is None:
        ctx.violation("C04.bounded", site + "/noloop", "%s (%s)" % (site, F.floc(fid)), "round loop over `s` not found", {})
        return
    v = outer["init"]["vars"][0]
    ok_init = strip(v.get("init") or {}).get("cv", strip(v.get("init") or {}).get("v")) == 0
    cond = outer.get("c") or {}
    found = False
    for x in walk(cond):
        if x.get("k") == "bin" and x.get("op") in ("<", "<=", "!=", ">", ">="):
            l, r = strip(x["lhs"]), strip(x["rhs"])
            if l.get("k") == "var" and l.get("n") == "s" and r.get("k") == "var" and r.get("n") == "SUBSTITUTION_LIMIT":
                found = x["op"]
    top_and = strip(cond)
    conj = top_and.get("k") == "bin" and top_and.get("op") == "&&"
    inc = strip(outer.get("inc") or {})
    ok_inc = inc.get("k") == "un" and inc.get("op") == "++" and strip(inc["e"]).get("n") == "s"
    written = False
    for x in walk(outer.get("b")):
        if x.get("k") == "asg" and strip(x["lhs"]).get("n") == "s":
            written = True
        if x.get("k") == "un" and x.get("op") in ("++", "--") and strip(x["e"]).get("n") == "s":
            written = True
    if found != "<" or not ok_init or not ok_inc or written or not conj:
        ctx.violation("C04.bounded", site, "%s (%s)" % (site, F.floc(fid)),
                      "round loop is not `for (s = 0; s < SUBSTITUTION_LIMIT && ...; ++s)` with s untouched in the body "
                      "(bound test: s %s SUBSTITUTION_LIMIT, init 0: %s, ++s: %s, s written in body: %s)" % (found, ok_init, ok_inc, written), {})


def check_forward_leaf(ctx, F):
    """the forward walk ends at the leaves: below a leaf nothing can be pending, so S_::deepForwardEntryGuard / deepForwardExitGuard answer
    'no objection' (true) without invoking anything - `false` there vetoes a round that no guard cancelled (reached when an orthogonal region
    forwards to all its prongs: a request aimed at an orthogonal root)"""
    for spec in ("headed", "empty"):
        for fid, b in insts(F, "S_", {"deepForwardEntryGuard", "deepForwardExitGuard"}, spec=spec):
            site = "S_<%s>::%s" % (spec, b["name"])
            rets = [x for x in walk(b["body"]) if x.get("k") == "ret"]
            calls = [x for x in walk(b["body"]) if x.get("k") in ("call", "icall")]
            val = None
            if len(rets) == 1 and rets[0].get("e") is not None:
                e = strip(rets[0]["e"])
                val = e.get("cv", e.get("v"))
            ctx.instance("C04.forward", site + "/leaf", {"function": site, "loc": F.floc(fid), "returns": val})
            if calls or val not in (True, 1):
                ctx.violation("C04.forward", site + "/leaf", "%s (%s)" % (site, F.floc(fid)),
                              "%s answers `%s`%s for a leaf: the forward walk must end in 'no objection' there - otherwise a round is vetoed although "
                              "no guard cancelled it" % (site, val, " after calling something" if calls else ""), {})


def check_rounds_once(ctx, F):
    """the bound on guard rounds holds per *step* only if the round loop is entered once per step: every caller of processTransitions calls it
    at most once on every path (a `while` around it would start a fresh batch of SUBSTITUTION_LIMIT rounds), and it is not recursive"""
    targets = {fid for fid, b in insts(F, "R_", {"processTransitions"})}
    for fid, b in F.bodies.items():
        if not b["inst"] or not (set(b.get("calls", ())) & targets):
            continue
        site = "%s::%s" % (b.get("cls"), b["name"])
        most = 0
        for p in sym_paths(F, fid, 2):
            ctx.paths += 1
            most = max(most, sum(1 for ev in p if ev[0] == "call" and ev[2] in targets))
        ctx.instance("C04.bounded", site + "/once", {"function": site, "loc": F.floc(fid), "calls_on_a_path": most})
        if most > 1 or fid in targets:
            ctx.violation("C04.bounded", site + "/once", "%s (%s)" % (site, F.floc(fid)),
                          "processTransitions() can run %s on one path through %s: every run allows another SUBSTITUTION_LIMIT rounds of guards, "
                          "so the rounds of a step are no longer bounded" % ("recursively" if fid in targets else "%d times" % most, site), {})


def check_backup_covers(ctx, F, E, fid, b, site):
    # W: registry fields applyRequest may write, transitively
    app = None
    for c in b.get("calls", ()):
        if F.fn(c)["name"] == "applyRequest":
            app = c
    if app is None:
        raise AnalysisBroken("%s does not call applyRequest" % site)
    W = set(f for f in E.star(app) if f in REG_STATE) - {"compoResumable"}
    # handled on the veto arm: written between G- and PC
    handled = None
    for p in sym_paths(F, fid, 1):
        idx = [i for i, ev in enumerate(p) if ev[0] == "assume" and "approvedBy" in ev[2] and ev[3] is False]
        if not idx:
            continue
        h = set()
        for ev in p[idx[0]:]:
            if ev[0] == "call" and ev[2] is not None:
                cf = F.fn(ev[2])
                if cf["name"] == "clear" and (ev[3] or "").startswith("L:pendingTransitions"):
                    break
                if F.body(ev[2]) is not None:
                    h |= E.star(ev[2])
                    h |= set(f for f in E.direct(ev[2]))
            elif ev[0] == "write":
                from ..effects import outer_field
                f = outer_field(ev[2])
                if f:
                    h.add(f)
        handled = h if handled is None else (handled & h)
    ctx.instance("C04.backup-covers", site, {"function": site, "loc": F.floc(fid), "written_by_applyRequest": sorted(W),
                                             "re-established_on_veto": sorted(handled or [])})
    if handled is None:
        ctx.violation("C04.backup-covers", site + "/noveto", "%s (%s)" % (site, F.floc(fid)), "no veto arm found", {})
        return
    for f in sorted(W - handled):
        # locate the registry specialisation for the report
        regs = sorted(set(F.spec(F.fn(c).get("tid")) for c in F.body(app).get("calls", ()) if F.fn(c).get("cls") == "RegistryT"))
        ctx.violation("C04.backup-covers", "%s/%s" % (site, f), "%s (%s)" % (site, F.floc(fid)),
                      "applying a request may write registry.%s, but a vetoed round does not re-establish it (not in RegistryT::restore, no explicit "
                      "statement on the veto arm): a cancelled round leaks into the next" % f,
                      {"field": f, "registry": regs, "W": sorted(W), "handled": sorted(handled)})


def check_guard_order(ctx, F):
    for fid, b in insts(F, "R_", {"approvedByGuards", "approvedByEntryGuards"}):
        site = "R_::" + b["name"]
        seqs = set()
        for p in paths_of(ctx, F, fid):
            seq = []
            gc_args = None
            for ev in p:
                if ev[0] == "call" and ev[2] is not None:
                    cf = F.fn(ev[2])
                    if cf["name"] in ("deepForwardExitGuard", "deepForwardEntryGuard", "deepEntryGuard", "deepExitGuard"):
                        seq.append(cf["name"])
                    if cf.get("kind") == "ctor" and cf.get("cls") == "GuardControlT":
                        gc_args = ev[4]
                elif ev[0] == "assume" and "Guard" in ev[2]:
                    seq.append("+" if ev[3] else "-")
            seqs.add(tuple(seq))
            if gc_args is None and seq:
                # every round judges its guards on a control of its own: a GuardControl handed in from outside (and reused across rounds) carries
                # the `_cancelled` flag of a vetoed round into the next one, where every guard then counts as approving
                ctx.violation("C04.guard-order", site + "/fresh-control", "%s (%s)" % (site, F.floc(fid)),
                              "%s does not construct the GuardControl the guards of the round run on: a control shared between rounds keeps `_cancelled` "
                              "set after a veto, and S_::deep*Guard returns `cancelledBefore || !_cancelled`" % site, {})
            if gc_args is not None and not (len(gc_args) == 3 and gc_args[1] == "P:currentTransitions" and gc_args[2] == "P:pendingTransitions"):
                ctx.violation("C04.guard-order", site + "/control", "%s (%s)" % (site, F.floc(fid)),
                              "GuardControl is not built from (core, currentTransitions, pendingTransitions): %s" % gc_args, {})
        if b["name"] == "approvedByGuards":
            want = {("deepForwardExitGuard", "+", "deepForwardEntryGuard", "+"), ("deepForwardExitGuard", "+", "deepForwardEntryGuard", "-"),
                    ("deepForwardExitGuard", "-")}
        else:
            want = {("deepEntryGuard",)}
        ctx.instance("C04.guard-order", site, {"function": site, "loc": F.floc(fid), "paths": sorted(seqs)})
        if seqs != want:
            ctx.violation("C04.guard-order", site, "%s (%s)" % (site, F.floc(fid)),
                          "guard sequence %s, expected %s" % (sorted(seqs), sorted(want)), {})
    # cancellation detection in the state wrappers
    for fid, b in insts(F, "S_", {"deepEntryGuard", "deepExitGuard"}, spec="headed"):
        site = "S_<headed>::" + b["name"]
        stem = b["name"][4:]
        bad = None
        for p in paths_of(ctx, F, fid):
            order = []
            ret = None
            for ev in p:
                if ev[0] == "decl" and ev[1]["n"] == "cancelledBefore":
                    order.append("read" if (ev[2] or "").endswith("._cancelled") else "read?" + str(ev[2]))
                elif ev[0] == "call" and ev[2] is not None:
                    cf = F.fn(ev[2])
                    if cf["name"] == "wide" + stem:
                        order.append("wide")
                    elif cf["name"] == stem[0].lower() + stem[1:]:
                        order.append("own")
                elif ev[0] == "ret":
                    ret = ev[1].get("e")
            if order != ["read", "wide", "own"]:
                bad = "order %s, expected [read _cancelled, injected guards, own guard]" % order
            # the returned value as a boolean function of (cancelledBefore, _cancelled now): cancelledBefore || !_cancelled, in any spelling
            from .common import bexp, truth_table
            try:
                atoms, table = truth_table(bexp(F, ret or {}, {}))
            except AnalysisBroken:
                atoms, table = (), ()
            before = [a for a in atoms if "cancelledBefore" in a]
            now = [a for a in atoms if "_cancelled" in a and "cancelledBefore" not in a]
            okret = len(atoms) == 2 and len(before) == 1 and len(now) == 1
            if okret:
                import itertools
                want = tuple((dict(zip(atoms, v))[before[0]] or not dict(zip(atoms, v))[now[0]]) for v in itertools.product((False, True), repeat=2))
                okret = want == table
            if not okret:
                bad = bad or "return is not `cancelledBefore || !control._cancelled`"
        ctx.instance("C04.guard-order", site, {"function": site, "loc": F.floc(fid)})
        if bad:
            ctx.violation("C04.guard-order", site, "%s (%s)" % (site, F.floc(fid)), bad, {})
    # region guards combine head and sub-states with && in the documented order (short-circuit on veto)
    for cls in ("C_", "O_"):
        for fid, b in insts(F, cls, {"deepEntryGuard", "deepExitGuard"}):
            site = "%s::%s" % (cls, b["name"])
            want_first = "head" if b["name"] == "deepEntryGuard" else "subs"
            seqs = set()
            for p in paths_of(ctx, F, fid):
                seq = []
                for ev in p:
                    if ev[0] == "call" and ev[2] is not None:
                        cf = F.fn(ev[2])
                        if cf["name"] in ("deepEntryGuard", "deepExitGuard") and cf.get("cls") == "S_":
                            seq.append("head")
                        elif cf["name"] in ("wideEntryGuard", "wideExitGuard"):
                            seq.append("subs")
                    elif ev[0] == "assume" and "Guard" in ev[2]:
                        seq.append("+" if ev[3] else "-")
                    elif ev[0] == "ret":
                        seq.append("ret")
                seqs.add(tuple(seq))
            other = "subs" if want_first == "head" else "head"
            ok = any(s[:3] == (want_first, "+", other) for s in seqs) and all(s[0] == want_first for s in seqs if s)
            ctx.instance("C04.guard-order", site, {"function": site, "loc": F.floc(fid), "paths": sorted(seqs)})
            if not ok:
                ctx.violation("C04.guard-order", site, "%s (%s)" % (site, F.floc(fid)),
                              "region guard combines %s, expected %s && %s" % (sorted(seqs), want_first, other), {})
