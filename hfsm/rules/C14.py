"""C14 — transition and task payloads reach the states they activate unchanged.

Decided: the payload parameter of every `...With` entry point is the payload stored in the queued transition / task; storage is
suitably aligned and sized; constructors with a payload placement-construct it and set the flag, the others do not; payload()
returns the storage iff the flag is set; a task hands its payload to the transition it issues; the kind is the one the name denotes.
Not decided: bytewise faithfulness of copying non-trivially-copyable payloads through the arrays (Transition is copied memberwise).
"""
import re

from ..engine import site_str
from ..ir import AnalysisBroken, walk, strip
from .common import insts, paths_of
from .C12 import _expr_txt, _FN
from . import C02, C04
from ..ir import sym_paths

TEXT = {
    "C14.flow": "in every `...With` member of FullControlT / RP_ / PayloadPlanT and in PayloadPlanT::append the `payload` parameter is the payload argument of "
                "the Transition / Task it constructs (or of the same-kind function it forwards to)",
    "C14.ctor": "TransitionT<P> / TaskT<P> constructors taking a payload placement-construct Payload{payload} into `storage` and set payloadSet{true}; the "
                "payload-less constructors leave payloadSet false; payload() returns reinterpret_cast<const Payload*>(&storage) iff payloadSet",
    "C14.plan": "FullControlT<payload>::updatePlan passes *it->payload() to changeWith when the task carries one, changeTo otherwise",
    "C14.layout": "alignof(TransitionT<P>) >= alignof(P), offsetof(storage) % alignof(P) == 0, sizeof(storage) == sizeof(P); same for TaskT<P>",
    "C14.step-record": "within a processing step currentTransitions only grows by `+= pendingTransitions` on the approved arm (never cleared, overwritten or "
                       "reordered): payloads of earlier approved rounds stay what the states entered later read (same token protocol as C04.round)",
    "C14.name-kind": "the `...With` API constructs the TransitionType its name denotes (same rule instances as C02.name-kind)",
}
MIN_INSTANCES = {"C14.step-record": 2, "C14.flow": 20, "C14.ctor": 4, "C14.plan": 1, "C14.layout": 2, "C14.name-kind": 20}
BUILTIN = {"int": (4, 4), "unsigned int": (4, 4), "float": (4, 4), "double": (8, 8), "char": (1, 1), "long": (8, 8), "short": (2, 2), "bool": (1, 1)}


def declare(ctx):
    for r, t in TEXT.items():
        ctx.rule(r, t)


def check(ctx, F):
    _FN["F"] = F
    check_flow(ctx, F)
    check_pin_owner(ctx, F)
    from . import C07, C03
    # a re-used task slot must not inherit links (and with them another task's payload) from before PlanDataT::clear(): shared instances of C07.reset
    C07.check_reset_plan_data(C03._Alias(ctx, {"C07.reset": "C14.plan"}), F)
    # a replayed record is the replayed list itself, payloads included: shared instances of C09.replay
    if any(bb.get("cls") == "R_" and bb["name"] == "replayTransitions" for bb in F.bodies.values()):
        from . import C09 as _C09
        _C09.check_replay(C03._Alias(ctx, {"C09.replay": "C14.flow"}), F)
    from . import C09
    if any(bb.get("cls") == "R_" and bb["name"] == "lastTransitionTo" for bb in F.bodies.values()):
        C09.check_pin_index(ctx, F, "C14.flow")
    check_ctor(ctx, F)
    check_layout(ctx, F)
    sub = _NameKind(ctx)
    C02.check_name_kind(sub, F)
    from . import C09
    C09.check_append(ctx, F, "C14.step-record")
    for fid, b in insts(F, "R_", {"processTransitions", "initialEnter"}):
        site = "R_::" + b["name"]
        rex = C04.RE_PROCESS if b["name"] == "processTransitions" else C04.RE_INITIAL
        bad = None
        for p in sym_paths(F, fid, 2):
            ts = C04.tokens(F, p)
            if "CX:" in ts or not rex.match(ts):
                bad = ts
        ctx.instance("C14.step-record", site, {"function": site, "loc": F.floc(fid)})
        if bad:
            ctx.violation("C14.step-record", site, "%s (%s)" % (site, F.floc(fid)),
                          "the step's transition record is not append-only / does not follow the round protocol: `%s`" % bad, {})
    for fid, b in insts(F, "FullControlT", {"updatePlan"}):
        txt = [_expr_txt(x) for x in walk(b["body"]) if x.get("k") == "call" and "f" in x and F.fn(x["f"])["name"] in ("changeWith",)]
        if not txt:
            continue
        site = "FullControlT<payload>::updatePlan"
        ctx.instance("C14.plan", site, {"function": site, "loc": F.floc(fid), "calls": txt})
        if txt != ["changeWith(it->destination,*it->payload())"]:
            ctx.violation("C14.plan", site, "%s (%s)" % (site, F.floc(fid)), "task payload is forwarded as %s, expected changeWith(it->destination, *it->payload())" % txt, {})
        conds = [_expr_txt(x.get("cvar", {}).get("init") or x.get("c") or {}) for x in walk(b["body"]) if x.get("k") == "if" and x.get("cvar")]
        if not any(c == "it->payload()" for c in conds):
            ctx.violation("C14.plan", site + "/guard", "%s (%s)" % (site, F.floc(fid)), "changeWith is not guarded by `it->payload()` being set (%s)" % conds, {})


class _NameKind:
    def __init__(self, ctx):
        self.ctx = ctx

    def __getattr__(self, n):
        return getattr(self.ctx, n)

    def instance(self, rule, site, sample=None):
        if "With" in site:
            self.ctx.instance("C14.name-kind", site, sample)

    def violation(self, rule, key, where, msg, detail=None):
        if "With" in key:
            self.ctx.violation("C14.name-kind", key, where, msg, detail)


def check_pin_owner(ctx, F):
    """`lastTransitionTo(s)` finds the request that activated s through transitionTargets[s], pinned while requests are applied.  A later request
    of the same step is forwarded into every marked prong of a common orthogonal ancestor and re-pins the (still inactive) states an earlier
    request is about to activate - unless the pin keeps its first owner.  Necessary condition decided here: the pin store is dominated by a
    test that the slot is still unpinned (== INVALID)."""
    for fid, b in insts(F, "ControlT", {"pinLastTransition"}):
        site = "ControlT::pinLastTransition"
        bad = False
        n = 0
        for p in sym_paths(F, fid, 1):
            conds = []
            for ev in p:
                if ev[0] == "assume":
                    conds.append((ev[2], bool(ev[3])))
                elif ev[0] == "write" and "transitionTargets" in ev[2]:
                    n += 1
                    fresh = any(("transitionTargets" in c and re.search(r"==#(65535|255)\)?$", c) and t) or
                                ("transitionTargets" in c and re.search(r"!=#(65535|255)\)?$", c) and not t) for c, t in conds)
                    if not fresh:
                        bad = True
        if n:
            ctx.instance("C14.flow", site + "/owner", {"function": site, "loc": F.floc(fid)})
            if bad:
                ctx.violation("C14.flow", site + "/overwrite", "%s (%s)" % (site, F.floc(fid)),
                              "the pin of an inactive state is overwritten by every later request of the step that is forwarded through it: after two payload "
                              "requests into different sub-regions of one orthogonal region, lastTransitionTo() of the first request's target yields the second "
                              "request's transition and payload", {})


def check_flow(ctx, F):
    for fid, b in F.bodies.items():
        if not b["inst"] or b.get("cls") not in ("FullControlT", "RP_", "PayloadPlanT"):
            continue
        if not (b["name"].endswith("With") or (b["cls"] == "PayloadPlanT" and b["name"] == "append")):
            continue
        ps = b.get("params", [])
        if not ps or ps[-1]["n"] != "payload":
            continue
        site = "%s::%s/%d" % (b["cls"], b["name"], len(ps))
        sinks = []
        for x in walk(b["body"]):
            if x.get("k") == "ctor":
                t = F.type(x.get("tid"))
                if t and t.get("tmpl") in ("TransitionT", "TaskT") and not x.get("copy") and not x.get("move"):
                    a = [_expr_txt(y) for y in x.get("a", [])]
                    sinks.append(("ctor " + t["tmpl"], a))
            elif x.get("k") == "call" and "f" in x:
                n = F.fn(x["f"])["name"]
                if n.endswith("With") or n in ("append",) or (n == "emplace" and "tasks" in _expr_txt(x.get("obj") or {})):
                    a = [_expr_txt(y) for y in x.get("a", [])]
                    sinks.append(("call " + n, a))
        ctx.instance("C14.flow", site, {"function": site, "loc": F.floc(fid), "sinks": sinks[:3]})
        if not sinks:
            ctx.violation("C14.flow", site, "%s (%s)" % (site, F.floc(fid)), "%s never hands its payload on" % site, {})
        for kind, a in sinks:
            if not a or a[-1] != "payload":
                ctx.violation("C14.flow", site, "%s (%s)" % (site, F.floc(fid)),
                              "%s passes `%s` as the payload of %s, expected its own `payload` parameter" % (site, a[-1] if a else None, kind), {})


def check_ctor(ctx, F):
    for tmpl in ("TransitionT", "TaskT"):
        for t in F.types:
            if t.get("tmpl") != tmpl or not t.get("complete") or t.get("dependent"):
                continue
            if not any(f["n"] == "storage" for f in t.get("fields", [])):
                continue  # <void>
            for c in t.get("ctors", []):
                fid = c["f"]
                b = F.body(fid)
                if b is None or c.get("copy") or c.get("move"):
                    continue
                ps = b.get("params", [])
                has_payload = bool(ps) and ps[-1]["n"] == "payload"
                site = "%s::%s/%d" % (tmpl, tmpl, len(ps))
                sets = None
                for init in b.get("inits", []) or []:
                    if init.get("member") == "payloadSet":
                        sets = _expr_txt(init.get("init"))
                news = [x for x in walk(b["body"]) if x.get("k") == "new"]
                newtxt = [(_expr_txt((x.get("place") or [{}])[0]), _expr_txt(x.get("init") or {})) for x in news]
                ctx.instance("C14.ctor", site, {"function": site, "loc": F.floc(fid), "payloadSet": sets, "placement": newtxt})
                if has_payload:
                    if sets not in ("True", "true", "1"):
                        ctx.violation("C14.ctor", site + "/flag", "%s (%s)" % (site, F.floc(fid)), "payload constructor sets payloadSet to %s" % sets, {})
                    if [(a.replace("this.", ""), v) for a, v in newtxt] != [("&storage", "payload")]:
                        ctx.violation("C14.ctor", site + "/store", "%s (%s)" % (site, F.floc(fid)),
                                      "payload constructor stores %s, expected new (&storage) Payload{payload}" % newtxt, {})
                else:
                    if sets not in ("False", "false", "0"):
                        ctx.violation("C14.ctor", site + "/flag", "%s (%s)" % (site, F.floc(fid)),
                                      "payload-less constructor %s" % ("leaves payloadSet uninitialised" if sets is None else "sets payloadSet to %s" % sets), {})
        for fid, b in insts(F, tmpl, {"payload"}):
            site = "%s::payload" % tmpl
            rets = [_expr_txt(x["e"]) for x in walk(b["body"]) if x.get("k") == "ret" and x.get("e") is not None]
            # what is returned when the flag is set / not set (any spelling of the choice: arms swapped under a negated test, if/else)
            from .common import bexp, truth_table
            table = set()
            rn = [x["e"] for x in walk(b["body"]) if x.get("k") == "ret" and x.get("e") is not None]
            e = strip(rn[0]) if len(rn) == 1 else {}
            if e.get("k") == "cond":
                atoms, tt = truth_table(bexp(F, e["c"], {}))
                if len(atoms) == 1 and "payloadSet" in atoms[0]:
                    def val(n):
                        t = _expr_txt(n)
                        return "storage" if "storage" in t else ("null" if t in ("None", "0", "nullptr") else t)
                    # tt = (value for payloadSet False, value for payloadSet True)
                    table = {(False, val(e["t"] if tt[0] else e["f"])), (True, val(e["t"] if tt[1] else e["f"]))}
            ctx.instance("C14.ctor", site, {"function": site, "loc": F.floc(fid), "returns": rets, "by_flag": sorted(map(str, table))})
            if table != {(True, "storage"), (False, "null")}:
                ctx.violation("C14.ctor", site, "%s (%s)" % (site, F.floc(fid)),
                              "payload() returns %s (by flag: %s), expected payloadSet ? &storage : nullptr" % (rets, sorted(map(str, table))), {})


def size_align(F, arg):
    if isinstance(arg, dict) and "t" in arg:
        t = F.type(arg["t"])
        if t and "size" in t:
            return t["size"], t["align"]
        return None
    if isinstance(arg, str):
        return BUILTIN.get(arg)
    return None


def check_layout(ctx, F):
    for t in F.types:
        if t.get("tmpl") not in ("TransitionT", "TaskT") or not t.get("complete") or "size" not in t:
            continue
        st = [f for f in t.get("fields", []) if f["n"] == "storage"]
        if not st:
            continue
        p = size_align(F, t["args"][0])
        if p is None:
            ctx.note("payload type %s of %s: size/alignment unknown to the checker (layout not judged)" % (t["args"][0], t["tmpl"]))
            continue
        psize, palign = p
        site = "%s<%s>" % (t["tmpl"], F._targ(t["args"][0], 0))
        off = t["offsets"]["storage"]
        ext = st[0].get("extent")
        ctx.instance("C14.layout", site, {"type": site, "sizeof_payload": psize, "alignof_payload": palign, "alignof": t["align"], "offsetof_storage": off,
                                          "sizeof_storage": ext})
        if t["align"] < palign or off % palign != 0 or ext != psize:
            ctx.violation("C14.layout", site, site, "storage of %s does not fit its payload: alignof %d vs %d, offset %d, extent %s vs %d" % (
                site, t["align"], palign, off, ext, psize), {})
