"""C10 — behaviour is a function of inputs, callbacks and random numbers only.

Decided: nothing is read before it is initialised (object, base and member level); no hidden shared state; user-provided copy / move
constructors copy everything; a copy does not keep referring to its original.
Not decided: behavioural equality of two runs as such.
"""
import re

from ..engine import site_str
from ..ir import AnalysisBroken, walk, strip
from .common import insts, paths_of
from .C12 import _expr_txt, _FN

TEXT = {
    "C10.base-order": "if a constructor hands a base initialiser a reference to a base sub-object / member of *this that is initialised later, nothing reachable "
                      "from the earlier base's constructor may call a member of the referent (binding alone is fine: RC_<EmptyContext>)",
    "C10.definite-init": "every scalar / pointer / array-of-scalar data member of every record of the library has a default member initialiser or is initialised by "
                         "every user-provided constructor (aggregates that are always brace-initialised are listed as such)",
    "C10.no-statics": "no namespace-scope, class-static or function-local variable with static / thread storage that is not const / constexpr",
    "C10.copy-complete": "every user-provided copy / move constructor initialises every base and every member from the corresponding part of its argument",
    "C10.output-defined": "a class that read-modify-writes (|=, &=, ^=, +=, -=) storage reached through a reference member bound by its constructor "
                          "(an output buffer handed in by the caller) must clear that storage in every constructor that binds the reference: "
                          "otherwise the answer depends on what the caller's memory held before (BitWriteStreamT / SerialBuffer)",
    "C10.sequenced": "no expression of the library has two operands (call arguments, operands of a binary operator other than && || and the comma, the two "
                     "sides of an assignment) that both have side effects - write through this / a reference / a pointer, or call user code: the order in which "
                     "they are evaluated is unspecified, so which callback runs first (or which write wins) would be the compiler's choice, not a function of the inputs",
    "C10.rebind": "a reference / pointer member bound to a sub-object of the same complete object (static_cast<B&>(*this) handed down a constructor chain; "
                  "&member[...] stored into another member) requires a user-provided copy constructor that re-binds it",
}
MIN_INSTANCES = {"C10.output-defined": 1, "C10.base-order": 2, "C10.definite-init": 30, "C10.no-statics": 1, "C10.copy-complete": 2, "C10.rebind": 1, "C10.sequenced": 500}

# aggregates without constructors whose members are always given at the (brace) construction site — confirmed by reading
BRACE_AGGREGATES = {"Request": "struct Request {type, index}: always constructed as Request{type, index} / {type, index}",
                    "StructureStateInfo": "always constructed with all four members (deepGetNames)",
                    "StructureEntry": "always constructed with all three members (getStateNames)"}


def declare(ctx):
    for r, t in TEXT.items():
        ctx.rule(r, t)


def check(ctx, F):
    _FN["F"] = F
    check_base_order(ctx, F)
    check_definite_init(ctx, F)
    check_statics(ctx, F)
    check_copy_complete(ctx, F)
    check_copy_body(ctx, F)
    check_rebind(ctx, F)
    check_output_defined(ctx, F)
    check_sequenced(ctx, F)
    # ... and what is *read* from caller memory is what the caller handed over: replay reads transitions[i] for i < count only (C09.replay)
    from . import C09, C03, C18
    if any(bb.get("cls") == "StreamBufferT" and bb["name"] == "clear" for bb in F.bodies.values()):
        C18._FN["F"] = F
        C18.check_buffer_clear(ctx, F, "C10.output-defined")
    C09.check_replay_bounds(ctx, F, "C10.output-defined")


def _effectful(F):
    """functions with side effects visible to their caller: declared outside the library (user code, reached through the state types), writing through
    this / a reference or pointer parameter / a non-local, or calling such a function (fixpoint over the resolved callees)"""
    from .. import facts as factsmod
    lib = (factsmod.REPO.rstrip("/") + "/", "/usr/")
    eff = set()

    def writes(b):
        params = {p.get("n"): p for p in b.get("params", [])}
        for x in walk(b.get("body") or {}):
            k = x.get("k")
            if k == "asg" or (k == "un" and x.get("op") in ("++", "--")):
                root = strip(x["lhs"] if k == "asg" else x["e"])
                through = False
                while root.get("k") in ("idx", "mem", "un", "cast", "paren"):
                    if root.get("k") == "un":
                        if root.get("op") != "*":
                            break
                        through = True
                        root = strip(root.get("e") or {})
                        continue
                    if root.get("k") == "mem" and root.get("arrow"):
                        through = True
                    nxt = root.get("b") if root.get("k") in ("idx", "mem") else root.get("e")
                    if nxt is None:
                        break
                    root = strip(nxt)
                rk = root.get("k")
                if rk in ("this", "mem"):
                    return True
                if rk == "var":
                    d = root.get("d")
                    if d == "param":
                        pp = params.get(root.get("n"), {})
                        if pp.get("ref") or (through and pp.get("ptr")) or through:
                            return True
                    elif d != "local" or through:
                        return True
                elif rk == "call":
                    return True
        return False

    for fid, b in F.bodies.items():
        if not b["inst"]:
            continue
        if writes(b):
            eff.add(fid)
    user = {}

    def is_user(f):
        if f not in user:
            loc = F.fn(f).get("loc") or ""
            user[f] = bool(loc) and not loc.startswith(lib)
        return user[f]
    changed = True
    while changed:
        changed = False
        for fid, b in F.bodies.items():
            if fid in eff or not b["inst"]:
                continue
            for x in walk(b.get("body") or {}):
                if x.get("k") in ("call", "ctor") and "f" in x and (x["f"] in eff or (F.body(x["f"]) is None and is_user(x["f"]))):
                    eff.add(fid)
                    changed = True
                    break
    return eff, is_user


def check_sequenced(ctx, F, user_scope=False):
    eff, is_user = _effectful(F)

    def effects(e):
        return [F.fn(x["f"])["name"] for x in walk(e or {})
                if x.get("k") in ("call", "ctor") and "f" in x and (x["f"] in eff or (F.body(x["f"]) is None and is_user(x["f"])))]

    n = 0
    for fid, b in F.bodies.items():
        if not b["inst"] or (not user_scope and is_user(fid)):
            continue
        n += 1
        ctx.instance("C10.sequenced", "%s::%s" % (b.get("cls"), b["name"]), {"function": "%s::%s" % (b.get("cls"), b["name"]), "loc": F.floc(fid)})
        for x in walk(b.get("body") or {}):
            k = x.get("k")
            ops = None
            if k in ("call", "ctor") and not x.get("list"):
                ops = [o for o in [x.get("obj")] + list(x.get("a", [])) if o is not None]
                what = "arguments of the call to %s" % (F.fn(x["f"])["name"] if "f" in x else "?")
            elif k == "bin" and x.get("op") not in ("&&", "||", ","):
                ops = [x.get("lhs"), x.get("rhs")]
                what = "operands of `%s`" % x.get("op")
            elif k == "asg":
                ops = [x.get("lhs"), x.get("rhs")]
                what = "sides of the assignment"
            if not ops:
                continue
            hit = [a for a in (effects(o) for o in ops) if a]
            if len(hit) >= 2:
                site = "%s::%s" % (b.get("cls"), b["name"])
                ctx.violation("C10.sequenced", site + "/" + "+".join(h[0] for h in hit), "%s (%s)" % (site, F.floc(fid)),
                              "two %s have side effects (%s) and their order of evaluation is unspecified: which runs first is the compiler's choice"
                              % (what, " / ".join("+".join(sorted(set(h))) + "()" for h in hit)), {})
    ctx.note("C10.sequenced: %d functions scanned, %d with caller-visible effects" % (n, len(eff)))


def reachable(F, fid, limit=200000):
    seen = set()
    st = [fid]
    while st:
        x = st.pop()
        if x in seen:
            continue
        seen.add(x)
        b = F.body(x)
        if b:
            st.extend(b.get("calls", ()))
            # constructor initialisers call base / member constructors
            for init in b.get("inits", []) or []:
                for n in walk(init.get("init")):
                    if n.get("k") in ("ctor", "call") and "f" in n:
                        st.append(n["f"])
    return seen


def self_refs(F, init):
    """tids of sub-objects of *this referenced by a base initialiser's arguments: static_cast<B&>(*this)"""
    out = []
    for n in walk(init.get("init")):
        if n.get("k") == "cast" and n.get("ck") in ("static", "tobase", "c") and "tid" in n:
            e = strip(n.get("e"))
            if isinstance(e, dict) and e.get("k") == "un" and e.get("op") == "*" and strip(e.get("e")).get("k") == "this":
                out.append(n["tid"])
    return out


def check_base_order(ctx, F):
    for t in F.types:
        if not t.get("complete") or t.get("dependent") or not t.get("inroots"):
            continue
        bases = [b.get("tid") for b in t.get("bases", [])]
        if len(bases) < 2:
            continue
        for c in t.get("ctors", []):
            b = F.body(c["f"])
            if b is None or c.get("copy") or c.get("move"):
                continue
            inits = [i for i in (b.get("inits") or []) if "base" in i]
            order = {i.get("tid"): k for k, i in enumerate(inits)}  # effective order = base declaration order
            decl_order = {tid: k for k, tid in enumerate(bases)}
            for i in inits:
                for ref in self_refs(F, i):
                    if ref not in decl_order or i.get("tid") not in decl_order:
                        continue
                    rt = F.type(ref)
                    site = "%s::%s/base-%s-gets-%s" % (t.get("tmpl") or t["name"], t.get("tmpl") or t["name"], (F.type(i["tid"]) or {}).get("tmpl"), rt.get("tmpl") or rt.get("name"))
                    if decl_order[ref] <= decl_order[i["tid"]]:
                        # referent is an earlier base: constructed before the base that receives it
                        ctx.instance("C10.base-order", site, {"record": F.tname(t["id"], 1)[:140], "loc": F.floc(c["f"]), "referent_initialised_first": True})
                        continue
                    # methods of the referent (and its bases)
                    owners = set([ref] + F.all_bases(ref))
                    ctor_f = None
                    for n in walk(i.get("init")):
                        if n.get("k") == "ctor" and "f" in n:
                            ctor_f = n["f"]
                            break
                    if ctor_f is None:
                        continue
                    uses = []
                    for f in reachable(F, ctor_f):
                        fn = F.fn(f)
                        if fn.get("tid") in owners and fn.get("kind") not in ("ctor", "dtor") and not fn.get("static"):
                            uses.append(F.fdisp(f))
                    ctx.instance("C10.base-order", site, {"record": F.tname(t["id"], 1)[:140], "loc": F.floc(c["f"]), "referent_empty": bool(rt.get("empty")),
                                                          "members_of_referent_reachable": sorted(set(uses))[:5]})
                    if uses and not rt.get("empty"):
                        ctx.violation("C10.base-order", site, "%s (%s)" % (site, F.floc(c["f"])),
                                      "the constructor hands base %s a reference to the later-initialised base %s, and that base's constructor chain can call %s "
                                      "on it before it is constructed (first activation inside the constructor): behaviour depends on what the storage held before" % (
                                          (F.type(i["tid"]) or {}).get("tmpl"), rt.get("tmpl") or rt.get("name"), sorted(set(uses))[:3]), {})


def check_output_defined(ctx, F):
    from ..ir import sym_paths
    for t in F.types:
        if not t.get("complete") or t.get("dependent") or not t.get("inroots"):
            continue
        refs = [f["n"] for f in t.get("fields", []) if f.get("ref") and f.get("n") and "const " not in (f.get("t") or "").split("&")[0]]
        if not refs:
            continue
        rmw = {}
        for fid, b in F.bodies.items():
            if not b["inst"] or b.get("tid") != t["id"] or b.get("kind") in ("ctor", "dtor"):
                continue
            for p in sym_paths(F, fid, 1):
                ctx.paths += 1
                for ev in p:
                    # read-modify-write: a compound assignment, or `x = f(x)` (the stored value mentions the place it is stored to)
                    if ev[0] == "write" and ((ev[1].get("op") or "=") != "=" or (ev[2] and ev[3] and ev[2] in ev[3])):
                        for r in refs:
                            if ev[2].startswith("this.%s." % r) or ev[2].startswith("this.%s[" % r):
                                rmw.setdefault(r, set()).add("%s: %s %s" % (b["name"], ev[2][:60], ev[1].get("op") if (ev[1].get("op") or "=") != "=" else "= f(self)"))
        for r, sites in sorted(rmw.items()):
            name = t.get("tmpl") or t["name"]
            site = "%s::%s" % (name, r)
            ctors = [c for c in t.get("ctors", []) if not c.get("copy") and not c.get("move") and F.body(c["f"]) is not None]
            ctx.instance("C10.output-defined", site, {"record": name, "reference_member": r, "read_modify_writes": sorted(sites)[:4], "constructors": len(ctors)})
            for c in ctors:
                b = F.body(c["f"])
                binds = any(i.get("member") == r for i in (b.get("inits") or []))
                if not binds:
                    continue
                from .C08 import clears_on_every_path
                if not clears_on_every_path(F, c["f"], r):
                    ctx.violation("C10.output-defined", site, "%s::%s (%s)" % (name, name, F.floc(c["f"])),
                                  "%s read-modify-writes the caller's storage behind the reference member `%s` (%s) but its constructor does not clear it on every path: "
                                  "the result depends on the previous content of that memory" % (name, r, sorted(sites)[0]), {})


def scalar_field(f):
    if f.get("ref"):
        return False
    if f.get("tid") is not None and not f.get("ptr"):
        return False          # class type (or array of class type): its own constructor is responsible
    return True


def check_definite_init(ctx, F):
    seen_patterns = set()
    for t in F.types:
        if not t.get("complete") or t.get("dependent") or not t.get("inroots"):
            continue
        key = (t.get("tmpl") or t["name"], t.get("partial") or t.get("primary") or t.get("loc"))
        fields = [f for f in t.get("fields", []) if scalar_field(f) and f.get("n")]
        if not fields:
            continue
        name = t.get("tmpl") or t["name"]
        if not name:
            continue      # anonymous union / struct: judged through the enclosing record's initialisers
        site_base = "%s@%s" % (name, F.spec(t["id"]) or "")
        user_ctors = [c for c in t.get("ctors", []) if c.get("user") and not c.get("copy") and not c.get("move")]
        need = [f for f in fields if not f.get("init")]
        if key not in seen_patterns:
            seen_patterns.add(key)
        ctx.instance("C10.definite-init", site_base, {"record": name, "loc": t.get("loc"), "scalar_fields": [f["n"] for f in fields],
                                                      "without_default_initialiser": [f["n"] for f in need]})
        if not need:
            continue
        if not user_ctors:
            if name in BRACE_AGGREGATES:
                ctx.note("aggregate %s: %s" % (name, BRACE_AGGREGATES[name]))
                continue
            # implicit / defaulted construction leaves them indeterminate unless value-initialised at every site
            for f in need:
                ctx.violation("C10.definite-init", "%s/%s" % (site_base, f["n"]), "%s (%s)" % (name, t.get("loc")),
                              "member `%s` of %s has no default member initialiser and the record has no user-provided constructor: its value is whatever the "
                              "storage held" % (f["n"], name), {})
            continue
        for c in user_ctors:
            b = F.body(c["f"])
            if c.get("implicit") and (b is None or not (b.get("inits") or [])):
                # an inherited constructor (`using Base::Base;`): it initialises the base and leaves every member of this record to its default
                # member initialiser - a member without one stays indeterminate on this way of constructing the object
                for f in need:
                    ctx.violation("C10.definite-init", "%s/%s" % (site_base, f["n"]), "%s (%s)" % (name, t.get("loc")),
                                  "member `%s` of %s has no default member initialiser and the record inherits its base's constructors (%d parameters): "
                                  "objects built through them carry whatever the storage held" % (f["n"], name, c.get("nparams", 0)), {})
                continue
            if b is None:
                continue
            inited = set(i.get("member") for i in (b.get("inits") or []) if i.get("member") and i.get("written"))
            # assignments in the body also count
            for x in walk(b.get("body") or {}):
                if x.get("k") == "asg":
                    l = strip(x["lhs"])
                    if l.get("k") == "mem" and strip(l.get("b") or {}).get("k") == "this":
                        inited.add(l["n"])
            for f in need:
                if f["n"] not in inited:
                    ctx.violation("C10.definite-init", "%s/%s" % (site_base, f["n"]), "%s (%s)" % (name, F.floc(c["f"])),
                                  "constructor of %s (%d parameters) leaves member `%s` uninitialised (no default member initialiser either)" % (
                                      name, c.get("nparams", 0), f["n"]), {})


def check_statics(ctx, F):
    n = 0
    for g in F.raw.get("globals", []):
        n += 1
        if g.get("const") and not g.get("tls"):
            continue
        if g.get("dependent"):
            # a pattern's static member: judged on its instantiations
            pass
        ctx.violation("C10.no-statics", "global/" + g["n"].split("<")[0], g.get("loc", ""),
                      "mutable variable with static storage `%s` (%s): shared hidden state between instances" % (g["n"][:80], g.get("t", "")[:60]), {})
    for b in F.bodies.values():
        for x in walk(b.get("body") or {}):
            if x.get("k") == "decl":
                for v in x["vars"]:
                    if (v.get("static") or v.get("tls")) and not v.get("const") and not v.get("constexpr"):
                        ctx.violation("C10.no-statics", "local/%s::%s/%s" % (b.get("cls"), b["name"], v["n"]), "%s (%s)" % (site_str(F, b["id"]), F.floc(b["id"])),
                                      "function-local static `%s` in %s" % (v["n"], site_str(F, b["id"])), {})
    ctx.instance("C10.no-statics", "globals", {"static_storage_variables_seen": n})


def check_copy_complete(ctx, F):
    # instantiated records, and the class-template *patterns* as well: a copy / move constructor no witness instantiates (the library's
    # InstanceT cannot be move-constructed by a user program at all) still has its member-initialiser list in the pattern
    done = set()
    for t in sorted(F.types, key=lambda t: bool(t.get("pattern"))):
        if not t.get("complete") or not t.get("inroots") or (t.get("dependent") and not t.get("pattern")):
            continue
        for c in t.get("ctors", []):
            if not (c.get("copy") or c.get("move")) or not c.get("user"):
                continue
            b = F.body(c["f"])
            if b is None:
                continue
            if t.get("pattern") and ((t.get("tmpl") or t["name"]), bool(c.get("copy"))) in done:
                continue
            done.add(((t.get("tmpl") or t["name"]), bool(c.get("copy"))))
            name = t.get("tmpl") or t["name"]
            kind = "copy" if c.get("copy") else "move"
            site = "%s::%s(%s)" % (name, name, kind)
            pname = (b.get("params") or [{}])[0].get("n", "other")
            fields = [f["n"] for f in t.get("fields", []) if f.get("n")]
            bases = [bb.get("tid") for bb in t.get("bases", []) if not bb.get("empty")]
            got = {}
            gotb = set()
            for i in b.get("inits") or []:
                if not i.get("written"):
                    continue
                txt = _expr_txt(i.get("init"))
                if i.get("member"):
                    got[i["member"]] = txt
                elif "base" in i:
                    gotb.add(i.get("tid"))
            ctx.instance("C10.copy-complete", site, {"record": name, "loc": F.floc(c["f"]), "members": fields, "copied": sorted(got)})
            for f in fields:
                want = ("%s.%s" % (pname, f), "move(%s.%s)" % (pname, f))
                if f not in got:
                    ctx.violation("C10.copy-complete", site + "/" + f, "%s (%s)" % (site, F.floc(c["f"])),
                                  "the %s constructor of %s does not copy member `%s`: the copy starts with a default value there and does not continue as "
                                  "the original would" % (kind, name, f), {})
                elif got[f].replace("this.", "") not in want and not re.sub(r"\s", "", got[f]).endswith("%s.%s)" % (pname, f)) and got[f] != want[0]:
                    ctx.violation("C10.copy-complete", site + "/" + f + "/src", "%s (%s)" % (site, F.floc(c["f"])),
                                  "member `%s` is copied from `%s`, expected %s.%s" % (f, got[f], pname, f), {})
            for bt in bases:
                if bt not in gotb:
                    ctx.violation("C10.copy-complete", site + "/base", "%s (%s)" % (site, F.floc(c["f"])),
                                  "the %s constructor of %s does not copy its base %s" % (kind, name, F.tname(bt, 0)), {})


def this_writes(F, fid, seen=None):
    """fields of *this that `fid` may write, transitively through calls on this / on members (syntactic, may-analysis)"""
    seen = seen if seen is not None else set()
    if fid in seen:
        return set()
    seen.add(fid)
    b = F.body(fid)
    if b is None:
        return set()

    def root_field(e):
        """outermost member of *this on the access path of e, or None"""
        e = strip(e)
        f = None
        while isinstance(e, dict):
            k = e.get("k")
            if k == "mem":
                base = strip(e.get("b") or {})
                if base.get("k") == "this" or (base.get("k") == "cast" and strip(base.get("e") or {}).get("k") == "this"):
                    return e.get("n")
                e = base
            elif k in ("idx",):
                e = strip(e.get("b") or {})
            elif k == "call" and e.get("op") == "[]":
                e = strip(e.get("obj") or (e.get("a") or [{}])[0])
            elif k == "cast" or k == "paren":
                e = strip(e.get("e") or {})
            elif k == "un" and e.get("op") == "*":
                e = strip(e.get("e") or {})
            else:
                return f
        return f

    w = set()
    for x in walk(b.get("body") or {}):
        k = x.get("k")
        if k == "asg":
            f = root_field(x.get("lhs"))
            if f:
                w.add(f)
        elif k == "un" and x.get("op") in ("++", "--"):
            f = root_field(x.get("e"))
            if f:
                w.add(f)
        elif k == "call" and "f" in x:
            cf = F.fn(x["f"])
            o = strip(x.get("obj") or {})
            on_this = o.get("k") == "this" or (o.get("k") == "cast" and strip(o.get("e") or {}).get("k") == "this")
            if on_this or (x.get("obj") is None and cf.get("cls") == b.get("cls") and not cf.get("static")):
                w |= this_writes(F, x["f"], seen)
            elif x.get("obj") is not None and not cf.get("const") and cf.get("kind") != "ctor":
                f = root_field(x.get("obj"))
                if f and cf["name"] not in ("operator[]", "begin", "end", "get", "count"):
                    w.add(f)
            if x.get("op") in ("=", "|=", "&=", "^=", "+=", "-=") and x.get("a"):
                f = root_field(x["a"][0])
                if f:
                    w.add(f)
    return w


def check_copy_body(ctx, F):
    """a user-provided copy / move constructor leaves what its initialisers copied alone: its body (and whatever it calls on *this) writes no member,
    except members of pointer type (re-binding a self reference) - otherwise the copy no longer answers or continues as the original would"""
    done = set()
    for t in F.types:
        if not t.get("complete") or not t.get("inroots") or t.get("dependent"):
            continue
        for c in t.get("ctors", []):
            if not (c.get("copy") or c.get("move")) or not c.get("user"):
                continue
            b = F.body(c["f"])
            if b is None or not b.get("inst"):
                continue
            name = t.get("tmpl") or t["name"]
            kind = "copy" if c.get("copy") else "move"
            key = (name, F.spec(t["id"]) if hasattr(F, "spec") else "", kind)
            site = "%s::%s(%s)/body" % (name, name, kind)
            w = this_writes(F, c["f"])
            ctx.instance("C10.copy-complete", site, {"record": name, "loc": F.floc(c["f"]), "members_written_by_the_body": sorted(w)})
            if w and key not in done:
                done.add(key)
                ctx.violation("C10.copy-complete", site, "%s (%s)" % (site, F.floc(c["f"])),
                              "the body of the %s constructor of %s (or a member it calls) writes %s after the initialisers copied them: the copy does not "
                              "start out as the original is" % (kind, name, ", ".join("`%s`" % f for f in sorted(w))), {})


def check_rebind(ctx, F):
    for t in F.types:
        if not t.get("complete") or t.get("dependent") or not t.get("inroots"):
            continue
        name = t.get("tmpl") or t["name"]
        # (a) a constructor hands a self reference down to a base
        selfref = None
        for c in t.get("ctors", []):
            b = F.body(c["f"])
            if b is None or c.get("copy") or c.get("move"):
                continue
            for i in b.get("inits") or []:
                if "base" in i:
                    for ref in self_refs(F, i):
                        rt = F.type(ref)
                        if rt and not rt.get("empty"):
                            selfref = (c["f"], rt.get("tmpl") or rt.get("name"))
        if selfref:
            site = "%s/self-reference-to-%s" % (name, selfref[1])
            user_copy = any(c.get("copy") and c.get("user") for c in t.get("ctors", []))
            deleted = any(c.get("copy") and c.get("deleted") for c in t.get("ctors", []))
            ctx.instance("C10.rebind", site, {"record": F.tname(t["id"], 1)[:140], "loc": F.floc(selfref[0]), "user_copy": user_copy, "copy_deleted": deleted})
            if not user_copy and not deleted:
                ctx.violation("C10.rebind", site, "%s (%s)" % (name, F.floc(selfref[0])),
                              "%s binds a reference to its own %s sub-object into a base, but its copy constructor is implicit: a copy keeps using the "
                              "original's %s" % (name, selfref[1], selfref[1]), {})
    # (b) address of an own member stored into another own member (syntactic: assignment whose target is rooted at a member of *this and
    #     whose value contains &x with x rooted at a member of *this, directly or through a reference local)
    def root_member(e, reflocals):
        e = strip(e)
        while isinstance(e, dict):
            k = e.get("k")
            if k == "mem":
                bb = strip(e.get("b") or {})
                if bb.get("k") == "this":
                    return e["n"]
                e = bb
            elif k == "idx":
                e = strip(e["b"])
            elif k == "call" and e.get("obj") is not None and e.get("op") in ("[]", None):
                e = strip(e["obj"])
            elif k == "var" and e.get("d") == "local":
                return reflocals.get(e["n"])
            elif k in ("ctor",) and len(e.get("a", [])) == 1:
                e = strip(e["a"][0])
            else:
                return None
        return None

    for fid, b in F.bodies.items():
        if not b["inst"] or b.get("cls") not in ("R_", "RV_", "RP_", "RC_", "InstanceT", "CoreT", "PlanDataT", "RegistryT"):
            continue
        reflocals = {}
        for x in walk(b.get("body") or {}):
            if x.get("k") == "decl":
                for v in x["vars"]:
                    if v.get("ref") and v.get("init") is not None:
                        rm = root_member(v["init"], reflocals)
                        if rm:
                            reflocals[v["n"]] = rm
        for x in walk(b.get("body") or {}):
            tgt = None
            val = None
            if x.get("k") == "asg":
                tgt, val = x["lhs"], x["rhs"]
            elif x.get("k") == "call" and x.get("op") == "=" and x.get("obj") is not None:
                tgt, val = x["obj"], (x.get("a") or [None])[0]
            if tgt is None or val is None:
                continue
            m1 = root_member(tgt, reflocals)
            if not m1:
                continue
            for y in walk(val):
                if y.get("k") == "un" and y.get("op") == "&":
                    m2 = root_member(y["e"], reflocals)
                    if m2:
                        t = F.type(b.get("tid"))
                        name = t.get("tmpl") or t["name"]
                        site = "%s/pointer-into-self@%s" % (name, b["name"])
                        user_copy = any(c.get("copy") and c.get("user") for c in t.get("ctors", []))
                        ctx.instance("C10.rebind", site, {"function": site_str(F, fid), "loc": F.floc(fid), "stored": "&%s..." % m2, "into": m1})
                        if not user_copy:
                            ctx.violation("C10.rebind", site, "%s (%s)" % (site_str(F, fid), F.floc(fid)),
                                          "%s stores the address of its own member `%s` into its member `%s` but its copy constructor is defaulted: a copy's "
                                          "pointers keep pointing into the original" % (name, m2, m1), {})


# planted positive examples (witness/canary.cpp)
def _canary_sequenced(ctx, F):
    check_sequenced(ctx, F, user_scope=True)


CANARY = {"check": [check_statics, _canary_sequenced],
          "expect": ["C10.no-statics|global/canary::g_counter", "C10.no-statics|global/canary::g_tls", "C10.no-statics|local/None::next_id/id",
                     "C10.sequenced|None::two_draws", "C10.sequenced|None::sum_draws"],
          "forbid": ["::ordered_draws", "::either"]}

