"""C18 — bit arrays and bit streams are exact for every index, width, value and alignment.

Decided: each single-index operation touches exactly one storage unit with a one-bit mask derived from the same divisor as the unit
index; whole-array operations visit every unit and do nothing else; views test full units plus a masked tail computed from the width;
writer and reader of the stream use the same cursor arithmetic, advance by the chunk width, and no index derived from the cursor is
narrowed; buffer comparison visits all bytes.
Not decided: the round-trip equality for every (width, value, alignment) sequence and the set-algebra laws as value equalities.
"""
import re

from ..engine import site_str
from ..ir import AnalysisBroken, walk, strip, is_noop
from .C12 import _FN

TEXT = {
    "C18.single-bit": "the get / set / clear members of BitArrayT, Bits and CBits (static and dynamic index) reduce to `(_storage[i/8] & (1 << i%8)) != 0`, "
                      "`_storage[i/8] |= 1 << i%8`, `_storage[i/8] &= ~(1 << i%8)` — one unit, one-bit mask from the same index — and write nothing else",
    "C18.whole": "BitArrayT::set / clear / empty / operator!= / operator& / operator&= visit every unit (range-for over _storage or i < UNIT_COUNT) with the "
                 "canonical body and contain no other statement",
    "C18.views": "Bits / CBits::operator bool test _width/8 full units and the tail `_storage[_width/8] & ((1 << _width%8) - 1)`; Bits::clear() visits "
                 "exactly ceil(_width/8) units; bits() / cbits() return {_storage + unit, width}",
    "C18.stream": "BitWriteStreamT::write and BitReadStreamT::read share the cursor atoms (byteIndex = _cursor >> 3, start = _cursor & 7, chunk = min(8 - start, "
                  "remaining), _cursor += chunk, remaining -= chunk); the written byte is |= value << start, the read chunk is (byte >> start) & ((1 << chunk) - 1) "
                  "placed at the running item offset; no local derived from _cursor is narrower than _cursor",
    "C18.compare": "StreamBufferT::operator== / != compare all BYTE_COUNT bytes; StreamBufferT::clear() zeroes all of them",
    "C18.helpers": "contain() (round-up division: the unit count of every bit array and view), bitContain(), min / max return the exact value for every "
                   "boundary argument of the types they are instantiated with (static_assert witness decided by clang -fsyntax-only)",
}
MIN_INSTANCES = {"C18.helpers": 3, "C18.single-bit": 14, "C18.whole": 5, "C18.views": 2, "C18.stream": 2, "C18.compare": 2}


def declare(ctx):
    for r, t in TEXT.items():
        ctx.rule(r, t)


# ------------------------------------------------------------------------------------------------ precise printing with definition substitution


def px(e, defs=None, depth=0):
    """fully parenthesised text of an expression; const locals are replaced by their definitions"""
    e = strip(e)
    if not isinstance(e, dict) or depth > 40:
        return "?"
    defs = defs or {}
    k = e.get("k")
    if k == "var":
        n = e["n"]
        if e.get("d") == "local" and n in defs:
            return px(defs[n], defs, depth + 1)
        return n
    if k == "lit":
        v = e.get("v")
        return str(v)
    if k == "mem":
        if not e.get("n"):
            return px(e.get("b"), defs, depth + 1)
        b = px(e.get("b"), defs, depth + 1) if e.get("b") is not None else ""
        return e["n"] if b in ("this", "") else b + "." + e["n"]
    if k == "dep":
        b = px(e["b"], defs, depth + 1) if e.get("b") is not None else ""
        return e.get("n", "?") if b in ("this", "") else b + "." + e.get("n", "?")
    if k == "idx":
        return px(e["b"], defs, depth + 1) + "[" + px(e["i"], defs, depth + 1) + "]"
    if k in ("bin", "asg"):
        op = e["op"]
        l, r = px(e["lhs"], defs, depth + 1), px(e["rhs"], defs, depth + 1)
        if op == ">>" and r == "3" and k == "bin":
            op, r = "/", "8"
        if op == "&" and r in ("7", "0x7") and k == "bin":
            op, r = "%", "8"
        if k == "asg" and op == "=":
            # `x = x op y` (possibly through a cast back to x's type) is the compound assignment `x op= y`; also `y op x` for commutative ops
            rr = strip(e["rhs"])
            if isinstance(rr, dict) and rr.get("k") == "bin" and rr.get("op") in ("|", "&", "^", "+", "-", "<<", ">>"):
                a, b2 = px(rr["lhs"], defs, depth + 1), px(rr["rhs"], defs, depth + 1)
                if a == l:
                    return l + rr["op"] + "=" + b2
                if b2 == l and rr["op"] in ("|", "&", "^", "+"):
                    return l + rr["op"] + "=" + a
        s = l + op + r
        return "(" + s + ")" if k == "bin" else s
    if k == "un":
        if e["op"] in ("++", "--"):
            return e["op"] + px(e["e"], defs, depth + 1)
        return "(" + e["op"] + px(e["e"], defs, depth + 1) + ")"
    if k == "call":
        F = _FN.get("F")
        name = F.fn(e["f"])["name"] if F and "f" in e else px(e.get("callee") or {}, defs, depth + 1)
        args = ",".join(px(a, defs, depth + 1) for a in e.get("a", []))
        if e.get("op") and e.get("obj") is not None:
            return px(e["obj"], defs, depth + 1) + e["op"] + args
        return name + "(" + args + ")"
    if k in ("ctor", "ilist"):
        a = e.get("a", [])
        return px(a[0], defs, depth + 1) if len(a) == 1 else "{" + ",".join(px(x, defs, depth + 1) for x in a) + "}"
    if k == "cond":
        return "(" + px(e["c"], defs, depth + 1) + "?" + px(e["t"], defs, depth + 1) + ":" + px(e["f"], defs, depth + 1) + ")"
    if k == "zero":
        return "0"
    if k == "this":
        return "this"
    return "<%s>" % k


def const_locals(body):
    """local name -> init expr for locals that are never re-assigned"""
    defs = {}
    assigned = set()
    for x in walk(body):
        if x.get("k") == "decl":
            for v in x["vars"]:
                if v.get("init") is not None:
                    defs[v["n"]] = v["init"]
        elif x.get("k") == "asg":
            l = strip(x["lhs"])
            if l.get("k") == "var":
                assigned.add(l["n"])
        elif x.get("k") == "un" and x.get("op") in ("++", "--"):
            l = strip(x["e"])
            if l.get("k") == "var":
                assigned.add(l["n"])
    return {k: v for k, v in defs.items() if k not in assigned}


def effects(body, defs):
    """ordered list of effect statements (assignments / returns) as precise text"""
    out = []
    for x in walk(body):
        k = x.get("k")
        if k == "asg":
            out.append(px(x, defs))
        elif k == "ret" and x.get("e") is not None:
            out.append("return " + px(x["e"], defs))
        elif k == "un" and x.get("op") in ("++", "--"):
            out.append(px(x, defs))
        elif k == "call" and x.get("op") in ("=", "|=", "&=", "+=", "-="):
            out.append(px(x, defs))
    return out


def norm_index(t):
    t = re.sub(r"\bINDEX\b", "X", t)
    t = re.sub(r"\bNIndex\b", "X", t)
    t = re.sub(r"\bindex\b", "X", t)
    return t


def pick(F, cls, name, outer=None, nparams=None, template=None):
    """one body per overload: prefer the uninstantiated pattern (covers members the zoo never instantiates)"""
    out = {}
    for fid, b in F.bodies.items():
        if b.get("cls") != cls or b["name"] != name:
            continue
        t = F.type(b.get("tid")) or {}
        if outer is not None and t.get("outername") != outer:
            continue
        if outer is None and cls == "BitArrayT" and t.get("outername"):
            continue
        if not [x for x in (b.get("body") or {}).get("s", []) if not is_noop(x)]:
            continue      # the empty stubs of the zero-capacity specialisation
        key = (len(b.get("params", [])), bool(b.get("ftargs")) or (not b["inst"] and any(True for _ in ())))
        pkey = b.get("pat")
        cur = out.get(pkey)
        if cur is None or (cur[1]["inst"] and not b["inst"]):
            out[pkey] = (fid, b)
    return list(out.values())


def check(ctx, F):
    _FN["F"] = F
    check_single(ctx, F)
    check_whole(ctx, F)
    check_views(ctx, F)
    from . import C11, C08
    C11.check_views(ctx, F, rule="C18.views")          # Bits::clear() covers exactly ceil(_width / 8) units; bits()/cbits() address {unit, width}
    check_stream(ctx, F)
    # the writer ORs chunks into the buffer: what is read back equals what was written only if it starts from a cleared buffer on every path
    for fid, b in F.bodies.items():
        if b["inst"] and b.get("cls") == "BitWriteStreamT" and b.get("kind") == "ctor" and not any(c in (b.get("sig") or "") for c in ("const BitWriteStreamT", "BitWriteStreamT &&")):
            if len(b.get("params", [])) < 1:
                continue
            site = "BitWriteStreamT::BitWriteStreamT/clear"
            ctx.instance("C18.stream", site, {"function": site, "loc": F.floc(fid)})
            if not C08.clears_on_every_path(F, fid, "_buffer"):
                ctx.violation("C18.stream", site, "BitWriteStreamT::BitWriteStreamT (%s)" % F.floc(fid),
                              "write() ORs chunks into the buffer but the constructor does not clear it on every path: values read back merge with stale bits", {})
    check_compare(ctx, F)
    check_buffer_clear(ctx, F)


SINGLE_WANT = {
    "get": ["return ((_storage[(X/8)]&(1<<(X%8)))!=0)"],
    "set": ["_storage[(X/8)]|=(1<<(X%8))"],
    "clear": ["_storage[(X/8)]&=(~(1<<(X%8)))"],
}


def check_single(ctx, F, classes=None):
    for cls, outer in (("BitArrayT", None), ("Bits", "BitArrayT"), ("CBits", "BitArrayT")):
        if classes and cls not in classes:
            continue
        for name in ("get", "set", "clear"):
            for fid, b in pick(F, cls, name, outer):
                dyn = bool(b.get("params"))
                static = not dyn and any(v["n"] == "INDEX" for x in walk(b["body"]) if x.get("k") == "decl" for v in x["vars"])
                if not dyn and not static:
                    continue       # the whole-array set() / clear()
                site = "%s::%s%s" % (cls, name, "(index)" if dyn else "<INDEX>()")
                defs = const_locals(b["body"])
                eff = [norm_index(t) for t in effects(b["body"], {k: v for k, v in defs.items() if k not in ("INDEX",)})]
                ctx.instance("C18.single-bit", site, {"function": site, "loc": F.floc(fid), "normal_form": eff})
                if eff != SINGLE_WANT[name]:
                    ctx.violation("C18.single-bit", site, "%s (%s)" % (site, F.floc(fid)),
                                  "%s reduces to %s, expected %s (exactly one unit, one-bit mask from the same index)" % (site, eff, SINGLE_WANT[name]), {})


def loop_form(F, b):
    """(kind, bound text, [effect texts inside the loop], [effect texts outside])"""
    body = b["body"]
    loops = [x for x in walk(body) if x.get("k") in ("for", "rfor", "while")]
    defs = const_locals(body)
    if len(loops) != 1:
        return None
    l = loops[0]
    if l["k"] == "rfor":
        kind = "each " + px(l.get("range") or {}, defs)
        bound = ""
        var = l["var"]["n"]
    else:
        kind = "for"
        bound = px(l.get("c") or {}, defs)
        var = None
    inner_nodes = set(id(x) for x in walk(l))
    inner = []
    outer = []
    conds = ["if " + px(x["c"], defs) for x in walk(l.get("b") or {}) if x.get("k") == "if"]
    outer_conds = ["if " + px(x["c"], defs) for x in walk(body) if x.get("k") == "if" and id(x) not in inner_nodes]
    for x in walk(body):
        k = x.get("k")
        t = None
        if k == "asg":
            t = px(x, defs)
        elif k == "ret" and x.get("e") is not None:
            t = "return " + px(x["e"], defs)
        elif k == "un" and x.get("op") in ("++", "--"):
            t = px(x, defs)
        if t is None:
            continue
        (inner if id(x) in inner_nodes else outer).append(t)
    return kind, bound, conds + inner, outer_conds + outer


# ------------------------------------------------------------------------------------------------ unit loops as normal forms
# A whole-array / whole-view member is `for every unit i in [0, bound): <effect or early return>` followed by a tail.  Its normal form does
# not depend on how the loop is spelt (range-for / index for / while), what the locals are called, whether the test is written `a != b` or
# `!(a == b)`, or whether a guard is an early return: the element is always `<container>[i]`, conditions are truth tables over comparison
# atoms (rules/common.py), the tail is the boolean function it returns.

COUNT_OF = {"_storage": "UNIT_COUNT", "_data": "BYTE_COUNT"}
T, Fa = True, False


def _bx(F, e, defs):
    from .common import bexp, truth_table
    return truth_table(bexp(F, e, defs))


def unit_loop_nf(F, b):
    """-> dict(bound, effects, hit, hit_value, tail) or None when the body is not one loop over the units"""
    from ..ir import const_local_defs
    body = b["body"]
    loops = [x for x in walk(body) if x.get("k") in ("for", "rfor", "while")]
    if len(loops) != 1:
        return None
    l = loops[0]
    defs = dict(const_local_defs(body))
    if l["k"] == "rfor":
        rng = px(l.get("range") or {}, {})
        rng = re.sub(r"^this\.", "", rng)
        bound = COUNT_OF.get(rng, "count(%s)" % rng)
        defs[l["var"]["n"]] = {"k": "idx", "b": l.get("range"), "i": {"k": "var", "n": "i", "d": "param"}}
    elif l["k"] == "for":
        iv = None
        init = l.get("init") or {}
        for x in walk(init):
            if x.get("k") == "decl":
                for v in x["vars"]:
                    if v.get("init") is not None and strip(v["init"]).get("cv", strip(v["init"]).get("v")) in (0, "0"):
                        iv = v["n"]
        c = strip(l.get("c") or {})
        if iv is None or c.get("k") != "bin" or c.get("op") not in ("<", "!=") or strip(c["lhs"]).get("n") != iv:
            return None
        bound = px(c["rhs"], {k: v for k, v in defs.items() if k != iv})
        defs[iv] = {"k": "var", "n": "i", "d": "param"}
        defs.pop("i", None) if iv == "i" else None
        if iv == "i":
            defs.pop("i", None)
    else:
        return None
    inner = set(id(x) for x in walk(l))
    # inside: either effects (assignments) or one early return under a condition
    effects, hits = [], []
    for x in walk(l.get("b") or {}):
        if x.get("k") == "asg":
            effects.append(re.sub(r"\bthis\.", "", px(x, defs)))
        elif x.get("k") == "if":
            rets = [y for y in walk(x.get("t") or {}) if y.get("k") == "ret"]
            if len(rets) == 1 and x.get("e") is None:
                v = strip(rets[0].get("e") or {})
                hits.append((_bx(F, x["c"], defs), v.get("cv", v.get("v"))))
            else:
                hits.append(("?", None))
    # the tail: what is returned after the loop, as one expression (`if (g) return a; ...; return b;` is g ? a : b)
    tail = None
    top = body.get("s", []) if body.get("k") == "seq" else [body]
    after = []
    seen_loop = False
    for st in top:
        if any(y is l for y in walk(st)):
            seen_loop = True
            continue
        if seen_loop:
            after.append(st)
    expr = None
    for st in reversed(after):
        if st.get("k") == "ret" and st.get("e") is not None:
            expr = st["e"]
        elif st.get("k") == "if" and st.get("e") is None and expr is not None:
            rs = [y for y in walk(st.get("t") or {}) if y.get("k") == "ret" and y.get("e") is not None]
            if len(rs) != 1:
                return None
            expr = {"k": "cond", "c": st["c"], "t": rs[0]["e"], "f": expr, "ty": "bool"}
        elif st.get("k") == "decl" or is_noop(st):
            continue
        else:
            return None
    if expr is not None:
        e = strip(expr)
        if e.get("k") in ("lit",) or ("cv" in e and e.get("k") not in ("bin", "cond")):
            tail = ("const", bool(e.get("cv", e.get("v"))))
        else:
            tail = _bx(F, expr, defs)
    return {"bound": bound, "effects": sorted(effects), "hits": hits, "tail": tail}


def _tt(F, expr):
    """truth table of a hand-written boolean structure over atom texts"""
    from .common import truth_table
    return truth_table(expr)


A = lambda t: ("atom", t)
N = lambda x: ("not", x)

WHOLE_NF = {
    "set": {"bound": "UNIT_COUNT", "effects": [["_storage[i]=255"], ["_storage[i]=UINT8_MAX"]], "hits": [], "tail": None},
    "clear": {"bound": "UNIT_COUNT", "effects": [["_storage[i]=0"]], "hits": [], "tail": None},
    "empty": {"bound": "UNIT_COUNT", "effects": [[]], "hits": [(N(A("0==_storage[i]")), False)], "tail": ("const", True)},
    "operator!=": {"bound": "UNIT_COUNT", "effects": [[]], "hits": [(N(A("_storage[i]==other._storage[i]")), True)], "tail": ("const", False)},
    # `a & b` (bool) is "the two sets intersect": true at the first unit with a common index, false after the last.  (Until fix #40 this entry
    # described the library's loop - false at the first unit *without* a common index - i.e. it had frozen a defect; the property says
    # "and ... behaves as the corresponding set operation", and no set predicate depends on the storage granularity.)
    "operator&": {"bound": "UNIT_COUNT", "effects": [[]], "hits": [(N(A("(_storage[i]&other._storage[i])==0")), True)], "tail": ("const", False)},
    "operator&=": {"bound": "UNIT_COUNT", "effects": [["_storage[i]&=other._storage[i]"]], "hits": [], "tail": None},
}


def _nf_matches(F, nf, want):
    from .common import truth_table
    if nf is None:
        return False
    if nf["bound"].replace("this.", "") != want["bound"]:
        return False
    if nf["effects"] not in [sorted(e) for e in want["effects"]]:
        return False
    if len(nf["hits"]) != len(want["hits"]):
        return False
    for (tt, v), (wexpr, wv) in zip(nf["hits"], want["hits"]):
        if tt == "?" or tt != truth_table(wexpr) or bool(v) != wv:
            return False
    wt = want["tail"]
    if wt is None:
        return nf["tail"] is None
    tails = wt if isinstance(wt, list) else [wt]
    for t in tails:
        if t[0] == "const":
            if nf["tail"] == t:
                return True
        elif nf["tail"] == truth_table(t):
            return True
    return False


def check_whole(ctx, F):
    for name, want in WHOLE_NF.items():
        for fid, b in pick(F, "BitArrayT", name):
            if b.get("params") and name in ("set", "clear"):
                continue
            if name in ("set", "clear") and any(v["n"] == "INDEX" for x in walk(b["body"]) if x.get("k") == "decl" for v in x["vars"]):
                continue
            site = "BitArrayT::" + name
            nf = unit_loop_nf(F, b)
            if nf is None and "_storage" not in b.get("mems", ()):
                continue       # BitArrayT<0>: no storage at all
            ctx.instance("C18.whole", site, {"function": site, "loc": F.floc(fid), "normal_form": _nf_show(nf)})
            if not _nf_matches(F, nf, want):
                ctx.violation("C18.whole", site, "%s (%s)" % (site, F.floc(fid)),
                              "%s has the normal form %s, expected %s: every unit visited with the canonical test / effect, nothing else touched" % (
                                  site, _nf_show(nf), _nf_show_want(want)), {})


def _nf_show(nf):
    if nf is None:
        return "not a single loop over the units"
    def tt(x):
        if x is None or x == "?":
            return str(x)
        if x[0] == "const":
            return str(x[1])
        return "%s:%s" % (list(x[0]), "".join("1" if v else "0" for v in x[1]))
    return "for i < %s: effects %s, early returns %s; then %s" % (nf["bound"], nf["effects"], [(tt(h), v) for h, v in nf["hits"]], tt(nf["tail"]))


def _nf_show_want(w):
    from .common import truth_table
    def tt(x):
        if x is None:
            return "None"
        if isinstance(x, list):
            return " or ".join(tt(y) for y in x)
        if x[0] == "const":
            return str(x[1])
        t = truth_table(x)
        return "%s:%s" % (list(t[0]), "".join("1" if v else "0" for v in t[1]))
    return "for i < %s: effects %s, early returns %s; then %s" % (w["bound"], w["effects"], [(tt(h), v) for h, v in w["hits"]], tt(w["tail"]))


def check_views(ctx, F):
    notB = N(A("(_storage[(_width/8)]&((1<<(_width%8))-1))==0"))
    guarded = ("and", N(A("(_width%8)==0")), notB)
    want = {"bound": "(_width/8)", "effects": [[]], "hits": [(N(A("0==_storage[i]")), True)],
            # the tail may be skipped when there is none (_width % 8 == 0: the mask would be 0 and the answer false anyway)
            "tail": [notB, guarded]}
    for cls in ("Bits", "CBits"):
        for fid, b in pick(F, cls, "operator bool", "BitArrayT"):
            site = "%s::operator bool" % cls
            nf = unit_loop_nf(F, b)
            ctx.instance("C18.views", site, {"function": site, "loc": F.floc(fid), "normal_form": _nf_show(nf)})
            if not _nf_matches(F, nf, want):
                ctx.violation("C18.views", site, "%s (%s)" % (site, F.floc(fid)),
                              "%s has the normal form %s, expected full units i < _width/8 and the tail _storage[_width/8] & ((1 << _width%%8) - 1): %s" % (
                                  site, _nf_show(nf), _nf_show_want(want)), {})


COMMON_ATOMS = {"byteIndex": "(_cursor/8)", "byteChunkStart": "(_cursor%8)", "byteDataWidth": "(8-(_cursor%8))",
                "byteChunkWidth": "min((8-(_cursor%8)),itemWidth)"}
WIDTHS = {"unsigned char": 8, "unsigned short": 16, "unsigned int": 32, "unsigned long": 64, "int": 32, "short": 16, "long": 64}


def check_stream(ctx, F):
    forms = {}
    for cls, name in (("BitWriteStreamT", "write"), ("BitReadStreamT", "read")):
        for fid, b in pick(F, cls, name):
            site = "%s::%s" % (cls, name)
            body = b["body"]
            defs_all = {}
            types = {}
            for x in walk(body):
                if x.get("k") == "decl":
                    for v in x["vars"]:
                        if v.get("init") is not None:
                            defs_all[v["n"]] = v["init"]
                        types[v["n"]] = v.get("ty")
            # atoms are defined inside the loop body (re-evaluated every iteration): substitute loop-body locals only
            loop = [x for x in walk(body) if x.get("k") == "for"]
            if len(loop) != 1:
                raise AnalysisBroken("%s: expected one chunk loop" % site)
            inner_defs = {}
            for x in walk(loop[0]["b"]):
                if x.get("k") == "decl":
                    for v in x["vars"]:
                        if v.get("init") is not None:
                            inner_defs[v["n"]] = v["init"]
            # locals are named by their role, not by their spelling: the variable the loop runs on is the remaining width, the value
            # returned (read) / the non-const copy of the parameter (write) is the item, the other running counter is the item cursor
            role = {}
            cvars = [x["n"] for x in walk(loop[0].get("c") or {}) if x.get("k") == "var" and x.get("d") == "local"]
            if len(cvars) == 1:
                role[cvars[0]] = "itemWidth"
            if name == "read":
                rets = [strip(x["e"]) for x in walk(body) if x.get("k") == "ret" and x.get("e") is not None]
                if len(rets) == 1 and rets[0].get("k") == "var":
                    role[rets[0]["n"]] = "item"
                for x in walk(loop[0]):
                    if x.get("k") == "asg" and x.get("op") == "+=":
                        lv = strip(x["lhs"])
                        if lv.get("k") == "var" and lv.get("d") == "local" and lv["n"] not in role:
                            role[lv["n"]] = "itemCursor"
            else:
                for n, e in defs_all.items():
                    if n not in role and any(y.get("k") == "var" and y.get("d") == "param" for y in walk(e)) and not any(
                            v.get("const") for x in walk(body) if x.get("k") == "decl" for v in x["vars"] if v["n"] == n):
                        role[n] = "itemBits"

            def canon(t):
                for a, c in role.items():
                    if a != c:
                        t = re.sub(r"\b%s\b" % re.escape(a), c, t)
                return t
            atoms = {n: canon(px(e, {k: v for k, v in inner_defs.items() if k != n})) for n, e in inner_defs.items()}
            # the updates of one iteration, in execution order (body, then the loop's step expression), as a set of
            # (target := value over the iteration's start values); an update that reads a variable already updated in this iteration,
            # or a chunk atom defined after an update, is marked so: such an order matters, any other order does not
            stmts = [x for x in walk(loop[0]["b"]) if x.get("k") in ("asg", "decl")]
            if isinstance(loop[0].get("inc"), dict):
                stmts += [x for x in walk(loop[0]["inc"]) if x.get("k") == "asg"]
            updated = []
            full = []
            upd = []
            for x in stmts:
                if x.get("k") == "decl":
                    for v in x["vars"]:
                        used = set(re.findall(r"[A-Za-z_]\w*", px(v.get("init") or {}, {})))
                        if used & set(updated):
                            full.append("%s defined after the update of %s" % (v["n"], sorted(used & set(updated))))
                    continue
                raw = px(x, {})
                upd.append(raw)
                target = re.match(r"^\(?([A-Za-z_]\w*)", raw)
                rhs_used = set(re.findall(r"[A-Za-z_]\w*", px(x.get("rhs") or {}, {})))
                t = px(x, inner_defs)
                dirty = sorted(v for v in rhs_used if v in updated and not (target and v == target.group(1)))
                if dirty:
                    t += " @after-update-of(%s)" % ",".join(dirty)
                full.append(t)
                if target:
                    updated.append(target.group(1))
            upd = sorted(canon(t) for t in upd)
            full = sorted(canon(t) for t in full)
            cond = canon(px(loop[0].get("c") or {}, {}))
            bad = []
            for a, w in COMMON_ATOMS.items():
                if atoms.get(a) != w:
                    bad.append("%s = %s, expected %s" % (a, atoms.get(a), w))
            # narrowing of an index derived from the cursor
            cur_w = None
            t = F.type(b.get("tid")) or {}
            for f in t.get("fields", []):
                if f["n"] == "_cursor":
                    cur_w = WIDTHS.get(f.get("ty"))
            for n, e in inner_defs.items():
                if "_cursor" in px(e, {}) and re.search(r"/8|>>3", px(e, {})):
                    w = WIDTHS.get(types.get(n))
                    if cur_w and w and w < cur_w:
                        bad.append("`%s` (%d bits) holds _cursor >> 3 of a %d-bit cursor: the byte index wraps for long streams" % (n, w, cur_w))
            if name == "write":
                want_full = sorted(["_buffer._data[(_cursor/8)]|=(itemBits<<(_cursor%8))", "itemBits>>=min((8-(_cursor%8)),itemWidth)",
                                    "itemWidth-=min((8-(_cursor%8)),itemWidth)", "_cursor+=min((8-(_cursor%8)),itemWidth)"])
            else:
                want_full = sorted(["item|=(((_buffer._data[(_cursor/8)]>>(_cursor%8))&((1<<min((8-(_cursor%8)),itemWidth))-1))<<itemCursor)",
                                    "itemCursor+=min((8-(_cursor%8)),itemWidth)", "itemWidth-=min((8-(_cursor%8)),itemWidth)",
                                    "_cursor+=min((8-(_cursor%8)),itemWidth)"])
            if full != want_full:
                bad.append("loop body reduces to %s, expected %s" % (full, want_full))
            if cond not in ("itemWidth", "(itemWidth!=0)", "(itemWidth>0)"):
                bad.append("loop runs while `%s`, expected while itemWidth" % cond)
            forms[name] = atoms
            ctx.instance("C18.stream", site, {"function": site, "loc": F.floc(fid), "atoms": atoms, "updates": upd})
            for m in bad[:3]:
                ctx.violation("C18.stream", site + "/" + m.split(" ")[0].strip("`"), "%s (%s)" % (site, F.floc(fid)), "%s: %s" % (site, m), {})
    if "write" in forms and "read" in forms:
        for a in COMMON_ATOMS:
            if forms["write"].get(a) != forms["read"].get(a):
                ctx.violation("C18.stream", "write~read/" + a, "BitWriteStreamT::write ~ BitReadStreamT::read",
                              "writer and reader disagree on %s: %s vs %s" % (a, forms["write"].get(a), forms["read"].get(a)), {})


def check_buffer_clear(ctx, F, rule="C18.compare"):
    """StreamBufferT::clear() zeroes all BYTE_COUNT bytes: fill(_data, 0) over the whole array, or a loop over every byte"""
    for fid, b in pick(F, "StreamBufferT", "clear"):
        site = "StreamBufferT::clear"
        calls = [re.sub(r"\bthis\.", "", px(x, {})) for x in walk(b["body"]) if x.get("k") == "call"]       # (unresolved in the uninstantiated pattern)
        ok = any(re.match(r"^(::)?(hfsm2::)?(detail::)?fill\(_data,(0|0x0)\)$", c) for c in calls)
        nf = None
        if not ok:
            nf = unit_loop_nf(F, b)
            ok = _nf_matches(F, nf, {"bound": "BYTE_COUNT", "effects": [["_data[i]=0"]], "hits": [], "tail": None})
        ctx.instance(rule, site, {"function": site, "loc": F.floc(fid), "calls": calls, "normal_form": _nf_show(nf) if nf else None})
        if not ok:
            ctx.violation(rule, site, "%s (%s)" % (site, F.floc(fid)),
                          "StreamBufferT::clear() is %s, expected fill(_data, 0) or a loop over all BYTE_COUNT bytes: a partially used last byte keeps stale bits, "
                          "which the OR-ing writer merges into the next image" % (_nf_show(nf) if nf else calls), {})


def check_compare(ctx, F):
    for name, hitv in (("operator==", False), ("operator!=", True)):
        want = {"bound": "BYTE_COUNT", "effects": [[]], "hits": [(N(A("_data[i]==buffer._data[i]")), hitv)], "tail": ("const", not hitv)}
        for fid, b in pick(F, "StreamBufferT", name):
            site = "StreamBufferT::" + name
            nf = unit_loop_nf(F, b)
            ctx.instance("C18.compare", site, {"function": site, "loc": F.floc(fid), "normal_form": _nf_show(nf)})
            if not _nf_matches(F, nf, want):
                ctx.violation("C18.compare", site, "%s (%s)" % (site, F.floc(fid)),
                              "%s has the normal form %s, expected a comparison of all BYTE_COUNT bytes: %s" % (site, _nf_show(nf), _nf_show_want(want)), {})


def final(ctx):
    from . import helpwit
    helpwit.run(ctx, "C18.helpers")

