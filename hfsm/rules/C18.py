"""C18 — bit arrays and bit streams are exact for every index, width, value and alignment.

Decided: each single-index operation touches exactly one storage unit with a one-bit mask derived from the same divisor as the unit
index; whole-array operations visit every unit and do nothing else; views test full units plus a masked tail computed from the width;
writer and reader of the stream use the same cursor arithmetic, advance by the chunk width, and no index derived from the cursor is
narrowed; buffer comparison visits all bytes.
Not decided: the round-trip equality for every (width, value, alignment) sequence and the set-algebra laws as value equalities.
"""
import re

from ..engine import site_str
from ..ir import AnalysisBroken, walk, strip, is_noop
from .C12 import _FN

TEXT = {
    "C18.single-bit": "the get / set / clear members of BitArrayT, Bits and CBits (static and dynamic index) reduce to `(_storage[i/8] & (1 << i%8)) != 0`, "
                      "`_storage[i/8] |= 1 << i%8`, `_storage[i/8] &= ~(1 << i%8)` — one unit, one-bit mask from the same index — and write nothing else",
    "C18.whole": "BitArrayT::set / clear / empty / operator!= / operator& / operator&= visit every unit (range-for over _storage or i < UNIT_COUNT) with the "
                 "canonical body and contain no other statement",
    "C18.views": "Bits / CBits::operator bool test _width/8 full units and the tail `_storage[_width/8] & ((1 << _width%8) - 1)`; Bits::clear() visits "
                 "exactly ceil(_width/8) units; bits() / cbits() return {_storage + unit, width}",
    "C18.stream": "BitWriteStreamT::write and BitReadStreamT::read share the cursor atoms (byteIndex = _cursor >> 3, start = _cursor & 7, chunk = min(8 - start, "
                  "remaining), _cursor += chunk, remaining -= chunk); the written byte is |= value << start, the read chunk is (byte >> start) & ((1 << chunk) - 1) "
                  "placed at the running item offset; no local derived from _cursor is narrower than _cursor",
    "C18.compare": "StreamBufferT::operator== / != compare all BYTE_COUNT bytes",
}
MIN_INSTANCES = {"C18.single-bit": 14, "C18.whole": 5, "C18.views": 2, "C18.stream": 2, "C18.compare": 2}


def declare(ctx):
    for r, t in TEXT.items():
        ctx.rule(r, t)


# ------------------------------------------------------------------------------------------------ precise printing with definition substitution


def px(e, defs=None, depth=0):
    """fully parenthesised text of an expression; const locals are replaced by their definitions"""
    e = strip(e)
    if not isinstance(e, dict) or depth > 40:
        return "?"
    defs = defs or {}
    k = e.get("k")
    if k == "var":
        n = e["n"]
        if e.get("d") == "local" and n in defs:
            return px(defs[n], defs, depth + 1)
        return n
    if k == "lit":
        v = e.get("v")
        return str(v)
    if k == "mem":
        if not e.get("n"):
            return px(e.get("b"), defs, depth + 1)
        b = px(e.get("b"), defs, depth + 1) if e.get("b") is not None else ""
        return e["n"] if b in ("this", "") else b + "." + e["n"]
    if k == "dep":
        b = px(e["b"], defs, depth + 1) if e.get("b") is not None else ""
        return e.get("n", "?") if b in ("this", "") else b + "." + e.get("n", "?")
    if k == "idx":
        return px(e["b"], defs, depth + 1) + "[" + px(e["i"], defs, depth + 1) + "]"
    if k in ("bin", "asg"):
        op = e["op"]
        l, r = px(e["lhs"], defs, depth + 1), px(e["rhs"], defs, depth + 1)
        if op == ">>" and r == "3" and k == "bin":
            op, r = "/", "8"
        if op == "&" and r in ("7", "0x7") and k == "bin":
            op, r = "%", "8"
        if k == "asg" and op == "=":
            # `x = x op y` (possibly through a cast back to x's type) is the compound assignment `x op= y`; also `y op x` for commutative ops
            rr = strip(e["rhs"])
            if isinstance(rr, dict) and rr.get("k") == "bin" and rr.get("op") in ("|", "&", "^", "+", "-", "<<", ">>"):
                a, b2 = px(rr["lhs"], defs, depth + 1), px(rr["rhs"], defs, depth + 1)
                if a == l:
                    return l + rr["op"] + "=" + b2
                if b2 == l and rr["op"] in ("|", "&", "^", "+"):
                    return l + rr["op"] + "=" + a
        s = l + op + r
        return "(" + s + ")" if k == "bin" else s
    if k == "un":
        if e["op"] in ("++", "--"):
            return e["op"] + px(e["e"], defs, depth + 1)
        return "(" + e["op"] + px(e["e"], defs, depth + 1) + ")"
    if k == "call":
        F = _FN.get("F")
        name = F.fn(e["f"])["name"] if F and "f" in e else px(e.get("callee") or {}, defs, depth + 1)
        args = ",".join(px(a, defs, depth + 1) for a in e.get("a", []))
        if e.get("op") and e.get("obj") is not None:
            return px(e["obj"], defs, depth + 1) + e["op"] + args
        return name + "(" + args + ")"
    if k in ("ctor", "ilist"):
        a = e.get("a", [])
        return px(a[0], defs, depth + 1) if len(a) == 1 else "{" + ",".join(px(x, defs, depth + 1) for x in a) + "}"
    if k == "cond":
        return "(" + px(e["c"], defs, depth + 1) + "?" + px(e["t"], defs, depth + 1) + ":" + px(e["f"], defs, depth + 1) + ")"
    if k == "zero":
        return "0"
    if k == "this":
        return "this"
    return "<%s>" % k


def const_locals(body):
    """local name -> init expr for locals that are never re-assigned"""
    defs = {}
    assigned = set()
    for x in walk(body):
        if x.get("k") == "decl":
            for v in x["vars"]:
                if v.get("init") is not None:
                    defs[v["n"]] = v["init"]
        elif x.get("k") == "asg":
            l = strip(x["lhs"])
            if l.get("k") == "var":
                assigned.add(l["n"])
        elif x.get("k") == "un" and x.get("op") in ("++", "--"):
            l = strip(x["e"])
            if l.get("k") == "var":
                assigned.add(l["n"])
    return {k: v for k, v in defs.items() if k not in assigned}


def effects(body, defs):
    """ordered list of effect statements (assignments / returns) as precise text"""
    out = []
    for x in walk(body):
        k = x.get("k")
        if k == "asg":
            out.append(px(x, defs))
        elif k == "ret" and x.get("e") is not None:
            out.append("return " + px(x["e"], defs))
        elif k == "un" and x.get("op") in ("++", "--"):
            out.append(px(x, defs))
        elif k == "call" and x.get("op") in ("=", "|=", "&=", "+=", "-="):
            out.append(px(x, defs))
    return out


def norm_index(t):
    t = re.sub(r"\bINDEX\b", "X", t)
    t = re.sub(r"\bNIndex\b", "X", t)
    t = re.sub(r"\bindex\b", "X", t)
    return t


def pick(F, cls, name, outer=None, nparams=None, template=None):
    """one body per overload: prefer the uninstantiated pattern (covers members the zoo never instantiates)"""
    out = {}
    for fid, b in F.bodies.items():
        if b.get("cls") != cls or b["name"] != name:
            continue
        t = F.type(b.get("tid")) or {}
        if outer is not None and t.get("outername") != outer:
            continue
        if outer is None and cls == "BitArrayT" and t.get("outername"):
            continue
        if not [x for x in (b.get("body") or {}).get("s", []) if not is_noop(x)]:
            continue      # the empty stubs of the zero-capacity specialisation
        key = (len(b.get("params", [])), bool(b.get("ftargs")) or (not b["inst"] and any(True for _ in ())))
        pkey = b.get("pat")
        cur = out.get(pkey)
        if cur is None or (cur[1]["inst"] and not b["inst"]):
            out[pkey] = (fid, b)
    return list(out.values())


def check(ctx, F):
    _FN["F"] = F
    check_single(ctx, F)
    check_whole(ctx, F)
    check_views(ctx, F)
    from . import C11, C08
    C11.check_views(ctx, F, rule="C18.views")          # Bits::clear() covers exactly ceil(_width / 8) units; bits()/cbits() address {unit, width}
    check_stream(ctx, F)
    # the writer ORs chunks into the buffer: what is read back equals what was written only if it starts from a cleared buffer on every path
    for fid, b in F.bodies.items():
        if b["inst"] and b.get("cls") == "BitWriteStreamT" and b.get("kind") == "ctor" and not any(c in (b.get("sig") or "") for c in ("const BitWriteStreamT", "BitWriteStreamT &&")):
            if len(b.get("params", [])) < 1:
                continue
            site = "BitWriteStreamT::BitWriteStreamT/clear"
            ctx.instance("C18.stream", site, {"function": site, "loc": F.floc(fid)})
            if not C08.clears_on_every_path(F, fid, "_buffer"):
                ctx.violation("C18.stream", site, "BitWriteStreamT::BitWriteStreamT (%s)" % F.floc(fid),
                              "write() ORs chunks into the buffer but the constructor does not clear it on every path: values read back merge with stale bits", {})
    check_compare(ctx, F)


SINGLE_WANT = {
    "get": ["return ((_storage[(X/8)]&(1<<(X%8)))!=0)"],
    "set": ["_storage[(X/8)]|=(1<<(X%8))"],
    "clear": ["_storage[(X/8)]&=(~(1<<(X%8)))"],
}


def check_single(ctx, F):
    for cls, outer in (("BitArrayT", None), ("Bits", "BitArrayT"), ("CBits", "BitArrayT")):
        for name in ("get", "set", "clear"):
            for fid, b in pick(F, cls, name, outer):
                dyn = bool(b.get("params"))
                static = not dyn and any(v["n"] == "INDEX" for x in walk(b["body"]) if x.get("k") == "decl" for v in x["vars"])
                if not dyn and not static:
                    continue       # the whole-array set() / clear()
                site = "%s::%s%s" % (cls, name, "(index)" if dyn else "<INDEX>()")
                defs = const_locals(b["body"])
                eff = [norm_index(t) for t in effects(b["body"], {k: v for k, v in defs.items() if k not in ("INDEX",)})]
                ctx.instance("C18.single-bit", site, {"function": site, "loc": F.floc(fid), "normal_form": eff})
                if eff != SINGLE_WANT[name]:
                    ctx.violation("C18.single-bit", site, "%s (%s)" % (site, F.floc(fid)),
                                  "%s reduces to %s, expected %s (exactly one unit, one-bit mask from the same index)" % (site, eff, SINGLE_WANT[name]), {})


def loop_form(F, b):
    """(kind, bound text, [effect texts inside the loop], [effect texts outside])"""
    body = b["body"]
    loops = [x for x in walk(body) if x.get("k") in ("for", "rfor", "while")]
    defs = const_locals(body)
    if len(loops) != 1:
        return None
    l = loops[0]
    if l["k"] == "rfor":
        kind = "each " + px(l.get("range") or {}, defs)
        bound = ""
        var = l["var"]["n"]
    else:
        kind = "for"
        bound = px(l.get("c") or {}, defs)
        var = None
    inner_nodes = set(id(x) for x in walk(l))
    inner = []
    outer = []
    conds = ["if " + px(x["c"], defs) for x in walk(l.get("b") or {}) if x.get("k") == "if"]
    outer_conds = ["if " + px(x["c"], defs) for x in walk(body) if x.get("k") == "if" and id(x) not in inner_nodes]
    for x in walk(body):
        k = x.get("k")
        t = None
        if k == "asg":
            t = px(x, defs)
        elif k == "ret" and x.get("e") is not None:
            t = "return " + px(x["e"], defs)
        elif k == "un" and x.get("op") in ("++", "--"):
            t = px(x, defs)
        if t is None:
            continue
        (inner if id(x) in inner_nodes else outer).append(t)
    return kind, bound, conds + inner, outer_conds + outer


WHOLE_WANT = {
    "set": [("each _storage", "", ["unit=UINT8_MAX"], []), ("each _storage", "", ["unit=255"], []), ("for", "(i<UNIT_COUNT)", ["_storage[i]=255", "++i"], [])],
    "clear": [("each _storage", "", ["unit=0"], []), ("for", "(i<UNIT_COUNT)", ["_storage[i]=0", "++i"], [])],
    "empty": [("each _storage", "", ["if (unit!=0)", "return False"], ["return True"])],
    "operator!=": [("for", "(i<UNIT_COUNT)", ["if (_storage[i]!=other._storage[i])", "++i", "return True"], ["return False"])],
    "operator&": [("for", "(i<UNIT_COUNT)", ["if ((_storage[i]&other._storage[i])==0)", "++i", "return False"], ["return True"])],
    "operator&=": [("for", "(i<UNIT_COUNT)", ["++i", "_storage[i]&=other._storage[i]"], [])],
}


def check_whole(ctx, F):
    for name, wants in WHOLE_WANT.items():
        for fid, b in pick(F, "BitArrayT", name):
            if b.get("params") and name in ("set", "clear"):
                continue
            if name in ("set", "clear") and any(v["n"] == "INDEX" for x in walk(b["body"]) if x.get("k") == "decl" for v in x["vars"]):
                continue
            site = "BitArrayT::" + name
            lf = loop_form(F, b)
            if lf is None and "_storage" not in b.get("mems", ()):
                continue       # BitArrayT<0>: no storage at all
            if lf is None:
                ctx.violation("C18.whole", site + "/shape", "%s (%s)" % (site, F.floc(fid)), "%s is not a single loop over the units" % site, {})
                continue
            kind, bound, inner, outer = lf
            got = (kind, bound, sorted(inner), sorted(outer))
            ok = any(got == (w[0], w[1], sorted(w[2]), sorted(w[3])) for w in wants)
            ctx.instance("C18.whole", site, {"function": site, "loc": F.floc(fid), "loop": kind + " " + bound, "inside": inner, "outside": outer})
            if not ok:
                ctx.violation("C18.whole", site, "%s (%s)" % (site, F.floc(fid)),
                              "%s is `%s %s {%s} %s`, expected one of %s: every unit visited, nothing else touched" % (site, kind, bound, inner, outer, wants), {})


def check_views(ctx, F):
    for cls in ("Bits", "CBits"):
        for fid, b in pick(F, cls, "operator bool", "BitArrayT"):
            site = "%s::operator bool" % cls
            lf = loop_form(F, b)
            tail = "return ((_storage[(_width/8)]&((1<<(_width%8))-1))!=0)"
            # the tail may be skipped when there is none (_width % 8 == 0: the mask would be 0 and the answer false anyway)
            tails = ([tail], ["if ((_width%8)==0)", "return False", tail])
            head = ("for", "(i<(_width/8))", sorted(["if _storage[i]", "++i", "return True"]))
            ctx.instance("C18.views", site, {"function": site, "loc": F.floc(fid), "form": lf})
            if lf is None or (lf[0], lf[1], sorted(lf[2])) != head or lf[3] not in tails:
                ctx.violation("C18.views", site, "%s (%s)" % (site, F.floc(fid)),
                              "%s is %s, expected full units i < _width/8 and the tail _storage[_width/8] & ((1 << _width%%8) - 1)" % (site, lf), {})


COMMON_ATOMS = {"byteIndex": "(_cursor/8)", "byteChunkStart": "(_cursor%8)", "byteDataWidth": "(8-(_cursor%8))",
                "byteChunkWidth": "min((8-(_cursor%8)),itemWidth)"}
WIDTHS = {"unsigned char": 8, "unsigned short": 16, "unsigned int": 32, "unsigned long": 64, "int": 32, "short": 16, "long": 64}


def check_stream(ctx, F):
    forms = {}
    for cls, name in (("BitWriteStreamT", "write"), ("BitReadStreamT", "read")):
        for fid, b in pick(F, cls, name):
            site = "%s::%s" % (cls, name)
            body = b["body"]
            defs_all = {}
            types = {}
            for x in walk(body):
                if x.get("k") == "decl":
                    for v in x["vars"]:
                        if v.get("init") is not None:
                            defs_all[v["n"]] = v["init"]
                        types[v["n"]] = v.get("ty")
            # atoms are defined inside the loop body (re-evaluated every iteration): substitute loop-body locals only
            loop = [x for x in walk(body) if x.get("k") == "for"]
            if len(loop) != 1:
                raise AnalysisBroken("%s: expected one chunk loop" % site)
            inner_defs = {}
            for x in walk(loop[0]["b"]):
                if x.get("k") == "decl":
                    for v in x["vars"]:
                        if v.get("init") is not None:
                            inner_defs[v["n"]] = v["init"]
            atoms = {n: px(e, {k: v for k, v in inner_defs.items() if k != n}) for n, e in inner_defs.items()}
            # the updates of one iteration, in execution order (body, then the loop's step expression), as a set of
            # (target := value over the iteration's start values); an update that reads a variable already updated in this iteration,
            # or a chunk atom defined after an update, is marked so: such an order matters, any other order does not
            stmts = [x for x in walk(loop[0]["b"]) if x.get("k") in ("asg", "decl")]
            if isinstance(loop[0].get("inc"), dict):
                stmts += [x for x in walk(loop[0]["inc"]) if x.get("k") == "asg"]
            updated = []
            full = []
            upd = []
            for x in stmts:
                if x.get("k") == "decl":
                    for v in x["vars"]:
                        used = set(re.findall(r"[A-Za-z_]\w*", px(v.get("init") or {}, {})))
                        if used & set(updated):
                            full.append("%s defined after the update of %s" % (v["n"], sorted(used & set(updated))))
                    continue
                raw = px(x, {})
                upd.append(raw)
                target = re.match(r"^\(?([A-Za-z_]\w*)", raw)
                rhs_used = set(re.findall(r"[A-Za-z_]\w*", px(x.get("rhs") or {}, {})))
                t = px(x, inner_defs)
                dirty = sorted(v for v in rhs_used if v in updated and not (target and v == target.group(1)))
                if dirty:
                    t += " @after-update-of(%s)" % ",".join(dirty)
                full.append(t)
                if target:
                    updated.append(target.group(1))
            upd = sorted(upd)
            full = sorted(full)
            cond = px(loop[0].get("c") or {}, {})
            bad = []
            for a, w in COMMON_ATOMS.items():
                if atoms.get(a) != w:
                    bad.append("%s = %s, expected %s" % (a, atoms.get(a), w))
            # narrowing of an index derived from the cursor
            cur_w = None
            t = F.type(b.get("tid")) or {}
            for f in t.get("fields", []):
                if f["n"] == "_cursor":
                    cur_w = WIDTHS.get(f.get("ty"))
            for n, e in inner_defs.items():
                if "_cursor" in px(e, {}) and re.search(r"/8|>>3", px(e, {})):
                    w = WIDTHS.get(types.get(n))
                    if cur_w and w and w < cur_w:
                        bad.append("`%s` (%d bits) holds _cursor >> 3 of a %d-bit cursor: the byte index wraps for long streams" % (n, w, cur_w))
            if name == "write":
                want_full = sorted(["_buffer._data[(_cursor/8)]|=(itemBits<<(_cursor%8))", "itemBits>>=min((8-(_cursor%8)),itemWidth)",
                                    "itemWidth-=min((8-(_cursor%8)),itemWidth)", "_cursor+=min((8-(_cursor%8)),itemWidth)"])
            else:
                want_full = sorted(["item|=(((_buffer._data[(_cursor/8)]>>(_cursor%8))&((1<<min((8-(_cursor%8)),itemWidth))-1))<<itemCursor)",
                                    "itemCursor+=min((8-(_cursor%8)),itemWidth)", "itemWidth-=min((8-(_cursor%8)),itemWidth)",
                                    "_cursor+=min((8-(_cursor%8)),itemWidth)"])
            if full != want_full:
                bad.append("loop body reduces to %s, expected %s" % (full, want_full))
            if cond not in ("itemWidth", "(itemWidth!=0)", "(itemWidth>0)"):
                bad.append("loop runs while `%s`, expected while itemWidth" % cond)
            forms[name] = atoms
            ctx.instance("C18.stream", site, {"function": site, "loc": F.floc(fid), "atoms": atoms, "updates": upd})
            for m in bad[:3]:
                ctx.violation("C18.stream", site + "/" + m.split(" ")[0].strip("`"), "%s (%s)" % (site, F.floc(fid)), "%s: %s" % (site, m), {})
    if "write" in forms and "read" in forms:
        for a in COMMON_ATOMS:
            if forms["write"].get(a) != forms["read"].get(a):
                ctx.violation("C18.stream", "write~read/" + a, "BitWriteStreamT::write ~ BitReadStreamT::read",
                              "writer and reader disagree on %s: %s vs %s" % (a, forms["write"].get(a), forms["read"].get(a)), {})


def check_compare(ctx, F):
    for name, hit, miss in (("operator==", "return False", "return True"), ("operator!=", "return True", "return False")):
        for fid, b in pick(F, "StreamBufferT", name):
            site = "StreamBufferT::" + name
            lf = loop_form(F, b)
            want = ("for", "(i<BYTE_COUNT)", sorted(["if (_data[i]!=buffer._data[i])", "++i", hit]), [miss])
            ctx.instance("C18.compare", site, {"function": site, "loc": F.floc(fid), "form": lf})
            if lf is None or (lf[0], lf[1], sorted(lf[2]), lf[3]) != want:
                ctx.violation("C18.compare", site, "%s (%s)" % (site, F.floc(fid)), "%s is %s, expected a comparison of all BYTE_COUNT bytes" % (site, lf), {})
