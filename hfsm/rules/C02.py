"""C02 — processing requests yields exactly the configuration the rules prescribe.

Decided: the routing / resolution *tables* of the code agree with the rules of the statement: exhaustive kind dispatch; per kind the
right source of the chosen prong; strategy = kind for `change` (request and report flavour alike); recursion into nested regions with
the chosen prong; prong dispatch inside CS_; leftmost on ties; resumable memory on every leave; reset() order; nothing happens
without requests; both registries route identically; the request API constructs the kind its name denotes.
Not decided: the resulting configuration for an arbitrary batch from an arbitrary state (needs the semantics of requestImmediate's
three-phase walk over histories); "later requests override earlier" beyond the ascending application order.
"""
import re

from ..engine import site_str
from ..ir import AnalysisBroken, walk, strip, sym_paths, _flatten_switch
from .common import insts, paths_of, is_regfield, regfield
from . import routing, C03

TEXT = {
    "C02.dispatch": "C_::deepRequest, O_::deepRequest, R_::applyRequest have one case per TransitionType enumerator of the configuration, each calling the "
                    "same-named handler (SCHEDULE only in applyRequest -> requestScheduled); deepRequestChange / deepReportChange select the member named after "
                    "the region's STRATEGY on both dispatch mechanisms (GCC switch, clang explicit specialisations)",
    "C02.kind-table": "source of the prong stored into compoRequested per resolver: restart/Composite: literal 0; resume/Resumable: resumable != INVALID ? "
                      "resumable : 0; select/Selectable: HeadState::wrapSelect; utilize/Utilitarian: .prong of SubStates::wideReport{Utilize,ChangeUtilitarian}; "
                      "randomize/Random: resolveRandom — for request *and* report flavours (strategy = kind)",
    "C02.descend": "every resolver descends into the SubStates member of the frozen table and hands down the prong it just stored (nested regions)",
    "C02.cs-dispatch": "CS_<split> prong dispatchers route to LHalf/RHalf::same-name by prong < R_PRONG with their own arguments; CS_<single> forwards to "
                       "the same-named Single::deep* member (shared with C03.cs-dispatch)",
    "C02.leftmost": "CS_<split>::wideReportUtilize / wideReportChangeUtilitarian / wideReportRank return `l >= r ? l : r` with l from LHalf and r from RHalf",
    "C02.resumable-memory": "on every path on which compoActive changes from a valid value (leave or switch) compoResumable := old active is written before the "
                            "overwrite; deepEnter clears compoResumable only when it equals the entered prong",
    "C02.reset": "R_::reset: _apex.deepExit < history cleared < registry.clear() < _apex.deepRequestChange(RESTART request) < _apex.deepEnter; no guard call",
    "C02.override": "RegistryT::requestImmediate (both registries): every loop that climbs the composite ancestors of the destination and marks them "
                    "(compoRemains.set) can also write that ancestor's compoRequested - otherwise a region re-targeted by an earlier request of the batch "
                    "keeps the earlier target although the later destination lies in its active branch (later requests override earlier conflicting ones)",
    "C02.idle": "processTransitions is called only under requests.count() != 0; deepChangeToRequested only under currentTransitions.count() != 0",
    "C02.registry-siblings": "the general and the no-orthogonal RegistryT agree on requestImmediate / requestScheduled / clearRequests / clear / backup / restore / "
                             "operator!= after erasing the orthogonal arms (same writes to the same fields under the same conditions)",
    "C02.name-kind": "every member of the request API family (changeTo, restart, resume, select, utilize, randomize, schedule, ...With, Plan::..., immediate...) "
                     "constructs the TransitionType its name denotes; immediateX = X followed by processRequest()",
}
MIN_INSTANCES = {"C02.dispatch": 4, "C02.kind-table": 10, "C02.descend": 10, "C02.cs-dispatch": 44, "C02.leftmost": 2, "C02.resumable-memory": 3,
                 "C02.reset": 1, "C02.override": 2, "C02.idle": 2, "C02.registry-siblings": 5, "C02.name-kind": 30}

KIND_HANDLER = {"CHANGE": "deepRequestChange", "RESTART": "deepRequestRestart", "RESUME": "deepRequestResume", "SELECT": "deepRequestSelect",
                "UTILIZE": "deepRequestUtilize", "RANDOMIZE": "deepRequestRandomize"}
STRATEGY_SUFFIX = {"Composite": "Composite", "Resumable": "Resumable", "Selectable": "Selectable", "Utilitarian": "Utilitarian", "RandomUtil": "Random"}
NAME_KIND = [("changeTo", "CHANGE"), ("changeWith", "CHANGE"), ("change", "CHANGE"), ("restart", "RESTART"), ("resume", "RESUME"),
             ("select", "SELECT"), ("utilize", "UTILIZE"), ("randomize", "RANDOMIZE"), ("schedule", "SCHEDULE")]


def declare(ctx):
    for r, t in TEXT.items():
        ctx.rule(r, t)


def check(ctx, F):
    check_dispatch(ctx, F)
    check_kind_table(ctx, F)
    routing.check_descend(ctx, F, "C02.descend")
    sub = C03._Alias(ctx, {"C03.cs-dispatch": "C02.cs-dispatch"})
    C03.check_cs_dispatch(sub, F)
    # the orthogonal counterpart: OS_<nonlast>::wideX hands the request to Initial::deepX and Remaining::wideX of the *same* member
    from . import C01
    C01.check_ortho_all(C03._Alias(ctx, {"C01.ortho-all": "C02.cs-dispatch"}), F)
    check_leftmost(ctx, F, "C02.leftmost")
    # shared rule instances: a nested region reports its own prong to the region that resolves it (C12.compose); the bit views the
    # orthogonal request forwarding tests for emptiness cover exactly their range (C18.views)
    from . import C12, C18
    C12.check_compose(C03._Alias(ctx, {"C12.compose": "C02.kind-table"}), F)
    if any(bb["name"] == "operator bool" and bb.get("cls") in ("Bits", "CBits") for bb in F.bodies.values()):
        C18._FN["F"] = F
        C18.check_views(C03._Alias(ctx, {"C18.views": "C02.dispatch"}), F)
    # a head-less region's anonymous head reports what a headed one that overrides nothing reports (its own prong in the parent): utilize / change
    # resolution over *Peers sub-regions stores that prong
    if any(bb["name"] == "deepReportUtilize" for bb in F.bodies.values()):
        C01.check_defaults(C03._Alias(ctx, {"C02.kind-table": "C02.kind-table"}), F, "C02.kind-table", ("deepReportChange", "deepReportUtilize"))
    check_resumable_memory(ctx, F)
    check_reset(ctx, F)
    check_idle(ctx, F)
    check_override(ctx, F)
    check_registry_siblings(ctx, F)
    check_name_kind(ctx, F)


def check_override(ctx, F):
    for fid, b in insts(F, "RegistryT", {"requestImmediate"}):
        spec = F.spec(b["tid"])
        site = "RegistryT<%s>::requestImmediate" % spec
        loops = [x for x in walk(b["body"]) if x.get("k") in ("for", "while")]
        marking = []
        for l in loops:
            body = l.get("b") or {}
            marks = [x for x in walk(body) if x.get("k") == "call" and "f" in x and F.fn(x["f"])["name"] == "set" and
                     any(m.get("k") == "mem" and m.get("n") == "compoRemains" for m in walk(x.get("obj") or {}))]
            if not marks:
                continue
            # references into compoRequested declared in the loop
            refs = set()
            for x in walk(body):
                if x.get("k") == "decl":
                    for v in x["vars"]:
                        if v.get("ref") and not v.get("const") and any(m.get("k") == "mem" and m.get("n") == "compoRequested" for m in walk(v.get("init") or {})):
                            refs.add(v["n"])
            writes = False
            for x in walk(body):
                if x.get("k") == "asg":
                    lhs = strip(x["lhs"])
                    if (lhs.get("k") == "var" and lhs.get("n") in refs) or any(m.get("k") == "mem" and m.get("n") == "compoRequested" for m in walk(lhs)):
                        writes = True
            marking.append(writes)
        ctx.instance("C02.override", site, {"function": site, "loc": F.floc(fid), "ancestor_loops_that_mark": len(marking), "of_which_can_retarget": sum(marking)})
        if not marking:
            raise AnalysisBroken("%s: no loop marks compoRemains - the rule does not know this shape" % site)
        # the walk decides level by level, bottom-up, and stops re-targeting (`break`) at the first level that is already on the path with nothing
        # requested.  A level *above* may still hold an earlier request that re-enters the path (requested == prong): the levels below it that
        # were left without a request are then re-entered by kind, not towards the destination - the later request is lost
        early = [x for l in loops for x in walk(l.get("b") or {}) if x.get("k") == "break"]
        ctx.instance("C02.override", site + "/early-stop", {"function": site, "loc": F.floc(fid), "early_exits_of_the_ancestor_walk": len(early)})
        if early:
            ctx.violation("C02.override", site + "/early-stop", "%s (%s)" % (site, F.floc(fid)),
                          "the ancestor walk stops re-targeting at the first level already on the destination's path: when an earlier request of the batch "
                          "re-enters a region further up (changeTo<U>() followed by a request deep inside U's active branch), the levels in between are "
                          "left without a request and the region is re-entered by kind - the later request is lost", {})
        if not all(marking):
            ctx.violation("C02.override", site, "%s (%s)" % (site, F.floc(fid)),
                          "a loop over the composite ancestors marks them (compoRemains.set) but never writes their compoRequested: a region that an earlier "
                          "request of the batch re-targeted keeps that target even if the later destination lies in its active branch - the earlier request wins", {})


def enum_names(F, enum):
    """enumerator names of an enum seen in the unit (from var nodes)"""
    names = {}
    for b in F.bodies.values():
        if b["name"] not in ("applyRequest", "deepRequest", "deepRequestChange", "deepReportChange"):
            continue
        for x in walk(b["body"]):
            if x.get("k") == "var" and x.get("d") == "enum" and x.get("o") == enum:
                names[x["n"]] = x.get("cv")
    return names


def case_table(F, b):
    """request kind -> callees reached when request.type is that kind, whatever the spelling of the dispatch (switch, if / else-if chain,
    early returns): per path, the kinds the path admits (from its `case` labels and its == / != tests of the kind) and the calls it makes"""
    kinds = enum_names(F, "TransitionType")          # name -> value
    byval = {v: n for n, v in kinds.items()}
    if not kinds:
        return _case_table_syntactic(F, b)
    out = {}
    fid = b["id"]
    for p in sym_paths(F, fid, 1):
        admitted = set(kinds)
        calls = []
        for ev in p:
            if ev[0] == "assume":
                node = ev[1]
                if isinstance(node, dict) and node.get("k") == "switchcase":
                    labels = node.get("labels", [])
                    if labels and "default" not in labels:
                        admitted &= set(byval.get(strip(l).get("cv")) for l in labels if isinstance(l, dict))
                else:
                    e = strip(node) if isinstance(node, dict) else {}
                    if e.get("k") == "bin" and e.get("op") in ("==", "!="):
                        for a, o in ((strip(e["lhs"]), strip(e["rhs"])), (strip(e["rhs"]), strip(e["lhs"]))):
                            if isinstance(a, dict) and a.get("d") == "enum" and a.get("o") == "TransitionType" and "type" in _txt(o):
                                eq = (e["op"] == "==") == bool(ev[3])
                                admitted = (admitted & {a["n"]}) if eq else (admitted - {a["n"]})
            elif ev[0] == "call" and ev[2] is not None and F.fn(ev[2]).get("kind") not in ("ctor", "dtor") and not F.fn(ev[2])["name"].startswith("operator"):
                calls.append(F.fn(ev[2])["name"])
        for k in admitted:
            lst = out.setdefault(k, [])
            for c in calls:
                if c not in lst:
                    lst.append(c)
    return out


def _txt(e):
    from .C12 import _expr_txt
    return _expr_txt(e) if isinstance(e, dict) else ""


def _case_table_syntactic(F, b):
    out = {}
    for x in walk(b["body"]):
        if x.get("k") == "switch":
            for labels, body in _flatten_switch(x["b"]):
                calls = [F.fn(c["f"])["name"] for c in walk(body) if c.get("k") == "call" and "f" in c] if body else []
                for l in labels:
                    if l == "default":
                        out.setdefault("default", []).extend(calls)
                    else:
                        ln = strip(l)
                        out.setdefault(ln.get("n", str(ln.get("cv"))), [])
                        out[ln.get("n", str(ln.get("cv")))] = calls
            # fallthrough labels without body share the next body
            items = _flatten_switch(x["b"])
            pending = []
            for labels, body in items:
                calls = [F.fn(c["f"])["name"] for c in walk(body) if c.get("k") == "call" and "f" in c] if body else []
                pending += [strip(l).get("n") if l != "default" else "default" for l in labels]
                if calls or (body and any(y.get("k") == "break" for y in walk(body))):
                    for n in pending:
                        out[n] = calls
                    pending = []
            break
    return out


def check_dispatch(ctx, F):
    kinds = enum_names(F, "TransitionType")
    has_utility = any(b["name"] == "deepRequestUtilize" for b in F.bodies.values())
    want_kinds = ["CHANGE", "RESTART", "RESUME", "SELECT"] + (["UTILIZE", "RANDOMIZE"] if has_utility else [])
    for cls in ("C_", "O_"):
        for fid, b in insts(F, cls, {"deepRequest"}):
            site = "%s::deepRequest" % cls
            tbl = case_table(F, b)
            ctx.instance("C02.dispatch", site, {"function": site, "loc": F.floc(fid), "cases": {k: v for k, v in tbl.items() if k != "default"}})
            for k in want_kinds:
                if tbl.get(k) != [KIND_HANDLER[k]]:
                    ctx.violation("C02.dispatch", site + "/" + k, "%s (%s)" % (site, F.floc(fid)),
                                  "request kind %s is dispatched to %s, expected [%s]" % (k, tbl.get(k), KIND_HANDLER[k]), {})
            for k in tbl:
                if k not in want_kinds and k != "default" and tbl[k]:
                    ctx.violation("C02.dispatch", site + "/extra-" + str(k), "%s (%s)" % (site, F.floc(fid)), "unexpected case %s -> %s" % (k, tbl[k]), {})
    for fid, b in insts(F, "R_", {"applyRequest"}):
        site = "R_::applyRequest"
        tbl = case_table(F, b)
        ctx.instance("C02.dispatch", site, {"function": site, "loc": F.floc(fid), "cases": {k: v for k, v in tbl.items() if k != "default"}})
        for k in want_kinds:
            got = tbl.get(k) or []
            if not ({"deepRequest", "requestImmediate", "deepForwardActive"} <= set(got)):
                ctx.violation("C02.dispatch", site + "/" + k, "%s (%s)" % (site, F.floc(fid)),
                              "request kind %s is applied through %s, expected deepRequest | requestImmediate + deepForwardActive" % (k, got), {})
        if "requestScheduled" not in (tbl.get("SCHEDULE") or []):
            ctx.violation("C02.dispatch", site + "/SCHEDULE", "%s (%s)" % (site, F.floc(fid)), "SCHEDULE is applied through %s, expected requestScheduled" % tbl.get("SCHEDULE"), {})
        # the non-root arm must hand the *same* request down
        for p in paths_of(ctx, F, fid):
            for ev in p:
                if ev[0] == "call" and ev[2] is not None:
                    n = F.fn(ev[2])["name"]
                    if n == "requestImmediate" and ev[4] != ["P:request"]:
                        ctx.violation("C02.dispatch", site + "/arg", "%s (%s)" % (site, F.floc(fid)), "requestImmediate(%s), expected (request)" % ev[4], {})
                    if n == "requestScheduled" and ev[4] != ["P:request.destination"]:
                        ctx.violation("C02.dispatch", site + "/sched-arg", "%s (%s)" % (site, F.floc(fid)), "requestScheduled(%s), expected (request.destination)" % ev[4], {})
                    if n in ("deepRequest", "deepForwardActive") and (len(ev[4]) != 2 or not ev[4][1].startswith("Request{P:request.type,P:index")):
                        ctx.violation("C02.dispatch", site + "/req-arg", "%s (%s)" % (site, F.floc(fid)),
                                      "%s receives %s, expected {request.type, index}" % (n, ev[4][1:] if ev[4] else ev[4]), {})
    # strategy dispatch (both mechanisms)
    for fam, prefix in (("deepRequestChange", "deepRequestChange"), ("deepReportChange", "deepReportChange")):
        for fid, b in insts(F, "C_", {fam}):
            strat = None
            t = F.type(b["tid"])
            for a in t.get("args", []):
                if isinstance(a, dict) and a.get("enum") == "Strategy":
                    strat = a.get("n")
            fta = b.get("ftargs")
            if fta:
                for a in fta:
                    if isinstance(a, dict) and a.get("enum") == "Strategy":
                        # clang path: the explicit specialisation is named after *its* template argument
                        strat = a.get("n")
            if strat is None:
                raise AnalysisBroken("strategy of %s not found" % F.fdisp(fid))
            want = prefix + STRATEGY_SUFFIX.get(strat, "?")
            site = "C_::%s<%s>" % (fam, strat)
            got = set()
            for p in paths_of(ctx, F, fid):
                for ev in p:
                    if ev[0] == "call" and ev[2] is not None and F.fn(ev[2])["name"].startswith(prefix):
                        got.add(F.fn(ev[2])["name"])
            ctx.instance("C02.dispatch", site, {"function": site, "loc": F.floc(fid), "calls": sorted(got)})
            if got != {want}:
                ctx.violation("C02.dispatch", site, "%s (%s)" % (site, F.floc(fid)), "a %s region resolves `change` through %s, expected %s" % (strat, sorted(got), want), {})


def check_kind_table(ctx, F):
    for fid, (site, kind, n, atoms) in routing.sources(ctx, F).items():
        name = site.split("::")[1]
        want = routing.SOURCE[name]
        ctx.instance("C02.kind-table", site, {"function": site, "loc": F.floc(fid), "source": kind, "expected": want})
        if kind != want:
            ctx.violation("C02.kind-table", site, "%s (%s)" % (site, F.floc(fid)),
                          "%s takes the prong it stores from `%s`, the rule prescribes `%s`" % (site, kind, want), {"found": kind, "expected": want})


def check_leftmost(ctx, F, rule):
    for fid, b in insts(F, "CS_", {"wideReportUtilize", "wideReportChangeUtilitarian", "wideReportRank"}, spec="split"):
        site = "CS_<split>::" + b["name"]
        bases = F.bases(b["tid"])
        ok = False
        why = "return is not `l >= r ? l : r`"
        rets = [x for x in walk(b["body"]) if x.get("k") == "ret"]
        defs = {}
        for x in walk(b["body"]):
            if x.get("k") == "decl":
                for v in x["vars"]:
                    init = strip(v.get("init") or {})
                    if init.get("k") == "call" and "f" in init:
                        ct = F.fn(init["f"]).get("tid")
                        defs[v["n"]] = "L" if bases and ct == bases[0] else ("R" if len(bases) > 1 and ct == bases[1] else "?")
        if len(rets) == 1:
            # the choice as a function of how the left half's value compares with the right half's: evaluated for L < R, L == R, L > R, whatever
            # the spelling of the test (>=, !(<), swapped operands, negated condition with swapped arms, if / early return)
            def unwrap(x):
                x = strip(x)
                while isinstance(x, dict) and x.get("k") == "ctor" and len(x.get("a", [])) == 1:
                    x = strip(x["a"][0])
                return x

            def root(x):
                x = unwrap(x)
                while isinstance(x, dict) and x.get("k") == "mem":
                    x = unwrap(x["b"])
                return defs.get(x.get("n")) if isinstance(x, dict) else None

            def ev(x, o):          # o in (-1, 0, 1): sign of L - R
                x = unwrap(x)
                k = x.get("k")
                if k == "un" and x.get("op") == "!":
                    return not ev(x["e"], o)
                if k == "bin" and x.get("op") in ("&&", "||"):
                    a, c2 = ev(x["lhs"], o), ev(x["rhs"], o)
                    return (a and c2) if x["op"] == "&&" else (a or c2)
                if k == "bin" and x.get("op") in ("<", "<=", ">", ">=", "==", "!="):
                    a, c2 = root(x["lhs"]), root(x["rhs"])
                    if {a, c2} != {"L", "R"}:
                        raise ValueError("comparison is not between the two halves")
                    d = o if a == "L" else -o
                    return {"<": d < 0, "<=": d <= 0, ">": d > 0, ">=": d >= 0, "==": d == 0, "!=": d != 0}[x["op"]]
                raise ValueError("unrecognised test")

            def choice(x, o):
                x = unwrap(x)
                if x.get("k") == "cond":
                    return choice(x["t"], o) if ev(x["c"], o) else choice(x["f"], o)
                return root(x)
            try:
                got = tuple(choice(rets[0]["e"], o) for o in (-1, 0, 1))
                if got == ("R", "L", "L"):
                    ok = True
                else:
                    why = "the value kept for (L < R, L == R, L > R) is %s, expected (R, L, L): the greater one, the left half on ties" % (got,)
            except (ValueError, KeyError, TypeError) as e2:
                why = "return is not a choice between the two halves by one comparison (%s)" % e2
        ctx.instance(rule, site, {"function": site, "loc": F.floc(fid)})
        if not ok:
            ctx.violation(rule, site, "%s (%s)" % (site, F.floc(fid)), why, {})


def check_resumable_memory(ctx, F):
    for fid, b in insts(F, "C_", {"deepExit", "deepReenter", "deepChangeToRequested", "deepEnter"}):
        ci = F.const(b["tid"], "COMPO_INDEX")
        site = "C_::" + b["name"]
        bad = None
        for p in paths_of(ctx, F, fid):
            saved = False
            for ev in p:
                if ev[0] == "write" and is_regfield(ev[2], "compoResumable", ci):
                    if is_regfield(ev[3], "compoActive", ci):
                        saved = True
                    elif ev[3] in ("#255", "#65535"):
                        # clearing is allowed only in deepEnter/deepReenter/... under requested == resumable
                        conds = [x for x in p[:p.index(ev)] if x[0] == "assume" and "compoResumable" in x[2] and "compoRequested" in x[2] and "==" in x[2] and x[3]]
                        if not conds:
                            bad = "compoResumable is cleared without `requested == resumable`"
                    else:
                        bad = "compoResumable := %s" % ev[3]
                elif ev[0] == "write" and is_regfield(ev[2], "compoActive", ci):
                    leaving = b["name"] in ("deepExit", "deepReenter", "deepChangeToRequested")
                    if leaving and not saved:
                        bad = "compoActive is overwritten (:= %s) before the sub-state being left was recorded as resumable" % ev[3]
        ctx.instance("C02.resumable-memory", site, {"function": site, "loc": F.floc(fid)})
        if bad:
            ctx.violation("C02.resumable-memory", site, "%s (%s)" % (site, F.floc(fid)), bad, {})


def check_reset(ctx, F):
    for fid, b in insts(F, "R_", {"reset"}):
        site = "R_::reset"
        bad = None
        has_history = any(bb["name"] == "replayTransitions" for bb in F.bodies.values() if bb.get("cls") == "R_")
        for p in paths_of(ctx, F, fid):
            seq = []
            for ev in p:
                if ev[0] == "call" and ev[2] is not None:
                    cf = F.fn(ev[2])
                    n, obj = cf["name"], ev[3] or ""
                    if obj.endswith("._apex") and n in ("deepExit", "deepEnter", "deepRequestChange", "deepRequestRestart", "deepRequest", "deepReenter",
                                                        "deepChangeToRequested"):
                        if n == "deepRequestChange":
                            ok = len(ev[4]) >= 2 and re.match(r"^Request\{#\d+,#\d+\}$", ev[4][1] or "")
                            seq.append(n if ok else n + "?" + str(ev[4][1:]))
                        else:
                            seq.append(n)
                    elif n == "clear" and obj.endswith("._core.registry"):
                        seq.append("registry.clear")
                    elif n == "clearRequests" and obj.endswith("._core.registry"):
                        seq.append("clearRequests")
                    elif "Guard" in n:
                        seq.append("guard!")
            # (the marks the resolution left in the candidates that lost - utilitarian / random / selectable regions poll every sub-state - are
            # cleared afterwards, as after every other commit: a later request into such a region would otherwise be taken for already resolved)
            if seq != ["deepExit", "registry.clear", "deepRequestChange", "deepEnter", "clearRequests"]:
                bad = seq
        ctx.instance("C02.reset", site, {"function": site, "loc": F.floc(fid)})
        if bad is not None:
            ctx.violation("C02.reset", site, "%s (%s)" % (site, F.floc(fid)),
                          "reset sequence %s, expected [deepExit, registry.clear, deepRequestChange, deepEnter, clearRequests] (re-activation as the first activation)" % bad, {})


def check_idle(ctx, F):
    for fid, b in insts(F, "R_", {"processRequest"}):
        site = "R_::processRequest"
        bad = None
        for p in paths_of(ctx, F, fid):
            guarded = False
            for ev in p:
                if ev[0] == "assume" and re.search(r"requests\._count$|requests\.DynamicArrayT::count", ev[2]) and ev[3]:
                    guarded = True
                if ev[0] == "call" and ev[2] is not None and F.fn(ev[2])["name"] == "processTransitions" and not guarded:
                    bad = "processTransitions is reached without `requests.count()`"
        ctx.instance("C02.idle", site, {"function": site, "loc": F.floc(fid)})
        if bad:
            ctx.violation("C02.idle", site, "%s (%s)" % (site, F.floc(fid)), bad, {})
    for fid, b in insts(F, "R_", {"processTransitions"}):
        site = "R_::processTransitions"
        bad = None
        for p in sym_paths(F, fid, 1):
            guarded = False
            for ev in p:
                if ev[0] == "assume" and "currentTransitions" in ev[2] and "count" in ev[2] and ev[3]:
                    guarded = True
                if ev[0] == "call" and ev[2] is not None and F.fn(ev[2])["name"] == "deepChangeToRequested" and not guarded:
                    bad = "deepChangeToRequested is reached without `currentTransitions.count()`"
        ctx.instance("C02.idle", site, {"function": site, "loc": F.floc(fid)})
        if bad:
            ctx.violation("C02.idle", site, "%s (%s)" % (site, F.floc(fid)), bad, {})


SIB = ("requestImmediate", "requestScheduled", "clearRequests", "clear", "backup", "restore", "operator!=", "empty")


def reg_skeleton(F, ctx, fid):
    """per path: the sequence of (kind, field, normalised value) effects on composite-fork fields, with the orthogonal arms erased"""
    out = set()
    for p in sym_paths(F, fid, 2):
        seq = []
        for ev in p:
            if ev[0] == "write":
                r = regfield(ev[2])
                if r and not r[0].startswith("ortho"):
                    seq.append(("w", r[0], re.sub(r"L:parent\b", "parent", ev[3])))
            elif ev[0] == "call" and ev[2] is not None:
                cf = F.fn(ev[2])
                obj = ev[3] or ""
                m = re.search(r"\.(compo\w+|orthoRequested)$", obj)
                if m and not m.group(1).startswith("ortho"):
                    seq.append(("c", m.group(1), cf["name"]))
                elif cf["name"] in ("overwriteWith",):
                    a = [re.sub(r"^.*\.", "", x) for x in ev[4]]
                    if not any(x.startswith("ortho") or "orthoRequested" in x for x in a):
                        seq.append(("ow",) + tuple(a))
                elif cf.get("cls") == "RegistryT" and cf["name"] in ("clearRequests",):
                    seq.append(("c", "self", cf["name"]))
            elif ev[0] == "ret" and ev[2]:
                # predicates (operator!=, empty): the set of composite-fork fields they consult, with the operators applied
                s = ev[2]
                terms = sorted(set(re.findall(r"this\.(compo\w+)\.\w+::([\w!=]+|operator[!=]+)\(", s)))
                seq.append(("ret", tuple(terms)))
        # collapse consecutive duplicates produced by loop unrolling
        col = []
        for x in seq:
            if not col or col[-1] != x:
                col.append(x)
        if F.fn(fid)["name"] in ORDER_FREE:
            col = sorted(col, key=str)          # whole-field resets / copies of distinct fields: their order is immaterial
        out.add(tuple(col))
    return out


# members that only reset / copy whole, distinct fields (no statement reads what another one writes)
ORDER_FREE = ("clear", "clearRequests", "backup", "restore")


def check_registry_siblings(ctx, F):
    gen = {b["name"]: fid for fid, b in insts(F, "RegistryT", set(SIB), spec="general")}
    noo = {b["name"]: fid for fid, b in insts(F, "RegistryT", set(SIB), spec="noortho")}
    for name in SIB:
        if name not in gen or name not in noo:
            continue
        site = "RegistryT::" + name
        a = reg_skeleton(F, ctx, gen[name])
        b = reg_skeleton(F, ctx, noo[name])
        # the no-orthogonal walk has no ortho arms: every path shape of it must occur among the general one's shapes
        ctx.instance("C02.registry-siblings", site, {"function": site, "loc": F.floc(noo[name]), "general_shapes": len(a), "noortho_shapes": len(b)})
        # the conditions under which the composite arms act: same boolean functions of the same comparisons (truth tables over the
        # comparison atoms; operand order, De Morgan forms and named temporaries do not matter)
        from .common import cond_tables
        ta = cond_tables(F, gen[name], r"compo\w+")
        tb = cond_tables(F, noo[name], r"compo\w+")
        for atoms, table in sorted(tb - ta):
            ctx.violation("C02.registry-siblings", site + "/condition", "%s (%s | %s)" % (site, F.floc(gen[name]), F.floc(noo[name])),
                          "the two RegistryT specialisations disagree on %s: the no-orthogonal one tests a boolean function of %s (truth table %s) that the "
                          "general one does not contain" % (name, list(atoms), "".join("1" if v else "0" for v in table)), {})
        missing = b - a
        if missing:
            ex = sorted(missing, key=len)[0]
            ctx.violation("C02.registry-siblings", site, "%s (%s | %s)" % (site, F.floc(gen[name]), F.floc(noo[name])),
                          "the two RegistryT specialisations disagree on %s: the no-orthogonal one has the effect sequence %s, which the general one "
                          "never produces" % (name, list(ex)[:6]), {"noortho_only": [list(x) for x in sorted(missing, key=len)[:3]]})


def kind_of_name(n):
    base = n
    if base.startswith("immediate"):
        base = base[len("immediate"):]
        base = base[0].lower() + base[1:]
    for nm, k in NAME_KIND:
        if base == nm or base == nm + "With" or (nm == "changeTo" and base in ("changeTo", "changeWith")):
            return k
        if base == nm + "To":
            return k
    return None


def check_name_kind(ctx, F):
    api_classes = ("R_", "RP_", "FullControlBaseT", "FullControlT", "PlanT", "PayloadPlanT")
    for fid, b in F.bodies.items():
        if not b["inst"] or b.get("cls") not in api_classes:
            continue
        k = kind_of_name(b["name"])
        if k is None:
            continue
        site = "%s::%s/%d" % (b["cls"], b["name"], len(b.get("params", [])))
        consts = set()
        for x in walk(b["body"]):
            if x.get("k") == "var" and x.get("d") == "enum" and x.get("o") == "TransitionType":
                consts.add(x["n"])
        calls = [F.fn(c)["name"] for c in b.get("calls", ())]
        ctx.instance("C02.name-kind", site, {"function": site, "loc": F.floc(fid), "constants": sorted(consts)})
        if b["name"].startswith("immediate"):
            base = b["name"][len("immediate"):]
            base = base[0].lower() + base[1:]
            seq = [n for n in calls if n in (base, "processRequest")]
            # order from the body
            order = []
            for x in walk(b["body"]):
                if x.get("k") == "call" and "f" in x and F.fn(x["f"])["name"] in (base, "processRequest"):
                    order.append((x.get("l", 0), F.fn(x["f"])["name"]))
            order = [n for _, n in sorted(order)]
            if not order and [n for n in calls if n != "stateId"] == [b["name"]]:
                continue      # immediateX<TState>() forwards to immediateX(stateId<TState>()), which is judged itself
            if order != [base, "processRequest"]:
                ctx.violation("C02.name-kind", site, "%s (%s)" % (site, F.floc(fid)), "%s is %s, expected [%s, processRequest]" % (b["name"], order, base), {})
            continue
        if consts:
            if consts != {k}:
                ctx.violation("C02.name-kind", site, "%s (%s)" % (site, F.floc(fid)),
                              "%s constructs TransitionType %s, its name denotes %s" % (b["name"], sorted(consts), k), {})
        else:
            # forwards to a same-named overload
            fw = [n for n in calls if kind_of_name(n) is not None]
            if any(kind_of_name(n) != k for n in fw):
                ctx.violation("C02.name-kind", site, "%s (%s)" % (site, F.floc(fid)), "%s forwards to %s" % (b["name"], fw), {})
