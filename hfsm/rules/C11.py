"""C11 — no API sequence corrupts memory, triggers undefined behaviour or allocates.

Decided: no dynamic allocation; writes that grow a fixed array are bounded by a dominating capacity test (in the function or at
every call site); the one-past read of the bit-range views; sub-range views cover exactly ceil(width/8) units; shift amounts in
range; memcpy/memset helpers only on trivially copyable operands of fitting size.
Not decided: in-range-ness of every StaticArrayT subscript (needs value ranges through all template arithmetic); the library's own
HFSM2_ASSERTs as proof obligations (they expand to nothing here).
"""
import re

from ..engine import site_str
from ..ir import AnalysisBroken, walk, strip, sym_paths
from .common import insts, paths_of
from .C12 import _expr_txt, _FN
from . import C03, C07, C08

TEXT = {
    "C11.no-alloc": "no new / delete other than reserved placement new; no call resolving to operator new/delete, malloc, calloc, realloc, free, aligned_alloc, "
                    "strdup; the headers include only <stdint.h>, <string.h>, <new>, <typeindex>, <intrin.h>",
    "C11.fork-index": "in the general RegistryT (machines with orthogonal regions, where a fork id is positive for composite and negative for orthogonal "
                      "forks) every subscript compoX[forkId - 1] lies on a path on which that fork id was tested > 0 since it was last assigned: an "
                      "orthogonal fork id would index far outside the composite arrays",
    "C11.bounded-growth": "a function that writes arr[n] (or constructs at &arr[n]) and then increments the member counter n must test n < capacity before the "
                          "write, or every call site must; exemption: BitWriteStreamT::write (bounded by C08.budget)",
    "C11.one-past": "a subscript with index width/8 into a view of ceil(width/8) units is guarded by width % 8 != 0",
    "C11.views": "BitArrayT::Bits::clear() touches exactly contain(width, 8) units; bits()/cbits() pass the unit offset and width of the Units descriptor unchanged",
    "C11.shifts": "every shift whose amount is a constant, a masked (& k) or modulo (% k) expression or a folded template constant is smaller than the width of "
                  "the promoted left operand; shifts needing a relational loop invariant are listed as undecided, never reported",
    "C11.stream-budget": "the bits save() can write along any path fit the fixed-size buffer (same rule instances as C08.budget): the stream cursor is the "
                         "one growing index BitWriteStreamT::write does not test itself",
    "C11.pool-reset": "clear() of the task pool resets every bookkeeping field (same rule instances as C07.reset): a stale high-water mark makes emplace() "
                      "hand out slot INVALID",
    "C11.storage-align": "TransitionT<Payload>::storage and TaskT<Payload>::storage (raw buffers a payload is placement-constructed into and read back from "
                         "by reinterpret_cast) are at least sizeof(Payload) large and lie at a multiple of alignof(Payload) in an object whose own alignment "
                         "and array stride are multiples of it - static_assert witness over payload types of alignment 1..32",
    "C11.after-remove": "in FullControlT::updatePlan (both payload flavours) nothing reads the task behind the iterator - *it, it->, or a reference bound to "
                        "either - after it.remove() released the slot (its origin / destination overlay the free list's links) until the iterator advances",
    "C11.memcpy": "overwriteWith / fill / reinterpret are instantiated only with trivially copyable operands, destination at least as large as the source",
}
MIN_INSTANCES = {"C11.fork-index": 8, "C11.no-alloc": 3, "C11.bounded-growth": 2, "C11.one-past": 1, "C11.views": 1, "C11.shifts": 5, "C11.memcpy": 2, "C11.storage-align": 8, "C11.after-remove": 1}
ALLOWED_INCLUDES = {"<stdint.h", "<string.h", "<new", "<typeindex", "<intrin.h"}
ALLOC_NAMES = {"malloc", "calloc", "realloc", "free", "aligned_alloc", "strdup", "operator new", "operator delete", "operator new[]", "operator delete[]",
               "posix_memalign", "alloca"}
GROWTH_EXEMPT = {("BitWriteStreamT", "write"): "the cursor is bounded by SERIAL_BITS: C08.budget proves max bits written <= capacity for every machine",
                 ("BitReadStreamT", "read"): "reads only; mirrored with the writer (C08.mirror)"}


def declare(ctx):
    for r, t in TEXT.items():
        ctx.rule(r, t)


def check(ctx, F):
    _FN["F"] = F
    check_no_alloc(ctx, F)
    check_fork_index(ctx, F)
    from . import C09
    C09.check_replay_bounds(ctx, F, "C11.one-past")
    C07.check_clear_statuses(ctx, F, "C11.one-past")
    # the history lookup is bounded by the length of the stored history (rule instances of C09.pin)
    C09.check_pin_bounds(ctx, F, "C11.one-past")
    check_growth(ctx, F)
    check_one_past(ctx, F)
    check_views(ctx, F)
    check_shifts(ctx, F)
    check_rotations(ctx, F)
    check_memcpy(ctx, F)
    if C08.has_serial(F):
        C08.check_budget(C03._Alias(ctx, {"C08.budget": "C11.stream-budget"}), F)
    C07.check_reset(C03._Alias(ctx, {"C07.reset": "C11.pool-reset"}), F)
    check_after_remove(ctx, F)


def check_after_remove(ctx, F):
    """typestate of a plan iterator: after it.remove() the slot is on the free list (origin / destination overlay prev / next): no *it, it->,
    and no use of a reference or pointer local bound to either, until operator++ moves the iterator on"""
    from ..ir import sym_paths
    for fid, b in F.bodies.items():
        if not b["inst"] or b["name"] != "updatePlan" or b.get("cls") not in ("FullControlT",):
            continue
        site = "FullControlT<%s>::updatePlan" % ("void" if F.spec(b["tid"]) in ("void", "voidpayload") else F.spec(b["tid"]))
        iters = set()
        for x in walk(b["body"]):
            if x.get("k") == "call" and "f" in x and F.fn(x["f"])["name"] == "remove":
                o = strip(x.get("obj") or {})
                if o.get("k") == "var" and o.get("d") == "local":
                    iters.add(o["n"])
        if not iters:
            continue
        bad = None
        n = 0

        def deref_of(node):
            """iterator local dereferenced by this node (operator* / operator-> on it), or None"""
            node = strip(node)
            if node.get("k") == "call" and "f" in node and F.fn(node["f"])["name"] in ("operator*", "operator->"):
                o = strip(node.get("obj") or (node.get("a") or [{}])[0])
                if o.get("k") == "var" and o.get("n") in iters:
                    return o["n"]
            return None

        for p in sym_paths(F, fid, 2):
            ctx.paths += 1
            released = set()
            bound = {}          # ref / pointer local -> iterator it was taken from
            for ev in p:
                node = ev[1] if len(ev) > 1 and isinstance(ev[1], dict) else None
                if node is None:
                    continue
                if ev[0] == "decl":
                    vs = node.get("vars") or [node]
                    for v in vs:
                        if (v.get("ref") or v.get("ptr")) and v.get("init") is not None:
                            for y in walk(v["init"]):
                                d = deref_of(y)
                                if d:
                                    bound[v["n"]] = d
                # uses
                for y in walk(node if ev[0] != "decl" else {"k": "seq", "s": [v.get("init") or {} for v in (node.get("vars") or [node])]}):
                    d = deref_of(y)
                    if d and d in released:
                        bad = "`%s` is dereferenced after %s.remove()" % (d, d)
                    if y.get("k") == "var" and y.get("d") == "local" and bound.get(y.get("n")) in released:
                        bad = "`%s` (bound to *%s) is used after %s.remove() released the task" % (y["n"], bound[y["n"]], bound[y["n"]])
                if ev[0] == "call" and ev[2] is not None:
                    nm = F.fn(ev[2])["name"]
                    o = strip(node.get("obj") or {})
                    if o.get("k") == "var" and o.get("n") in iters:
                        if nm == "remove":
                            released.add(o["n"])
                            n += 1
                        elif nm == "operator++":
                            released.discard(o["n"])
        ctx.instance("C11.after-remove", site, {"function": site, "loc": F.floc(fid), "iterators": sorted(iters), "removes_on_paths": n})
        if bad:
            ctx.violation("C11.after-remove", site, "%s (%s)" % (site, F.floc(fid)),
                          bad + ": the slot is on the free list, its origin / destination fields now hold the list's links (INVALID = 0xFFFF): the read "
                          "yields garbage and the mark it addresses lies outside the bit array", {})


_FORK_SUB = re.compile(r"compo\w+\._items\[\(([\w:.]*)\.forkId-#1\)\]")


def check_fork_index(ctx, F):
    for fid, b in list(insts(F, "RegistryT", None, spec="general")) + list(insts(F, "RegistryT", None, spec="noortho")):
        if not any(n.startswith("compo") for n in b.get("mems", ())):
            continue
        general = F.spec(b["tid"]) == "general"
        site = "RegistryT<%s>::%s" % ("general" if general else "noortho", b["name"])
        bad = None
        used = 0
        for p in sym_paths(F, fid, 2):
            ctx.paths += 1
            positive = set()          # symbols whose forkId is known > 0 on this path
            moved = None
            for ev in p:
                texts = []
                if ev[0] == "assume":
                    m = re.search(r"\(?([\w:.]*)\.forkId>#0\)?$", ev[2])
                    if m:
                        if ev[3]:
                            positive.add(m.group(1))
                        continue
                    # without orthogonal regions a fork id is positive or invalid: a valid Parent (its bool conversion) is a positive one
                    m = None if general else re.match(r"^([\w:.]*?)(\.Parent::operator bool\(\))?$", ev[2])
                    if m and ev[3] and m.group(1).startswith("L:"):
                        positive.add(m.group(1))
                        continue
                    texts = [ev[2]]
                elif ev[0] == "write":
                    texts = [ev[2], ev[3] or ""]
                elif ev[0] == "ret":
                    texts = [ev[2] or ""]
                elif ev[0] == "call":
                    texts = [ev[3] or ""] + list(ev[4] or [])
                    if ev[2] is not None and F.fn(ev[2])["name"] == "operator=" and (ev[3] or "").startswith("L:"):
                        moved = ev[3]                    # the walk moves on to another ancestor (the new value was computed from the old one)
                for t in texts:
                    for m in _FORK_SUB.finditer(t or ""):
                        used += 1
                        if m.group(1) not in positive:
                            bad = "compo…[%s.forkId - 1]" % m.group(1)
                if moved and (ev[0] == "write" and ev[2] == moved or ev[0] not in ("write", "call")):
                    positive.discard(moved)
                    moved = None
        if used:
            ctx.instance("C11.fork-index", site, {"function": site, "loc": F.floc(fid), "subscripts_seen": used})
        if bad:
            ctx.violation("C11.fork-index", site, "%s (%s)" % (site, F.floc(fid)),
                          "%s is used on a path where the fork id was not tested > 0: for a child of an orthogonal region the id is negative, for the root "
                          "(which has no parent) it is the invalid id, and the subscript lands far outside the array" % bad, {})


def check_no_alloc(ctx, F):
    n_new = 0
    for fid, b in F.bodies.items():
        for x in walk(b.get("body") or {}):
            k = x.get("k")
            if k == "new":
                n_new += 1
                site = "new@%s::%s" % (b.get("cls"), b["name"])
                ctx.instance("C11.no-alloc", site, {"function": site_str(F, fid), "loc": F.floc(fid), "placement_args": len(x.get("place", []))})
                if not x.get("place") or x.get("reserved_placement") is False or x.get("array"):
                    ctx.violation("C11.no-alloc", site, "%s (%s)" % (site_str(F, fid), F.floc(fid)),
                                  "non-placement `new` (dynamic allocation) in %s" % site_str(F, fid), {"line": x.get("l")})
            elif k == "delete":
                ctx.violation("C11.no-alloc", "delete@%s::%s" % (b.get("cls"), b["name"]), "%s (%s)" % (site_str(F, fid), F.floc(fid)), "`delete` expression", {})
            elif k == "call" and "f" in x:
                fn = F.fn(x["f"])
                if fn["name"] in ALLOC_NAMES:
                    ctx.violation("C11.no-alloc", "%s@%s::%s" % (fn["name"], b.get("cls"), b["name"]), "%s (%s)" % (site_str(F, fid), F.floc(fid)),
                                  "call to %s" % fn["name"], {})
    incs = set()
    for i in F.raw.get("includes", []):
        if i["inc"].startswith("<"):
            incs.add(i["inc"].rstrip(">"))
    ctx.instance("C11.no-alloc", "includes", {"system_includes": sorted(incs)})
    for i in sorted(incs - ALLOWED_INCLUDES):
        ctx.violation("C11.no-alloc", "include/" + i, "#include %s>" % i, "the library includes %s>, which is not one of the allocation-free headers it is known to need" % i, {})
    # members: no pointer-owning standard containers (record types of the library are scalars / arrays / references / library records).
    # Judged on the witness zoo, whose context / payload / generator types are plain structs: in the repository's test TUs a member
    # may have a *user-supplied* type (Context = std::vector<...>), which is the user's storage, not the library's.
    for t in (F.types if not F.label.startswith("test_") else ()):
        if t.get("inroots") and t.get("complete") and not t.get("dependent"):
            for f in t.get("fields", []):
                ft = F.type(f.get("tid"))
                if ft is not None and not ft.get("inroots") and ft.get("qn", "").startswith("std::") and ft.get("name") != "type_index":
                    ctx.violation("C11.no-alloc", "member/%s::%s" % (t.get("tmpl") or t["name"], f["n"]), t.get("loc", ""),
                                  "member %s of %s has the standard-library type %s (may allocate)" % (f["n"], t.get("tmpl") or t["name"], ft.get("qn")), {})


def check_growth(ctx, F):
    unguarded = {}
    for fid, b in F.bodies.items():
        if not b["inst"] or not b.get("cls"):
            continue
        # candidates: the body both indexes/constructs at a this-member counter and increments it
        body = b.get("body") or {}
        incs = set()
        for x in walk(body):
            if x.get("k") == "un" and x.get("op") in ("++",):
                e = strip(x["e"])
                if e.get("k") == "mem" and strip(e.get("b") or {}).get("k") == "this":
                    incs.add(e["n"])
            if x.get("k") == "asg" and x.get("op") == "+=":
                e = strip(x["lhs"])
                if e.get("k") == "mem" and strip(e.get("b") or {}).get("k") == "this":
                    incs.add(e["n"])
        if not incs:
            continue
        key = (b["cls"], b["name"])
        site = "%s::%s" % key
        grows = None
        for p in paths_of(ctx, F, fid):
            guards = []
            for ev in p:
                if ev[0] == "assume":
                    guards.append((ev[2], ev[3]))
                target = None
                if ev[0] == "new" and ev[2]:
                    target = ev[2]
                elif ev[0] == "write":
                    target = ev[2]
                if target:
                    for c in incs:
                        m = re.search(r"\[\(?this\.%s\b[^\]]*\]" % c, target) or re.search(r"\[this\.%s\]" % c, target)
                        if m:
                            ok = any(re.match(r"^\(this\.%s<#\d+\)$" % c, g) and t for g, t in guards) or \
                                any(re.match(r"^\(this\.%s>=#\d+\)$" % c, g) and not t for g, t in guards) or \
                                any(re.match(r"^\(this\.%s==#\d+\)$" % c, g) and not t for g, t in guards) and False
                            grows = grows or (c, ok)
                            if not ok:
                                grows = (c, False)
        if grows is None:
            continue
        c, ok = grows
        ctx.instance("C11.bounded-growth", site, {"function": site, "loc": F.floc(fid), "counter": c, "self_guarded": ok})
        if ok:
            continue
        if key in GROWTH_EXEMPT:
            ctx.note("%s not self-guarded: %s" % (site, GROWTH_EXEMPT[key]))
            continue
        unguarded.setdefault(key, []).append(fid)
    # call sites of the unguarded growers
    for key, fids in unguarded.items():
        fset = set(fids)
        sites = 0
        bad_sites = []
        for cid, cb in F.bodies.items():
            if not cb["inst"] or not (fset & set(cb.get("calls", ()))):
                continue
            if (cb.get("cls"), cb["name"]) == key:
                continue
            for p in paths_of(ctx, F, cid):
                guards = []
                for ev in p:
                    if ev[0] == "assume":
                        guards.append((ev[2], ev[3]))
                    if ev[0] == "call" and ev[2] in fset:
                        sites += 1
                        obj = ev[3] or "this"
                        ok = any((obj in g and re.search(r"(_count|count\(\))<#?\w+", g) and t) for g, t in guards)
                        if not ok:
                            bad_sites.append(site_str(F, cid))
        site = "%s::%s" % key
        if bad_sites:
            uniq = sorted(set(bad_sites))
            ctx.violation("C11.bounded-growth", site, "%s (%s)" % (site, F.floc(fids[0])),
                          "%s writes _items[_count++] with no capacity test (HFSM2_ASSERT expands to nothing) and %d of its call sites do not test capacity either "
                          "(e.g. %s): queuing more entries than the array holds writes past it" % (site, len(uniq), uniq[:4]), {"unguarded_callers": uniq[:40]})


def check_one_past(ctx, F):
    for cls in ("Bits", "CBits"):
        cands = [(fid, b) for fid, b in F.bodies.items() if b.get("cls") == cls and b["name"] == "operator bool"]
        done = set()
        for fid, b in sorted(cands, key=lambda fb: not fb[1]["inst"]):
            if b.get("pat") in done:
                continue
            done.add(b.get("pat"))
            site = "%s::operator bool" % cls
            bad = None
            for p in sym_paths(F, fid, 1):
                guards = []
                for ev in p:
                    if ev[0] == "assume":
                        guards.append((ev[2], ev[3]))
                    if ev[0] == "decl" and ev[2] and re.search(r"_storage\[\(this\._width/#8\)\]", ev[2]):
                        ok = any(re.search(r"this\._width%#8", g) and (t if "==" not in g else not t) for g, t in guards)
                        if not ok:
                            bad = "reads _storage[_width / 8] without testing _width % 8: for a width that is a multiple of 8 this is one past the view's last unit"
                    if ev[0] == "ret" and ev[2] and re.search(r"_storage\[\(this\._width/#8\)\]", ev[2]):
                        ok = any(re.search(r"this\._width%#8", g) and (t if "==" not in g else not t) for g, t in guards)
                        if not ok:
                            bad = "reads _storage[_width / 8] without testing _width % 8: for a width that is a multiple of 8 this is one past the view's last unit"
            ctx.instance("C11.one-past", site, {"function": site, "loc": F.floc(fid)})
            if bad:
                ctx.violation("C11.one-past", site, "%s (%s)" % (site, F.floc(fid)), bad, {})


# accepted spellings of ceil(_width / 8)
UNITS_OF_WIDTH = ("contain(_width,8)", "(_width+7)/8", "_width+7)/8", "(_width+8-1)/8", "_width/8+(_width%8!=0)", "(_width+7)>>3")


def check_views(ctx, F, rule="C11.views"):
    for fid, b in insts(F, "Bits", {"clear"}):
        if b.get("params") or b.get("ftargs"):
            continue
        site = "Bits::clear()"
        defs = {}
        for x in walk(b["body"]):
            if x.get("k") == "decl":
                for v in x["vars"]:
                    defs[v["n"]] = _expr_txt(v.get("init") or {})
        loops = [x for x in walk(b["body"]) if x.get("k") in ("for", "while")]
        bound = None
        if loops:
            c = strip(loops[0].get("c") or {})
            if c.get("k") == "bin" and c.get("op") in ("<", "<=", "!="):
                bn = _expr_txt(c["rhs"])
                bound = re.sub(r"this\.|\s", "", defs.get(bn, bn))
                if c.get("op") == "<=":
                    # i <= n visits n + 1 units
                    bound = bound[:-2] if bound.endswith("-1") else "(%s)+1" % bound
        ok = bound is not None and re.sub(r"^\((.*)\)$", r"\1", bound) in UNITS_OF_WIDTH
        ctx.instance(rule, site, {"function": site, "loc": F.floc(fid), "units_cleared": bound})
        if not ok:
            ctx.violation(rule, site, "%s (%s)" % (site, F.floc(fid)),
                          "Bits::clear() clears `%s` units, expected contain(_width, 8): one unit too many for widths that are multiples of 8 (writes past the view)" % bound, {})
    for fid, b in insts(F, "BitArrayT", {"bits", "cbits"}):
        site = "BitArrayT::" + b["name"]
        rets = [_expr_txt(x["e"]) for x in walk(b["body"]) if x.get("k") == "ret" and x.get("e") is not None]
        ctx.instance(rule, site, {"function": site, "loc": F.floc(fid), "returns": rets})
        okr = [r for r in rets if re.sub(r"this\.", "", r) in ("T{_storage+units.unit,units.width}", "T{&_storage[units.unit],units.width}",
                                                                 "T{_storage+UNIT,WIDTH}", "T{&_storage[UNIT],WIDTH}")]
        if len(okr) != len(rets) or not rets:
            ctx.violation(rule, site, "%s (%s)" % (site, F.floc(fid)), "%s returns %s, expected {_storage + units.unit, units.width}" % (site, rets), {})


WIDTH = {"int": 32, "unsigned int": 32, "long": 64, "unsigned long": 64, "long long": 64, "unsigned long long": 64}


def promoted_width(ty):
    if ty is None:
        return None
    ty = ty.replace("enum:", "")
    if ty in WIDTH:
        return WIDTH[ty]
    if ty in ("char", "signed char", "unsigned char", "short", "unsigned short", "bool"):
        return 32
    return None


def amount_bound(e, defs, depth=0):
    """upper bound (inclusive) of a shift amount expression, or None"""
    e = strip(e)
    if not isinstance(e, dict) or depth > 4:
        return None
    if "cv" in e:
        return e["cv"]
    k = e.get("k")
    if k == "lit":
        return e.get("v")
    if k == "bin":
        if e["op"] == "&":
            for side in (e["lhs"], e["rhs"]):
                s = strip(side)
                if "cv" in s or s.get("k") == "lit":
                    return s.get("cv", s.get("v"))
        if e["op"] == "%":
            s = strip(e["rhs"])
            if "cv" in s or s.get("k") == "lit":
                return s.get("cv", s.get("v")) - 1
        if e["op"] == "-":
            l = amount_bound(e["lhs"], defs, depth + 1)
            r = strip(e["rhs"])
            rv = r.get("cv", r.get("v") if r.get("k") == "lit" else None)
            if l is not None and isinstance(rv, int) and rv >= 0:
                return l - rv
    if k == "var" and e.get("d") == "local" and e["n"] in defs:
        bs = [amount_bound(d, defs, depth + 1) for d in defs[e["n"]]]
        if bs and all(x is not None for x in bs):
            return max(bs)
    if k == "call" and "f" in e and _FN["F"].fn(e["f"])["name"] == "min":
        bs = [amount_bound(a, defs, depth + 1) for a in e.get("a", [])]
        bs = [x for x in bs if x is not None]
        if bs:
            return min(bs)
    return None


def check_shifts(ctx, F):
    seen = set()
    for fid, b in F.bodies.items():
        if not b["inst"]:
            continue
        body = b.get("body") or {}
        shifts = [x for x in walk(body) if x.get("k") in ("bin", "asg") and x.get("op") in ("<<", ">>", "<<=", ">>=")]
        if not shifts:
            continue
        defs = {}
        for x in walk(body):
            if x.get("k") == "decl":
                for v in x["vars"]:
                    if v.get("init") is not None:
                        defs.setdefault(v["n"], []).append(v["init"])
            if x.get("k") == "asg" and strip(x["lhs"]).get("k") == "var":
                defs.setdefault(strip(x["lhs"])["n"], []).append(x["rhs"] if x["op"] == "=" else {"k": "opaque"})
        for x in shifts:
            lt = x.get("cty") or strip(x["lhs"]).get("ty") if x["k"] == "asg" else x.get("ty")
            w = promoted_width(x.get("ty") if x["k"] == "bin" else (x.get("cty") or x.get("ty")))
            site = "%s::%s@%s" % (b.get("cls") or b.get("ns", ""), b["name"], _expr_txt(x)[:60])
            key = (b.get("pat"), x.get("l"), _expr_txt(x)[:60])
            bound = amount_bound(x["rhs"], defs)
            if bound is None or w is None:
                if key not in seen:
                    seen.add(key)
                    ctx.undecided.append({"shift": _expr_txt(x)[:80], "in": site_str(F, fid), "loc": F.floc(fid), "reason": "amount needs a relational loop invariant"})
                continue
            ctx.instance("C11.shifts", site, {"function": site_str(F, fid), "loc": F.floc(fid), "shift": _expr_txt(x)[:80], "max_amount": bound, "operand_bits": w})
            if bound >= w or bound < 0:
                ctx.violation("C11.shifts", site, "%s (%s)" % (site_str(F, fid), F.floc(fid)),
                              "shift `%s` can shift by %d, the promoted left operand has %d bits (undefined behaviour)" % (_expr_txt(x)[:80], bound, w), {})


def check_rotations(ctx, F):
    """rotl(x, k) = (x << k) | (x >> (W - k)) is defined only for 0 < k < W: every call passes such a constant"""
    for fid, b in F.bodies.items():
        if not b["inst"]:
            continue
        for x in walk(b.get("body") or {}):
            if x.get("k") == "call" and "f" in x and F.fn(x["f"])["name"] == "rotl" and not F.fn(x["f"]).get("cls"):
                a = x.get("a", [])
                w = promoted_width(F.fn(x["f"])["params"][0].get("ty")) if F.fn(x["f"]).get("params") else None
                wreal = {"unsigned int": 32, "unsigned long": 64}.get(F.fn(x["f"])["params"][0].get("ty"), w)
                k = strip(a[1]) if len(a) > 1 else {}
                kv = k.get("cv", k.get("v"))
                site = "rotl@%s::%s/%s" % (b.get("cls"), b["name"], kv)
                ctx.instance("C11.shifts", site, {"function": site_str(F, fid), "loc": F.floc(fid), "rotation": kv, "operand_bits": wreal})
                if not isinstance(kv, int) or not (0 < kv < (wreal or 0)):
                    ctx.violation("C11.shifts", site, "%s (%s)" % (site_str(F, fid), F.floc(fid)),
                                  "rotl is called with rotation %s on a %s-bit operand: x >> (W - k) is undefined for k outside (0, W)" % (kv, wreal), {})


def check_memcpy(ctx, F):
    for fid, b in F.bodies.items():
        if not b["inst"] or b.get("cls") or b["name"] not in ("overwriteWith", "fill", "reinterpret"):
            continue
        fta = b.get("ftargs") or []
        site = "%s<%s>" % (b["name"], ",".join(F._targ(a, 0) for a in fta))[:120]
        info = []
        bad = None
        for a in fta:
            if isinstance(a, dict) and "t" in a:
                t = F.type(a["t"])
                info.append((t.get("tmpl") or t.get("name"), t.get("size"), t.get("trivcopy")))
                if t.get("trivcopy") is False:
                    bad = "%s is not trivially copyable" % (t.get("tmpl") or t.get("name"))
            else:
                info.append((a if isinstance(a, str) else str(a), None, True))
        if b["name"] == "overwriteWith" and len(info) == 2 and info[0][1] is not None and info[1][1] is not None and info[0][1] < info[1][1]:
            bad = bad or "destination (%d bytes) smaller than source (%d bytes)" % (info[0][1], info[1][1])
        ctx.instance("C11.memcpy", b["name"] + "/" + ",".join(str(i[0]) for i in info)[:80], {"instantiation": site, "operands": info})
        if bad:
            ctx.violation("C11.memcpy", site, "%s (%s)" % (site, F.floc(fid)), "%s: %s" % (site, bad), {})


# planted positive examples (witness/canary.cpp): every construct the rule exists for must be reported there on every run
CANARY = {"check": [check_no_alloc],
          "expect": ["C11.no-alloc|new@None::make", "C11.no-alloc|new@None::many", "C11.no-alloc|delete@None::drop", "C11.no-alloc|malloc@None::make",
                     "C11.no-alloc|free@None::make", "C11.no-alloc|include/<vector", "C11.no-alloc|member/Node::owned"],
          "forbid": ["new@None::in_place"]}


def final(ctx):
    # unit counts are array extents: contain() is decided by a static_assert witness (shared with C18.helpers)
    from . import helpwit
    helpwit.run(ctx, "C11.views", only={"contain"})
    from . import alignwit
    alignwit.run(ctx, "C11.storage-align")
    from . import sizewit
    sizewit.run(ctx, "C11.stream-budget")

