"""C05 — update / react / query reach exactly the active states in the documented order; consumption.

Decided (structure of the code, all instantiations):
  C05.phases        R_::update / react / query drive the passes in the documented order, re-arming _consumed per phase
  C05.region-order  head vs sub-states order in C_/O_ update members and the 16 reaction wrappers; OS_: Initial before Remaining
  C05.consume       between two consecutive deliveries on any path there is a `_consumed` test, a re-arm, or an entry-gated callee
  C05.injection     injected bases run before the own handler on the way down, after it on the way up
(The order of injected bases vs the own handler is judged for query and exitGuard as well: query walks down, exitGuard up.)
"""
import re

from ..engine import site_str
from ..ir import AnalysisBroken, sym_paths
from .common import prong_origin

REACT = ("PreReact", "React", "PostReact", "Query")
UPD = ("PreUpdate", "Update", "PostUpdate")
FAMILY = set(["deep" + x for x in REACT] + ["wide" + x for x in REACT] + ["execute"])

TEXT = {
    "C05.config-order": "the reaction order chosen in the configuration reaches the machine: Config::BottomUpReactions sets ReactOrder = BottomUp, the default is "
                        "TopDown, and every other option alias (ContextT, ManualActivation, RankT, UtilityT, RandomT, SubstitutionLimitN, TaskCapacityN, "
                        "PayloadT) forwards ReactOrder unchanged (type-level witness, static_asserts decided by clang -fsyntax-only)",
    "C05.phases": "R_::update: deepPreUpdate < deepUpdate < deepPostUpdate < (deepUpdatePlans < clearStatuses) < processRequest; "
                  "R_::react: deepPreReact < _consumed:=false < deepReact < _consumed:=false < deepPostReact < (plans) < processRequest; "
                  "R_::query: const, exactly one deepQuery on a ConstControl, no processRequest",
    "C05.region-order": "C_/O_::deepPreUpdate/deepUpdate: head before sub-states; deepPostUpdate: sub-states before head; wrappers: "
                        "TopDown Pre/React/Query head first, Post sub-states first; BottomUp mirrored; OS_<nonlast>: Initial before Remaining; "
                        "each callee called at most once per path and both on the unconsumed path",
    "C05.consume": "in every reaction-family function, two consecutive calls that may deliver an event are separated by a test of "
                   "_consumed whose consumed-branch skips the second, or a re-arm (_consumed := false), or the second callee is entry-gated",
    "C05.active-prong": "in C_::deep{PreUpdate,Update,PostUpdate,PreReact,React,PostReact,Query} the prong handed to the sub-state "
                        "dispatcher / reaction wrapper is registry.compoActive[COMPO_INDEX] of this very region (inactive states receive nothing)",
    "C05.injection": "S_<headed>::deepX: Head::wideX before Head::X for X in EntryGuard, Enter, Reenter, PreUpdate, Update, PreReact, React; "
                     "Head::X before Head::wideX for PostUpdate, PostReact, Exit; A_<multi>::wideX: First before Rest resp. Rest before First",
}

MIN_INSTANCES = {"C05.config-order": 6, "C05.active-prong": 7, "C05.phases": 3, "C05.region-order": 6 + 8 + 7, "C05.consume": 12, "C05.injection": 10 + 10}


def declare(ctx):
    for r, t in TEXT.items():
        ctx.rule(r, t)


def consumed_test(symstr, truth):
    """-> True if the branch taken means 'consumed', False if 'not consumed', None if not a _consumed test."""
    if "_consumed" not in symstr:
        return None
    s = symstr
    m = re.match(r"^\(*([\w:.\[\]#]*\._consumed)\)*$", s)
    if m:
        return truth
    m = re.match(r"^\(([\w:.\[\]#]*\._consumed)(==|!=)#(False|True|0|1)\)$", s)
    if m:
        lit = m.group(3) in ("True", "1")
        eq = m.group(2) == "=="
        consumed_if_true = (lit if eq else not lit)
        return consumed_if_true if truth else (not consumed_if_true)
    m = re.match(r"^\(#(False|True|0|1)(==|!=)([\w:.\[\]#]*\._consumed)\)$", s)
    if m:
        lit = m.group(1) in ("True", "1")
        eq = m.group(2) == "=="
        consumed_if_true = (lit if eq else not lit)
        return consumed_if_true if truth else (not consumed_if_true)
    raise AnalysisBroken("unrecognised _consumed test idiom: %s" % s)


def is_delivery(F, fid):
    k = F.fkey(fid)
    return k[0] == "S_" and k[1] == "headed" and k[2] in ("deep" + x for x in REACT)


def family_fids(F):
    return [fid for fid, b in F.bodies.items() if b["inst"] and b["name"] in FAMILY
            and b.get("cls") in ("S_", "C_", "CS_", "O_", "OS_", "PreReactWrapperT", "ReactWrapperT", "PostReactWrapperT", "QueryWrapperT")]


def check(ctx, F):
    # every orthogonal sibling receives the phase on every path (the reaction phases may stop at a consumed event): rule instances shared with C01
    from . import C01, C03
    C01.check_ortho_all(C03._Alias(ctx, {"C01.ortho-all": "C05.region-order"}), F)
    fam = family_fids(F)
    paths = {}
    for fid in fam:
        paths[fid] = sym_paths(F, fid)
        ctx.paths += len(paths[fid])

    # mayDeliver: least fixpoint
    may = set(f for f in fam if is_delivery(F, f))
    changed = True
    callees = {}
    for fid in fam:
        cs = set()
        for p in paths[fid]:
            for ev in p:
                if ev[0] == "call" and ev[2] is not None:
                    cs.add(ev[2])
        callees[fid] = cs
    while changed:
        changed = False
        for fid in fam:
            if fid not in may and callees[fid] & may:
                may.add(fid)
                changed = True

    # entryGated: greatest fixpoint
    gated = set(f for f in fam if not is_delivery(F, f))

    def first_ok(fid, gatedset):
        for p in paths[fid]:
            tested = False
            for ev in p:
                if ev[0] == "assume":
                    c = consumed_test(ev[2], ev[3])
                    if c is False:
                        tested = True
                elif ev[0] == "write" and ev[2].endswith("._consumed") and ev[3] in ("#False", "#0"):
                    tested = True
                elif ev[0] == "call" and ev[2] in may:
                    if not tested and ev[2] not in gatedset:
                        return False
                    break
        return True

    changed = True
    while changed:
        changed = False
        for fid in list(gated):
            if not first_ok(fid, gated):
                gated.discard(fid)
                changed = True

    # C05.consume
    for fid in fam:
        if is_delivery(F, fid):
            continue
        site = site_str(F, fid)
        ndeliv = 0
        bad = None
        for p in paths[fid]:
            ok = False       # a fresh not-consumed test / re-arm since the last delivery
            delivered = None
            for ev in p:
                if ev[0] == "assume":
                    c = consumed_test(ev[2], ev[3])
                    if c is False:
                        ok = True
                elif ev[0] == "write" and ev[2].endswith("._consumed") and ev[3] in ("#False", "#0"):
                    ok = True
                elif ev[0] == "call" and ev[2] in may:
                    ndeliv += 1
                    if delivered is not None and not ok and ev[2] not in gated:
                        bad = (delivered, ev)
                    delivered = ev
                    ok = False
        if ndeliv:
            ctx.instance("C05.consume", site, {"function": site, "loc": F.floc(fid), "delivering_calls_on_paths": ndeliv,
                                               "entry_gated": fid in gated})
        if bad:
            c1, c2 = bad
            ctx.violation("C05.consume", site, "%s (%s)" % (site, F.floc(fid)),
                          "event may be delivered by %s after %s consumed it: no _consumed test between the calls and the second callee is not entry-gated"
                          % (F.fdisp(c2[2]), F.fdisp(c1[2])),
                          {"first_call_line": c1[1].get("l"), "second_call_line": c2[1].get("l"),
                           "second_callee": F.fdisp(c2[2]), "instantiation": F.tname(F.fn(fid).get("tid"), 1)[:200]})

    prong_origin(ctx, F, "C05.active-prong", {
        "deepPreUpdate": ("compoActive", ("widePreUpdate",)), "deepUpdate": ("compoActive", ("wideUpdate",)),
        "deepPostUpdate": ("compoActive", ("widePostUpdate",)), "deepPreReact": ("compoActive", ("execute", "widePreReact")),
        "deepReact": ("compoActive", ("execute", "wideReact")), "deepPostReact": ("compoActive", ("execute", "widePostReact")),
        "deepQuery": ("compoActive", ("execute", "wideQuery"))})
    check_region_order(ctx, F)
    check_phases(ctx, F)
    check_injection(ctx, F)


# ------------------------------------------------------------------------------------------------


def role_of_callee(F, cur_tid, callee_fid):
    """'head' | 'subs' | 'initial' | 'remaining' | None for a call made by a region member."""
    f = F.fn(callee_fid)
    if f is None:
        return None
    c = f.get("cls")
    if c == "S_":
        return "head"
    if c in ("CS_", "OS_"):
        return "subs"
    return None


HEAD_FIRST = {("C_", "deepPreUpdate"), ("C_", "deepUpdate"), ("O_", "deepPreUpdate"), ("O_", "deepUpdate")}
SUBS_FIRST = {("C_", "deepPostUpdate"), ("O_", "deepPostUpdate")}
WRAP_ORDER = {  # (wrapper, order) -> first role
    ("PreReactWrapperT", "TopDown"): "head", ("ReactWrapperT", "TopDown"): "head", ("QueryWrapperT", "TopDown"): "head",
    ("PostReactWrapperT", "TopDown"): "subs",
    ("PreReactWrapperT", "BottomUp"): "subs", ("ReactWrapperT", "BottomUp"): "subs", ("QueryWrapperT", "BottomUp"): "subs",
    ("PostReactWrapperT", "BottomUp"): "head",
}


def check_region_order(ctx, F):
    for fid, b in F.bodies.items():
        if not b["inst"]:
            continue
        cls, spec, name = F.fkey(fid)
        expect = None
        stem = None
        if (cls, name) in HEAD_FIRST:
            expect, stem = ["head", "subs"], name[4:]
        elif (cls, name) in SUBS_FIRST:
            expect, stem = ["subs", "head"], name[4:]
        elif cls in ("PreReactWrapperT", "ReactWrapperT", "PostReactWrapperT", "QueryWrapperT") and name == "execute":
            first = WRAP_ORDER.get((cls, spec))
            if first is None:
                raise AnalysisBroken("unknown reaction order %s for %s" % (spec, cls))
            expect = [first, "subs" if first == "head" else "head"]
            stem = cls[:-len("WrapperT")]
        elif cls == "OS_" and spec == "nonlast" and name in ["wide" + x for x in REACT + UPD]:
            expect, stem = ["initial", "remaining"], name[4:]
        if expect is None:
            continue
        site = site_str(F, fid) + ("/" + str(len(b.get("params", []))) if name == "execute" else "")
        full_seen = False
        bad = None
        for p in sym_paths(F, fid):
            seq = []
            for ev in p:
                if ev[0] != "call" or ev[2] is None:
                    continue
                cf = F.fn(ev[2])
                cn = cf["name"]
                if not (cn == "deep" + stem or cn == "wide" + stem):
                    continue
                if cls == "OS_":
                    role = "remaining" if cf.get("cls") == "OS_" else "initial"
                else:
                    role = role_of_callee(F, b.get("tid"), ev[2])
                if role:
                    seq.append(role)
            if seq == expect:
                full_seen = True
            elif seq != expect[:len(seq)]:
                bad = seq
        ctx.instance("C05.region-order", site, {"function": site, "loc": F.floc(fid), "expected_order": expect})
        if bad is not None:
            ctx.violation("C05.region-order", site, "%s (%s)" % (site, F.floc(fid)),
                          "delivery order is %s on some path, expected a prefix of %s" % (bad, expect), {"expected": expect, "found": bad})
        elif not full_seen:
            ctx.violation("C05.region-order", site + "/incomplete", "%s (%s)" % (site, F.floc(fid)),
                          "no path delivers to both %s" % expect, {"expected": expect})


def check_phases(ctx, F):
    want_plans = None
    for fid, b in F.bodies.items():
        if not b["inst"] or b.get("cls") != "R_" or b["name"] not in ("update", "react", "query"):
            continue
        name = b["name"]
        site = site_str(F, fid)
        # does this configuration have plans?  (deepUpdatePlans exists in the apex type)
        has_plans = any(x["name"] == "deepUpdatePlans" for x in F.fns)
        if name == "update":
            expect = ["deepPreUpdate", "deepUpdate", "deepPostUpdate"]
        elif name == "react":
            expect = ["deepPreReact", "rearm", "deepReact", "rearm", "deepPostReact"]
        else:
            expect = ["deepQuery"]
        if name != "query":
            if has_plans:
                expect += ["deepUpdatePlans", "clearStatuses"]
            expect += ["processRequest"]
        interesting = set(expect) | {"deepPreUpdate", "deepUpdate", "deepPostUpdate", "deepPreReact", "deepReact", "deepPostReact",
                                     "deepQuery", "deepUpdatePlans", "clearStatuses", "processRequest", "processTransitions"}
        ok = True
        found = None

        def seqs_of(f, depth):
            """phase-token sequences of the paths of `f`; a call to another member of R_ that is not itself a phase (an extracted helper) is
            replaced by the sequences of its own paths"""
            out = set()
            for p in sym_paths(F, f):
                cur = [()]
                for ev in p:
                    if ev[0] == "call" and ev[2] is not None:
                        cf = F.fn(ev[2])
                        n = cf["name"]
                        if n in interesting:
                            cur = [c + (n,) for c in cur]
                        elif cf.get("cls") == "R_" and depth < 2 and F.body(ev[2]) is not None and (ev[3] or "this") == "this" and cf.get("kind") not in ("ctor", "dtor"):
                            sub = seqs_of(ev[2], depth + 1)
                            if any(sub):
                                cur = [c + t for c in cur for t in sub]
                    elif ev[0] == "write" and ev[2].endswith("._consumed"):
                        tok = "rearm" if ev[3] in ("#False", "#0") else "consume!"
                        cur = [c + (tok,) for c in cur]
                out.update(cur)
                if len(out) > 64:
                    raise AnalysisBroken("%s: too many phase sequences" % site)
            return out
        for seq in seqs_of(fid, 0):
            if list(seq) != expect:
                ok = False
                found = list(seq)
        ctx.instance("C05.phases", site, {"function": site, "loc": F.floc(fid), "expected": expect})
        if not ok:
            ctx.violation("C05.phases", site, "%s (%s)" % (site, F.floc(fid)), "phase sequence %s differs from %s" % (found, expect),
                          {"expected": expect, "found": found})
        if name == "query":
            if not b.get("const"):
                ctx.violation("C05.phases", site + "/const", "%s (%s)" % (site, F.floc(fid)), "R_::query is not const", {})
            # the control handed down must be a ConstControlT
            okc = False
            for n in [x for x in _walk(b["body"]) if x.get("k") == "decl"]:
                for v in n["vars"]:
                    t = F.type(v.get("tid"))
                    if t and t.get("tmpl") == "ConstControlT":
                        okc = True
            if not okc:
                ctx.violation("C05.phases", site + "/control", "%s (%s)" % (site, F.floc(fid)), "R_::query does not use a ConstControlT", {})


def _walk(n):
    from ..ir import walk
    return walk(n)


# query() "visits the active states in that order" - the order of update / react: a walk down; the exit guards are asked sub-states first, like exit(): a walk up
DOWN = ("EntryGuard", "Enter", "Reenter", "PreUpdate", "Update", "PreReact", "React", "Query")
UP = ("PostUpdate", "PostReact", "Exit", "ExitGuard")
NOT_JUDGED = ()


def _lower(x):
    return x[0].lower() + x[1:]


def check_injection(ctx, F):
    for fid, b in F.bodies.items():
        if not b["inst"]:
            continue
        cls, spec, name = F.fkey(fid)
        if cls == "S_" and spec == "headed" and name.startswith("deep") and name[4:] in DOWN + UP + NOT_JUDGED:
            X = name[4:]
            site = site_str(F, fid)
            seqs = set()
            for p in sym_paths(F, fid):
                seq = []
                for ev in p:
                    if ev[0] == "call" and ev[2] is not None:
                        cf = F.fn(ev[2])
                        if cf["name"] == "wide" + X and cf.get("cls") == "A_":
                            seq.append("wide")
                        elif cf["name"] == _lower(X) and ev[3] is not None and ev[3].startswith("this"):
                            seq.append("own")
                    elif ev[0] == "icall":
                        if re.search(r"fn:[\w<>,:]*::%s\b" % _lower(X), ev[2]) and ev[2].startswith("(this->*"):
                            seq.append("own")
                seqs.add(tuple(seq))
            if X in NOT_JUDGED:
                ctx.note("S_::deep%s delivers %s (not judged)" % (X, sorted(seqs)))
                continue
            expect = ("wide", "own") if X in DOWN else ("own", "wide")
            ctx.instance("C05.injection", site, {"function": site, "loc": F.floc(fid), "expected": list(expect)})
            if seqs != {expect}:
                ctx.violation("C05.injection", site, "%s (%s)" % (site, F.floc(fid)),
                              "injected/own handler order is %s, expected %s" % (sorted(seqs), list(expect)), {"found": sorted(seqs)})
        elif cls == "A_" and spec == "multi" and name.startswith("wide") and name[4:] in DOWN + UP + NOT_JUDGED:
            X = name[4:]
            site = site_str(F, fid)
            seqs = set()
            for p in sym_paths(F, fid):
                seq = []
                for ev in p:
                    if ev[0] == "call" and ev[2] is not None:
                        cf = F.fn(ev[2])
                        if cf["name"] == "wide" + X:
                            seq.append("rest")
                        elif cf["name"] == _lower(X):
                            seq.append("first")
                seqs.add(tuple(seq))
            if X in NOT_JUDGED:
                ctx.note("A_<multi>::wide%s delivers %s (not judged)" % (X, sorted(seqs)))
                continue
            expect = ("first", "rest") if X in DOWN else ("rest", "first")
            ctx.instance("C05.injection", site, {"function": site, "loc": F.floc(fid), "expected": list(expect)})
            if seqs != {expect}:
                ctx.violation("C05.injection", site, "%s (%s)" % (site, F.floc(fid)),
                              "injection order is %s, expected %s" % (sorted(seqs), list(expect)), {"found": sorted(seqs)})


def final(ctx):
    from . import cfgwit
    cfgwit.run(ctx, "C05.config-order", only_options={"ReactOrder"})

