"""C09 — history records what was applied; replaying it reproduces the state.

Decided: what is recorded and when (approved arm only, published on every exit of a processing step, cleared on deactivation /
reset / load); that the "did anything change" predicate sees every registry effect of applying a request; who may write the
pin table and that it is read under a bound; replay bypasses guards, records exactly the replayed list and commits through the
ordinary routine.   Not decided: that replay lands in the same configuration from every state; the resumable part.
"""
import re

from ..effects import Effects, outer_field
from ..engine import site_str
from ..ir import AnalysisBroken, walk, strip, sym_paths
from .C12 import _expr_txt, _FN
from .common import insts, paths_of
from . import C04

TEXT = {
    "C09.record": "currentTransitions is a fresh local of processRequest / initialEnter; `+= pending` only on the approved arm (same token protocol as "
                  "C04.round); previousTransitions := currentTransitions on every path out of processRequest and initialEnter; previousTransitions and "
                  "transitionTargets are cleared in finalExit, reset, load, replayTransitions",
    "C09.change-predicate": "RegistryT::operator!=(BackUp) compares every registry field that makes up the *pending configuration* and that applyRequest "
                            "may write (compoRequested, orthoRequested) and every field backup() saves unless every writer of it reachable from applyRequest also writes a compared field: a request whose only effect lies outside the test "
                            "(e.g. a request into a leaf directly below an orthogonal root sets only orthogonal bits) would be applied but neither guarded nor "
                            "recorded.  compoRemains (how an already requested change is applied) is decided under C04.backup-covers, not here",
    "C09.pin": "transitionTargets is written only by {Const,}ControlT::pinLastTransition (under !isActive(stateId) and index != INVALID) and cleared by "
               "StaticArrayT::clear calls; lastTransitionTo reads previousTransitions[index] only under index < previousTransitions.count()",
    "C09.replay": "replayTransitions / replayEnter reach no guard function (call-graph reachability), emplace exactly transitions[0..count) into "
                  "previousTransitions in order, commit through deepChangeToRequested / deepEnter and then clearRequests",
}
MIN_INSTANCES = {"C09.record": 4, "C09.change-predicate": 2, "C09.pin": 3, "C09.replay": 2}


def declare(ctx):
    for r, t in TEXT.items():
        ctx.rule(r, t)


def has_history(F):
    return any(b.get("cls") == "R_" and b["name"] == "replayTransitions" for b in F.bodies.values())


def check(ctx, F):
    _FN["F"] = F
    if not has_history(F):
        ctx.note("unit %s compiled without TRANSITION_HISTORY: only C09.change-predicate evaluated" % F.label)
    E = Effects(F)
    check_change_predicate(ctx, F, E)
    check_append(ctx, F, "C09.record")
    check_replay_bounds(ctx, F, "C09.replay")
    check_snapshot(ctx, F, "C09.change-predicate")
    if has_history(F):
        check_record(ctx, F)
        check_pin(ctx, F, E)
        check_pin_coverage(ctx, F)
        check_pin_rounds(ctx, F)
        check_replay(ctx, F)


def check_change_predicate(ctx, F, E):
    for fid, b in insts(F, "R_", {"applyRequest"}):
        Wall = set(f for f in E.star(fid) if f in C04.REG_STATE)
        W = Wall & {"compoRequested", "orthoRequested"}
        if Wall - W - {"compoResumable"}:
            ctx.note("applyRequest also writes %s (not part of the pending configuration; see C04.backup-covers)" % sorted(Wall - W - {"compoResumable"}))
        # which registry specialisation does this machine use?
        regs = set()
        for c in b.get("calls", ()):
            cf = F.fn(c)
            if cf.get("cls") == "RegistryT":
                regs.add(cf.get("tid"))
        for rt in regs:
            spec = F.spec(rt)
            ne = [f for f, bb in insts(F, "RegistryT", {"operator!="}) if bb["tid"] == rt]
            if not ne:
                continue
            nb = F.body(ne[0])
            compared = set()
            for x in walk(nb["body"]):
                if x.get("k") == "mem" and x.get("o") == "RegistryT":
                    compared.add(x["n"])
            site = "RegistryT<%s>::operator!=" % spec
            # every field backup() saves must be compared
            for bf, bb in insts(F, "RegistryT", {"backup"}):
                if bb["tid"] == rt:
                    for x in walk(bb["body"]):
                        if x.get("k") == "mem" and x.get("o") == "RegistryT":
                            W.add(x["n"])
            # a saved field that is only ever written together with a compared one cannot be the *only* effect of a request:
            # compoRemains (how an already requested change is applied) is written by requestImmediate next to compoRequested
            reach = set(F.fkey(x) for x in _reach(F, fid))       # by pattern key: writers() samples one representative per pattern
            tied = {}
            for f in sorted(W - compared):
                ws = [x for x in E.writers(f) if F.fkey(x) in reach]
                if ws and all(E.direct(x) & compared for x in ws):
                    tied[f] = sorted(set(F.fdisp(x) for x in ws))
            W -= set(tied)
            ctx.instance("C09.change-predicate", site, {"function": site, "loc": F.floc(ne[0]), "compared": sorted(compared), "W": sorted(W),
                                                        "written_only_together_with_a_compared_field": tied})
            for f in sorted(W - compared):
                ctx.violation("C09.change-predicate", site + "/" + f, "%s (%s)" % (site, F.floc(ne[0])),
                              "applyRequest may write registry.%s but the change test `registry != backup` does not compare it: such a request is applied "
                              "without being guarded or recorded, and a vetoed round cannot be told from an unchanged one" % f, {"field": f})


def check_snapshot(ctx, F, rule):
    """`registry != backup` answers "did these requests change the pending configuration" only if the snapshot was taken before the first of them:
    on no path does registry.backup() run between an applyRequest() and the comparison that follows it"""
    for fid, b in insts(F, "R_", {"applyRequests", "processTransitions", "initialEnter"}):
        site = "R_::" + b["name"]
        bad = None
        n = 0
        for p in sym_paths(F, fid, 2):
            ctx.paths += 1
            applied = False
            for ev in p:
                if ev[0] != "call" or ev[2] is None:
                    continue
                nm = F.fn(ev[2])["name"]
                if nm == "applyRequest":
                    applied = True
                elif nm == "backup" and (ev[3] or "").endswith(".registry"):
                    if applied:
                        bad = "registry.backup() runs after an applyRequest() and before the comparison with the snapshot"
                elif nm in ("operator!=", "operator==") and (ev[3] or "").endswith(".registry") or \
                        (nm in ("operator!=", "operator==") and any((a or "").endswith(".registry") for a in (ev[4] or []))):
                    n += 1
                    applied = False
        if n:
            ctx.instance(rule, site + "/snapshot", {"function": site, "loc": F.floc(fid), "comparisons_on_paths": n})
            if bad:
                ctx.violation(rule, site + "/snapshot", "%s (%s)" % (site, F.floc(fid)),
                              bad + ": the comparison only sees what the requests applied after it changed - a list whose last request changes nothing is "
                              "reported as 'no change' and is neither committed nor recorded", {})


def check_replay_bounds(ctx, F, rule):
    """R_::applyRequests reads transitions[i] of the caller's array only for i < count: every such read lies on a path on which exactly
    that index was tested against count (index 0: count != 0) since it was last changed"""
    for fid, b in insts(F, "R_", {"applyRequests"}):
        site = "R_::applyRequests"
        bad = None
        reads = 0
        for p in sym_paths(F, fid, 2):
            ctx.paths += 1
            known = set()
            for ev in p:
                if ev[0] == "assume" and ev[3]:
                    m = re.match(r"^\((.*)<P:count\)$", ev[2])
                    if m:
                        known.add(m.group(1))
                    elif ev[2] in ("P:count", "(P:count!=#0)", "(#0<P:count)", "(P:count>#0)"):
                        known.add("#0")
                elif ev[0] == "assume" and not ev[3]:
                    m = re.match(r"^\((.*)>=P:count\)$", ev[2])
                    if m:
                        known.add(m.group(1))
                if ev[0] == "call":
                    texts = [ev[3] or ""] + list(ev[4] or [])
                elif ev[0] == "write":
                    texts = [ev[2] or "", ev[3] or ""]
                elif ev[0] == "ret":
                    texts = [ev[2] or ""]
                else:
                    texts = []
                for t in texts:
                    for m in re.finditer(r"P:transitions\[((?:[^\[\]]|\[[^\]]*\])*)\]", t or ""):
                        reads += 1
                        if m.group(1) not in known:
                            bad = "transitions[%s] is read on a path that established only %s < count" % (m.group(1), sorted(known) or "nothing")
        ctx.instance(rule, site, {"function": site, "loc": F.floc(fid), "reads_of_the_callers_array": reads})
        if bad:
            ctx.violation(rule, site + "/bound", "%s (%s)" % (site, F.floc(fid)),
                          bad + ": the element behind the given count (caller memory, or a stale entry of a longer earlier message) is applied", {})


def check_append(ctx, F, rule):
    """DynamicArrayT::operator+= appends: every item it stores goes through emplace() or to a slot whose index involves _count;
    a store at a _count-free index overwrites what the array already holds (the transitions approved in an earlier round of the step)"""
    for fid, b in insts(F, "DynamicArrayT", {"operator+="}):
        site = "DynamicArrayT::operator+="
        stores = []
        emplaces = 0
        for x in walk(b["body"]):
            if x.get("k") == "call" and "f" in x and F.fn(x["f"])["name"] == "emplace":
                emplaces += 1
            elif x.get("k") == "new" and x.get("place"):
                stores.append(_expr_txt(x["place"][0]))
            elif x.get("k") == "asg" and "_items" in _expr_txt(x["lhs"]):
                stores.append(_expr_txt(x["lhs"]))
        # a direct store is bounded by this array's own capacity, not by some other number (a smaller bound silently drops approved
        # transitions of later rounds, a larger one writes past the array)
        cap = F.const(b["tid"], "CAPACITY")
        bounds = set()
        for p in sym_paths(F, fid, 1):
            for ev in p:
                if ev[0] == "assume":
                    m = re.match(r"^\(this\._count(<|>=)#(\d+)\)$", ev[2])
                    if m:
                        bounds.add(int(m.group(2)))
        if stores and cap is not None and bounds and bounds != {cap}:
            ctx.violation(rule, site + "/bound", "%s (%s)" % (site, F.floc(fid)),
                          "operator+= of an array of capacity %s appends while _count < %s: items beyond that are %s" % (
                              cap, sorted(bounds), "dropped although there is room" if max(bounds) < cap else "written past the array"), {})
        # ... and a batch that fits is appended: the conditions under which the first emplace() / store is reached, evaluated over every
        # (_count, other.count()) with _count + other.count() <= CAPACITY and a non-empty batch, hold for at least one path
        if cap is not None and cap <= 64:
            from .common import eval_expr, NotEvaluable
            reach = []
            for p in sym_paths(F, fid, 1):
                conds = []
                hit = False
                for ev in p:
                    if ev[0] == "assume":
                        conds.append((ev[1], bool(ev[3])))
                    elif (ev[0] == "call" and ev[2] is not None and F.fn(ev[2])["name"] == "emplace") or ev[0] == "new" or \
                            (ev[0] == "write" and "_items" in (ev[2] or "")):
                        hit = True
                        break
                if hit:
                    reach.append(conds)
            dropped = None
            for c in range(0, cap + 1):
                for n in range(1, cap - c + 1):
                    def leaf(node):
                        node = strip(node)
                        t = _expr_txt(node)
                        if t in ("_count", "this->_count", "this._count"):
                            return c
                        if t in ("other.count()", "other._count", "count(other)"):
                            return n
                        raise NotEvaluable(t)
                    ok = False
                    for conds in reach:
                        good = True
                        for node, pol in conds:
                            try:
                                if bool(eval_expr(node, {}, leaf)) != pol:
                                    good = False
                                    break
                            except NotEvaluable:
                                continue
                        if good:
                            ok = True
                            break
                    if not ok and dropped is None:
                        dropped = (c, n)
            if dropped:
                ctx.violation(rule, site + "/fits", "%s (%s)" % (site, F.floc(fid)),
                              "with %d item(s) stored and a batch of %d (capacity %d: it fits) no path reaches the append: an approved round is dropped "
                              "from the step's record" % (dropped[0], dropped[1], cap), {})
        ctx.instance(rule, site, {"function": site, "loc": F.floc(fid), "emplace_calls": emplaces, "direct_stores": stores, "capacity": cap, "bounds": sorted(bounds)})
        bad = [t for t in stores if "_count" not in t]
        if bad or (not emplaces and not stores):
            ctx.violation(rule, site, "%s (%s)" % (site, F.floc(fid)),
                          "operator+= stores items at %s: not an append behind the existing _count items (the record of an earlier round is overwritten)" % (
                              bad or "no slot at all"), {})


def _reach(F, fid):
    seen = set()
    st = [fid]
    while st:
        x = st.pop()
        if x in seen:
            continue
        seen.add(x)
        b = F.body(x)
        if b:
            st.extend(b.get("calls", ()))
    return seen


def check_record(ctx, F):
    # += only on the approved arm is C04.round's token protocol: evaluate it here as well under this property's rule
    for fid, b in insts(F, "R_", {"processTransitions", "initialEnter"}):
        site = "R_::" + b["name"]
        rex = C04.RE_PROCESS if b["name"] == "processTransitions" else C04.RE_INITIAL
        bad = None
        for p in sym_paths(F, fid, 2):
            ctx.paths += 1
            ts = C04.tokens(F, p)
            if not rex.match(ts):
                bad = ts
        ctx.instance("C09.record", site + "/approved-arm", {"function": site, "loc": F.floc(fid)})
        if bad:
            ctx.violation("C09.record", site + "/approved-arm", "%s (%s)" % (site, F.floc(fid)),
                          "recording does not follow the round protocol: `%s`" % bad, {})
    for fid, b in insts(F, "R_", {"processRequest", "initialEnter"}):
        site = "R_::" + b["name"]
        bad = None
        # currentTransitions must be a fresh local
        fresh = any(x.get("k") == "decl" and any(v["n"] == "currentTransitions" and not v.get("ref") and not v.get("static") for v in x["vars"])
                    for x in walk(b["body"]))
        for p in paths_of(ctx, F, fid):
            pub = [i for i, ev in enumerate(p) if ev[0] == "call" and ev[2] is not None and F.fn(ev[2])["name"] == "operator="
                   and (ev[3] or "").endswith(".previousTransitions") and ev[4] and ev[4][0] in ("L:currentTransitions",)]
            proc = [i for i, ev in enumerate(p) if ev[0] == "call" and ev[2] is not None and F.fn(ev[2])["name"] in ("processTransitions", "operator+=")]
            if len(pub) != 1:
                bad = "previousTransitions := currentTransitions happens %d times on a path" % len(pub)
            elif proc and pub[0] < max(proc):
                bad = "previousTransitions published before the step is processed"
        ctx.instance("C09.record", site + "/publish", {"function": site, "loc": F.floc(fid)})
        if not fresh:
            bad = bad or "currentTransitions is not a fresh local"
        if bad:
            ctx.violation("C09.record", site + "/publish", "%s (%s)" % (site, F.floc(fid)), bad, {})
    for cls, names in (("R_", {"finalExit", "reset", "load", "replayTransitions"}), ("RV_", {"replayEnter"})):
        for fid, b in insts(F, cls, names):
            site = "%s::%s" % (cls, b["name"])
            if b["name"] in ("replayTransitions", "replayEnter") and len(b.get("params", [])) != 2:
                continue
            need = {"transitionTargets", "previousTransitions"} if b["name"] != "replayEnter" else {"transitionTargets"}
            bad = None
            for p in paths_of(ctx, F, fid):
                cleared = set()
                for ev in p:
                    if ev[0] == "call" and ev[2] is not None and F.fn(ev[2])["name"] == "clear":
                        for f in need:
                            if (ev[3] or "").endswith("." + f):
                                cleared.add(f)
                if cleared != need:
                    bad = "clears %s, expected %s on every path" % (sorted(cleared), sorted(need))
            ctx.instance("C09.record", site + "/clear", {"function": site, "loc": F.floc(fid)})
            if bad:
                ctx.violation("C09.record", site + "/clear", "%s (%s)" % (site, F.floc(fid)), bad, {})


def check_pin_coverage(ctx, F):
    """"after a single approved request lastTransitionTo points at it for every state it activated": a state is pinned where the request
    (with its index) is handed to it - S_::deepRequest* / O_::deepRequest* call pinLastTransition.  A region resolver that picks its sub-state
    must therefore pass the *request* down into the picked sub-state; resolvers that only poll reports (wideReport*: no request, nothing
    pinned) leave the sub-states they activate - and everything nested below - without a pin"""
    for fid, b in F.bodies.items():
        if not b["inst"] or b.get("cls") != "C_" or not b["name"].startswith("deepRequest") or b["name"] in ("deepRequest", "deepRequestChange"):
            continue
        if not any(p.get("n") == "request" for p in b.get("params", [])):
            continue
        site = "C_::" + b["name"]
        down = rep = 0
        for x in walk(b["body"]):
            if x.get("k") == "call" and "f" in x and F.fn(x["f"]).get("cls") in ("CS_",):
                nm = F.fn(x["f"])["name"]
                if nm.startswith("wideRequest") and any(y.get("k") == "var" and y.get("n") == "request" for a in x.get("a", []) for y in walk(a)):
                    down += 1
                elif nm.startswith("wideReport"):
                    rep += 1
        ctx.instance("C09.pin", site + "/coverage", {"function": site, "loc": F.floc(fid), "request_handed_down": down, "report_polls": rep})
        if not down:
            ctx.violation("C09.pin", site + "/coverage", "%s (%s)" % (site, F.floc(fid)),
                          "%s picks the sub-state from reports (%d poll(s)) and never hands the request down: the sub-state it activates (and what is "
                          "nested below it) is not pinned, lastTransitionTo() of a state this request activated is null" % (site, rep), {})


def check_pin_rounds(ctx, F):
    """pins are written while a round's requests are applied, before the round is judged: they must follow its fate.  On every path through the
    round loops of processTransitions / initialEnter a vetoed round (G-) and a round that changes nothing (N-) are followed - before the next
    request is applied - by a restore of transitionTargets from a snapshot local, and an approved round (G+) by an update of that snapshot;
    clearing the table instead drops the pins of the rounds approved earlier in the step, doing nothing leaves pins that point past (or, after
    a later approved round, into) the record"""
    from .C04 import tokens
    for fid, b in insts(F, "R_", {"processTransitions", "initialEnter"}):
        site = "R_::" + b["name"]
        bads = set()
        n = 0
        for p in sym_paths(F, fid, 2):
            ctx.paths += 1
            pending = None       # "veto" / "no change" / "approved" awaiting its pin action
            for ev in p:
                kind = None
                if ev[0] == "assume":
                    t = ev[2]
                    if "operator!=" in t and "registry" in t and not ev[3]:
                        kind = "nochange"
                    elif "approvedBy" in t:
                        kind = "approved" if ev[3] else "veto"
                if kind:
                    if pending and pending != "approved0":
                        bads.add(pending)
                    # the very first judgement of initialEnter (the default activation, before the loop) pins nothing
                    pending = kind
                    n += 1
                    continue
                if ev[0] == "write" and (ev[2] or "").endswith("._core.transitionTargets") and (ev[3] or "").startswith("L:"):
                    if pending in ("veto", "nochange"):
                        pending = None
                elif ev[0] == "write" and (ev[2] or "").startswith("L:") and (ev[3] or "").endswith("._core.transitionTargets"):
                    if pending == "approved":
                        pending = None
                elif ev[0] == "call" and ev[2] is not None and F.fn(ev[2])["name"] in ("applyRequest", "deepChangeToRequested", "deepEnter"):
                    if pending:
                        bads.add(pending)
                        pending = None
                elif ev[0] == "call" and ev[2] is not None and F.fn(ev[2])["name"] == "backup" and pending == "approved" and b["name"] == "initialEnter" and n == 1:
                    pending = None      # initialEnter: the snapshot is declared right after the first backup
        if n:
            ctx.instance("C09.pin", site + "/rounds", {"function": site, "loc": F.floc(fid), "judgements_on_paths": n})
            bad = next((k for k in ("veto", "nochange", "approved") if k in bads), None)
            if bad:
                ctx.violation("C09.pin", site + "/rounds", "%s (%s)" % (site, F.floc(fid)),
                              {"veto": "after a vetoed round the pin table is not restored to its state at the last approval (clearing it drops the pins of the "
                                       "rounds approved earlier in the step)",
                               "nochange": "a round that changes nothing is dropped, but the pins its requests wrote stay (they point past the record)",
                               "approved": "after an approved round the pin snapshot is not updated: a later veto would roll the approved pins back"}[bad] +
                              ": lastTransitionTo() of a state the single approved request activated is null or wrong", {})


def check_pin(ctx, F, E):
    for w in E.writers("transitionTargets"):
        cls, spec, name = F.fkey(w)
        site = "transitionTargets/%s::%s" % (cls, name)
        ctx.instance("C09.pin", site, {"writer": site_str(F, w), "loc": F.floc(w)})
        if name == "pinLastTransition" and cls in ("ControlT", "ConstControlT"):
            # the write must be dominated by !isActive(stateId_) and index != INVALID
            for p in paths_of(ctx, F, w):
                conds = []
                for ev in p:
                    if ev[0] == "assume":
                        conds.append((ev[2], ev[3]))
                    elif ev[0] == "write" and outer_field(ev[2]) == "transitionTargets":
                        g1 = any(("isActive" in c and t is False) for c, t in conds)
                        g2 = any((re.search(r"P:index!=#", c) and t is True) or (re.search(r"P:index==#", c) and t is False) for c, t in conds)
                        if not (g1 and g2):
                            ctx.violation("C09.pin", site + "/guard", "%s (%s)" % (site_str(F, w), F.floc(w)),
                                          "the pin write is not dominated by `index != INVALID && !isActive(stateId)` (conditions on the path: %s)" % conds, {})
                        if not ev[3] == "P:index" or not ev[2].endswith("[P:stateId_]"):
                            ctx.violation("C09.pin", site + "/value", "%s (%s)" % (site_str(F, w), F.floc(w)),
                                          "pin writes `%s := %s`, expected transitionTargets[stateId_] := index" % (ev[2], ev[3]), {})
        elif name in ("finalExit", "reset", "load", "replayTransitions", "replayEnter", "processRequest", "processTransitions", "initialEnter") and cls in ("R_", "RV_"):
            pass  # .clear() calls (checked under C09.record)
        else:
            ctx.violation("C09.pin", site, "%s (%s)" % (site_str(F, w), F.floc(w)), "%s writes transitionTargets" % site_str(F, w), {})
    check_pin_bounds(ctx, F, "C09.pin")
    check_pin_index(ctx, F, "C09.pin")


def check_pin_index(ctx, F, rule):
    """the index a request is pinned with is its position in the step's record: the round loops of processTransitions / initialEnter hand
    applyRequest `currentTransitions.count() + i` (the record so far plus the position in the round), not the position in the round alone -
    otherwise the states activated by a follow-up round point at an entry of an earlier round"""
    for fid, b in insts(F, "R_", {"processTransitions", "initialEnter"}):
        site = "R_::" + b["name"]
        bad = None
        n = 0
        for p in sym_paths(F, fid, 1):
            for ev in p:
                if ev[0] == "call" and ev[2] is not None and F.fn(ev[2])["name"] == "applyRequest":
                    n += 1
                    idx = (ev[4] or [None, None, None])[2] if len(ev[4] or []) > 2 else None
                    if idx is None or "currentTransitions" not in idx:
                        bad = idx
        if n:
            ctx.instance(rule, site + "/index", {"function": site, "loc": F.floc(fid)})
            if bad is not None:
                ctx.violation(rule, site + "/index", "%s (%s)" % (site, F.floc(fid)),
                              "applyRequest is handed the index `%s` (position within the round); the record grows by `currentTransitions += pendingTransitions` "
                              "per approved round, so states activated by a follow-up round are pinned to an earlier round's entry" % bad, {})


def check_pin_bounds(ctx, F, rule):
    for cls in ("R_", "ControlT", "ConstControlT"):
        for fid, b in insts(F, cls, {"lastTransitionTo"}):
            if len(b.get("params", [])) != 1:
                continue
            site = "%s::lastTransitionTo" % cls
            bad = None
            for p in paths_of(ctx, F, fid):
                bounded = False
                for ev in p:
                    if ev[0] == "assume" and "previousTransitions" in ev[2] and "transitionTargets" in ev[2]:
                        # any spelling of index < count: i < n (taken), i >= n (not taken), n > i, n <= i ...
                        m = re.match(r"^\((.*?)(<=|>=|<|>)(.*)\)$", ev[2])
                        if m:
                            a, op, c2 = m.group(1), m.group(2), m.group(3)
                            idx_left = "transitionTargets" in a and "previousTransitions" in c2
                            idx_right = "transitionTargets" in c2 and "previousTransitions" in a
                            if idx_left or idx_right:
                                if idx_right:
                                    op = {"<": ">", ">": "<", "<=": ">=", ">=": "<="}[op]
                                # now: index OP count
                                holds = {"<": True, ">=": False}.get(op)
                                if holds is not None and bool(ev[3]) == holds:
                                    bounded = True
                    if ev[0] == "ret" and ev[2] and "previousTransitions" in ev[2]:
                        if not bounded:
                            bad = "returns &previousTransitions[index] without `index < previousTransitions.count()`"
                        if not re.search(r"previousTransitions.*\[.*transitionTargets.*\[P:stateId_\]", ev[2]):
                            bad = "returned entry `%s` is not previousTransitions[transitionTargets[stateId_]]" % ev[2]
            ctx.instance(rule, site, {"function": site, "loc": F.floc(fid)})
            if bad:
                ctx.violation(rule, site, "%s (%s)" % (site, F.floc(fid)), bad, {})


def reachable(F, fid):
    seen = set()
    st = [fid]
    while st:
        x = st.pop()
        if x in seen:
            continue
        seen.add(x)
        b = F.body(x)
        if b:
            st.extend(b.get("calls", ()))
    return seen


def check_replay(ctx, F):
    for cls, name, commit in (("R_", "replayTransitions", "deepChangeToRequested"), ("RV_", "replayEnter", "deepEnter")):
        for fid, b in insts(F, cls, {name}):
            if len(b.get("params", [])) != 2:
                continue
            site = "%s::%s" % (cls, name)
            bad = []
            guards = [F.fdisp(x) for x in reachable(F, fid) if re.search(r"Guard", F.fn(x)["name"]) and F.fn(x).get("cls") not in ("GuardControlT",)]
            if guards:
                bad.append("reaches guard functions %s" % sorted(set(guards))[:4])
            ok_path = False
            for p in sym_paths(F, fid, 1):
                toks = []
                for ev in p:
                    if ev[0] == "call" and ev[2] is not None:
                        cf = F.fn(ev[2])
                        n = cf["name"]
                        if n == "applyRequests":
                            toks.append("apply" if ev[4][1:] == ["P:transitions", "P:count"] else "apply?%s" % ev[4][1:])
                        elif n == "emplace" and (ev[3] or "").endswith(".previousTransitions"):
                            toks.append("rec" if re.match(r"^P:transitions\[.*\]$", ev[4][0] if ev[4] else "") else "rec?%s" % ev[4])
                        elif n == "operator=" and (ev[3] or "").startswith("L:") and ev[4] and (ev[4][0] or "").endswith(".previousTransitions"):
                            toks.append("cur")           # the control's currentTransitions := the replayed list
                        elif n == "emplace" and (ev[3] or "").startswith("L:") and re.match(r"^P:transitions\[.*\]$", ev[4][0] if ev[4] else ""):
                            toks.append("cur")
                        elif n == commit and (ev[3] or "").endswith("._apex"):
                            toks.append("commit")
                        elif n == "clearRequests":
                            toks.append("clearreq")
                    elif ev[0] == "assume" and "applyRequests" in ev[2]:
                        toks.append("ok" if ev[3] else "fail")
                s = " ".join(toks)
                if name == "replayEnter":
                    # the initial activation happens whatever the replayed requests amount to: they may net out to the default configuration
                    # (two substitution rounds that end where they began), and the replica must still be entered
                    if "apply" in s:
                        if re.match(r"^apply (ok |fail )?(rec )?(cur )+commit clearreq$", s):
                            ok_path = True
                        elif "commit" not in toks:
                            bad.append("a path applies the recorded requests but does not enter the machine (`%s`): a record that nets out to the default "
                                       "configuration leaves the replica inactive" % s)
                        else:
                            bad.append("replay path `%s`, expected `apply rec* cur commit clearreq` (cur: the control the states are entered with carries the "
                                       "replayed transitions, so enter() sees the transition and payload it sees on the authority)" % s)
                    continue
                if "ok" in toks:
                    if re.match(r"^apply ok (rec )?(cur )+commit clearreq$", s):
                        ok_path = True
                    else:
                        bad.append("replay path `%s`, expected `apply ok rec* cur commit clearreq` (cur: the control the states are entered / exited with carries "
                                   "the replayed transitions, so callbacks see the transition and payload they see on the authority)" % s)
                elif "commit" in toks:
                    bad.append("commits without a successful applyRequests: `%s`" % s)
            # the recording loop copies transitions[i] for i in [0, count)
            loops = [x for x in walk(b["body"]) if x.get("k") == "for"]
            okloop = False
            for l in loops:
                c = strip(l.get("c") or {})
                if c.get("k") == "bin" and c.get("op") == "<" and strip(c["rhs"]).get("n") == "count" and strip(c["lhs"]).get("n") == "i":
                    v = (l.get("init") or {}).get("vars", [{}])[0]
                    if strip(v.get("init") or {}).get("cv", strip(v.get("init") or {}).get("v")) == 0:
                        okloop = True
            if not okloop:
                bad.append("recording loop is not `for (i = 0; i < count; ++i)`")
            if not ok_path and not bad:
                bad.append("no successful replay path found")
            ctx.instance("C09.replay", site, {"function": site, "loc": F.floc(fid)})
            for m in bad[:2]:
                ctx.violation("C09.replay", site + "/" + m.split(" ")[0], "%s (%s)" % (site, F.floc(fid)), m, {})
