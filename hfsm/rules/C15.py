"""C15 — optional features and header flavour never change unrelated behaviour.

Decided: the two header flavours are the same program (token-identical after preprocessing, else event-equivalent function by
function); code selected by a feature switch only adds events that touch that feature's own state and never alters the control flow
or the effects of the rest (cross-configuration differencing of every function of the core); published type-level constants do not
depend on unrelated switches; every switch that alters declarations contributes a bit to the feature tag; payload and void copies agree.
Not decided: behavioural equality as such (implied for programs inside the common subset when the above holds).
"""
import hashlib
import os
import re
import subprocess

from .. import facts as factsmod
from ..engine import site_str
from ..ir import AnalysisBroken, walk, strip, sym_paths
from .common import insts
from . import C06, C03

TEXT = {
    "C15.flavour": "for every configuration of the tier the preprocessed token stream of development/hfsm2/machine_dev.hpp equals that of "
                   "include/hfsm2/machine.hpp; otherwise every function's symbolic event paths are compared between the flavours and any difference is reported",
    "C15.non-interference": "for each feature X and each function of the core present with and without X: after erasing the events owned by X (its state, its "
                            "functions, tests of its state) the sets of symbolic event paths are equal — X adds no branch, call, write or return to unrelated code",
    "C15.constants": "type-level constants published by a machine (STATE/REGION/COMPO/ORTHO counts, TASK_CAPACITY, SERIAL_BITS, SUBSTITUTION_LIMIT) are the same "
                     "in every configuration in which they exist",
    "C15.options": "every Config option alias changes exactly its own option: applied to a configuration with every option away from its default it leaves "
                   "all other options as they were, applied to the default configuration it sets its own option to the requested value, and the "
                   "result does not depend on the order of the options (type-level witness under the all-on and all-off feature sets, both flavours)",
    "C15.tag": "every HFSM2_ENABLE_* / HFSM2_DISABLE_* switch that changes declarations contributes its own distinct bit to HFSM2_FEATURE_TAG",
    "C15.payload": "the payload and void copies of the plan code agree modulo the payload arm (same rule instances as C06.siblings)",
}
MIN_INSTANCES = {"C15.options": 40, "C15.flavour": 1, "C15.non-interference": 100, "C15.constants": 5, "C15.tag": 5, "C15.payload": 1}

CORE = ("S_", "C_", "CS_", "O_", "OS_", "R_", "RV_", "RP_", "RC_", "A_", "RegistryT", "ControlT", "ConstControlT", "PlanControlT", "FullControlBaseT", "FullControlT",
        "GuardControlT", "EventControlT", "PreReactWrapperT", "ReactWrapperT", "PostReactWrapperT", "QueryWrapperT", "CoreT", "Origin", "Region", "Lock")
# (the generic containers are excluded: a feature legitimately instantiates them with further element types)

# events owned by a feature: regexes over event tokens
OWNED = {
    "PLANS": re.compile(r"planData|headStatus|subStatus|_taskStatus|TaskStatus|clearTaskStatus|verifyEmptyStatus|verifyPlans|updatePlan|wrapPlan|deepUpdatePlans|"
                        r"wideUpdatePlans|outerTransition|clearStatuses|tasksSuccesses|tasksFailures|planExists|\bplan\b|succeed|fail|operator\|=|operator\||"
                        r"_regionStateId|_regionSize|_locked"),
    # (approvedTargets: the pin-table snapshot of the round loops, a local that exists only with the feature - fix 19826da; its copy construction is
    # the only StaticArrayT copy in the compared functions)
    "TRANSITION_HISTORY": re.compile(r"transitionTargets|previousTransitions|pinLastTransition|lastTransition|approvedTargets|StaticArrayT::StaticArrayT"),
    "STRUCTURE_REPORT": re.compile(r"udpateActivity|getStateNames|deepGetNames|wideGetNames|_structure|_activityHistory|_prefixes|stateInfos"),
    "LOG": re.compile(r"logger|record\w+|::log\b|\.log\b|Method|StatusEvent|::context\b"),
    "UTILITY_THEORY": re.compile(r"rng\b|[Uu]tili|[Rr]andom|[Rr]ank\b|Rank\b|resolveRandom|\bUP\b"),
    "SERIALIZATION": re.compile(r"$^"),
}

# zoo parts whose machines are declared differently under a switch (so their functions are not comparable across it):
#   SERIALIZATION: z1 gives its one-sub-state regions a second sub-state (a width-1 region fails the library's BIT_WIDTH > 0 assertion);
#   UTILITY_THEORY: without it the regions declared Utilitarian / Random are declared Composite / Resumable (ZUtilitarian, ZRandom), so the
#   strategy-dispatch arms of every part differ by construction; the comparison keeps the parts whose *remaining* functions are comparable
SHAPE_SWITCHES = {"SERIALIZATION": {"zoo1"}, "UTILITY_THEORY": {"zoo1"}}

# pairs (config without X, config with X, X)
PAIRS_QUICK = [("all-plans", "all", "PLANS"), ("all-history", "all-report", "TRANSITION_HISTORY"), ("all-report", "all", "STRUCTURE_REPORT"),
               ("all-nolog", "all", "LOG"), ("none", "plans", "PLANS"), ("all-utility", "all", "UTILITY_THEORY"), ("all-serial", "all", "SERIALIZATION")]
PAIRS_THOROUGH = PAIRS_QUICK + [("none", "history", "TRANSITION_HISTORY"), ("none", "report", "STRUCTURE_REPORT"), ("none", "log", "LOG"), ("none", "verbose", "LOG"),
                                ("none", "serial", "SERIALIZATION"), ("none", "utility", "UTILITY_THEORY"), ("all-utility", "all", "UTILITY_THEORY"),
                                ("all-serial", "all", "SERIALIZATION"), ("all-li", "all", "LOG")]


def declare(ctx):
    for r, t in TEXT.items():
        ctx.rule(r, t)


def prepare(ctx):
    check_flavour_tokens(ctx)
    check_tag(ctx)


def check(ctx, F):
    cfg = F.unit.config if F.unit else "?"
    store = ctx.shared.setdefault("C15.fp", {})
    consts = ctx.shared.setdefault("C15.consts", {})
    part = F.unit.name if F.unit else "?"
    flav = F.unit.flavour if F.unit else "include"
    if F.unit and not F.unit.gcc_path:
        flav += "/clang-path"        # the other member-dispatch mechanism is a different program text: never paired with the gcc-path units
    fp = {}
    for fid, b in F.bodies.items():
        if not b["inst"] or b.get("cls") not in CORE:
            continue
        spec = F.spec(b.get("tid")) if "tid" in b else ""
        # `partial@<line>` names a partial specialisation by its line, which differs between the flavours: use its ordinal among the
        # partial specialisations of the template instead
        m = re.match(r"^partial@(\d+)$", spec or "")
        if m:
            lines = sorted(set(int(t["partial"].rsplit(":", 2)[1]) for t in F.types if t.get("tmpl") == b["cls"] and "partial" in t))
            spec = "partial#%d" % (lines.index(int(m.group(1))) if int(m.group(1)) in lines else -1)
        # overloads are told apart by their parameter types, not their count (compoActive(Control&) / compoActive(const Registry&); the
        # constructor overloads that exist depend on the configuration)
        def ptype(p):
            t = F.type(p["tid"]) if p.get("tid") is not None else None
            if t is not None:
                return t.get("tmpl") or t.get("name") or "?"
            return re.sub(r"hfsm2::(detail::)?|<.*$|\bconst\b|[\s&*]", "", p.get("ty") or p.get("t") or "?")
        sig = ",".join(ptype(p) for p in b.get("params", []))
        name = ("ctor" if b.get("kind") == "ctor" else b["name"]) + "(" + sig + ")"
        key = (b["cls"], spec, name, len(b.get("params", [])))
        try:
            toks = fingerprint(F, fid)
        except AnalysisBroken:
            toks = None
        if toks is None:
            fp[key] = None
        elif fp.get(key, set()) is not None:
            fp.setdefault(key, set()).update(toks)
    store[(cfg, part, flav)] = (fp, F.label)
    # published constants per machine (keyed by the apex's state names, which are configuration independent)
    for t in F.types:
        if t.get("tmpl") == "R_" and t.get("complete"):
            name = re.sub(r"^hfsm2::detail::", "", F.tname(t["args"][1]["t"], 6)) if isinstance(t["args"][1], dict) else "?"
            name = hashlib.sha1(name.encode()).hexdigest()[:10] + ":" + name[:60]
            c = dict((k, v) for k, v in t.get("consts", {}).items() if k in ("STATE_COUNT", "REGION_COUNT", "SUBSTITUTION_LIMIT", "TASK_CAPACITY"))
            for f in t.get("fields", []):
                pass
            # SERIAL_BITS lives in ArgsT: read it from the write stream type if present
            for tt in F.types:
                pass
            consts.setdefault(name, {})[(cfg, flav)] = c
    check_effective_constants(ctx, F)
    if flav.startswith("include"):
        C06.check_siblings(C03._Alias(ctx, {"C06.siblings": "C15.payload"}), F)


def check_effective_constants(ctx, F):
    """the capacities the containers are actually instantiated with equal the constants the machine publishes (RF_): the argument list
    handed to ArgsT matches its parameter order in every feature combination"""
    rf = {}
    for t in F.types:
        if t.get("tmpl") == "RF_" and t.get("complete"):
            rf[repr(t.get("args"))] = t
    for t in F.types:
        if t.get("tmpl") != "R_" or not t.get("complete"):
            continue
        pub = rf.get(repr(t.get("args")))
        if pub is None:
            continue
        pc = pub.get("consts", {})
        core = [f for f in t.get("fields", []) if f["n"] == "_core"]
        eff = {}
        if core:
            ct = F.type(core[0].get("tid")) or {}
            for f in ct.get("fields", []):
                if f["n"] == "planData":
                    pt = F.type(f.get("tid")) or {}
                    for g in pt.get("fields", []):
                        if g["n"] == "tasks":
                            tl = F.type(g.get("tid")) or {}
                            if tl.get("tmpl") == "TaskListT":
                                eff["TASK_CAPACITY"] = tl["args"][1].get("v")
                if f["n"] == "requests":
                    da = F.type(f.get("tid")) or {}
                    if da.get("tmpl") == "DynamicArrayT" and "COMPO_COUNT" in pc:
                        eff["COMPO_COUNT"] = da["args"][1].get("v")
        for fid, b in F.bodies.items():
            if b["inst"] and b.get("cls") == "RV_" and b["name"] == "save" and len(b.get("params", [])) == 1:
                rv = F.type(b["tid"]) or {}
                pt = F.type(b["params"][0].get("tid")) or {}
                if repr(rv.get("args")) == repr(t.get("args")) and pt.get("tmpl") == "StreamBufferT":
                    eff["SERIAL_BITS"] = pt["args"][0].get("v")
        for k, v in eff.items():
            site = "effective/%s" % k
            ctx.instance("C15.constants", site + "/" + str(pc.get(k)), {"constant": k, "published": pc.get(k), "effective": v, "unit": F.label})
            if k in pc and v != pc[k]:
                ctx.violation("C15.constants", site, "%s" % F.label,
                              "the machine publishes %s = %s but its containers are instantiated with %s in configuration %s: the argument list handed "
                              "to ArgsT does not match its parameter order under this feature combination" % (k, pc[k], v, F.unit.config if F.unit else "?"), {})


def fingerprint(F, fid):
    """set of per-path token tuples: resolved callee, place written, condition tested, value returned — identifiers only, constants kept"""
    out = set()
    for p in sym_paths(F, fid, 1):
        toks = []
        for ev in p:
            if ev[0] == "call" and ev[2] is not None:
                cf = F.fn(ev[2])
                if cf["name"] in ("operator[]", "operator->", "operator*", "operator bool", "count", "get"):
                    continue
                obj = clean(ev[3] or "")
                toks.append("call %s%s::%s" % ((obj + " . ") if obj and obj != "this" else "", cf.get("cls") or "", cf["name"]))
            elif ev[0] == "icall":
                toks.append("icall " + clean(ev[2])[:60])
            elif ev[0] == "write":
                toks.append("write %s := %s" % (clean(ev[2]), clean(ev[3] or "")[:80]))
            elif ev[0] == "assume":
                toks.append("%s %s" % ("if" if ev[3] else "ifnot", clean(ev[2])[:100]))
            elif ev[0] == "ret":
                toks.append("ret " + clean(ev[2] or "")[:100])
        out.add(tuple(toks))
        if len(out) > 400:
            break
    return out


def clean(s):
    s = re.sub(r"<(headed|empty|split|single|nonlast|last|general|noortho|TopDown|BottomUp|Automatic|Manual|multi|partial@\d+)>", "", s)
    return s


def erase(paths, rex):
    out = set()
    for p in paths:
        q = []
        for t in p:
            if rex.search(t):
                continue
            if not q or q[-1] != t:
                q.append(t)
        out.add(tuple(q))
    return out


def final(ctx):
    from . import cfgwit
    cfgwit.run(ctx, "C15.options", configs=("all", "none") if ctx.tier == "quick" else ("all", "none", "plans", "utility"))
    C06.final(C03._Alias(ctx, {"C06.siblings": "C15.payload"}))
    store = ctx.shared.get("C15.fp", {})
    pairs = PAIRS_QUICK if ctx.tier == "quick" else PAIRS_THOROUGH
    for a, b, feat in pairs:
        for (cfg, part, flav), (fpa, la) in list(store.items()):
            if cfg != a or flav != "include":
                continue
            if feat in SHAPE_SWITCHES and part in SHAPE_SWITCHES[feat]:
                continue      # the witness machine itself differs under this switch (see SHAPE_SWITCHES)
            other = store.get((b, part, flav))
            if other is None:
                continue
            fpb, lb = other
            rex = OWNED[feat]
            log_rex = OWNED["LOG"]
            for key in sorted(set(fpa) & set(fpb)):
                pa, pb = fpa[key], fpb[key]
                site = "%s%s::%s/%d [%s]" % (key[0], "<" + key[1] + ">" if key[1] else "", key[2], key[3], feat)
                if pa is None or pb is None:
                    ctx.undecided.append({"function": site, "reason": "path enumeration not possible in one configuration"})
                    continue
                if feat in SHAPE_SWITCHES:
                    # the zoo's machines differ in size under this switch (instantiations of every part see z1's types): compare the
                    # paths with literal constants abstracted
                    pa = set(tuple(re.sub(r"#\d+", "#N", t) for t in q) for q in pa)
                    pb = set(tuple(re.sub(r"#\d+", "#N", t) for t in q) for q in pb)
                ea, eb = erase(pa, rex), erase(pb, rex)
                if feat == "UTILITY_THEORY":
                    # utility theory adds whole arms (request kinds, strategies) to the kind / strategy dispatchers: a path of the enabled
                    # build that runs through an owned event is such an arm; every other path must exist without the feature, and vice versa
                    eb = erase(set(q for q in pb if not any(rex.search(t) for t in q)), rex) | (eb & ea)
                ctx.instance("C15.non-interference", site, {"function": site, "without": a, "with": b, "paths": [len(pa), len(pb)]})
                if ea != eb:
                    only_b = sorted(eb - ea, key=len)[:1]
                    only_a = sorted(ea - eb, key=len)[:1]
                    ctx.violation("C15.non-interference", site, "%s (%s vs %s)" % (site, la, lb),
                                  "enabling %s changes %s beyond the feature's own state: path only with it %s; path only without it %s" % (
                                      feat, site.split(" [")[0], [list(x)[:12] for x in only_b], [list(x)[:12] for x in only_a]), {})
    # flavour fallback: development vs include facts (only present when the token streams differ)
    for (cfg, part, flav), (fpd, ld) in list(store.items()):
        if flav != "development":
            continue
        inc = store.get((cfg, part, "include"))
        if inc is None:
            continue
        fpi, li = inc
        for key in sorted(set(fpd) | set(fpi)):
            site = "%s%s::%s/%d" % (key[0], "<" + key[1] + ">" if key[1] else "", key[2], key[3])
            ctx.instance("C15.flavour", "fn/" + site, {"function": site})
            if fpd.get(key) != fpi.get(key):
                ctx.violation("C15.flavour", "fn/" + site, "%s (%s vs %s)" % (site, li, ld),
                              "the split development sources and the single header differ in %s (symbolic event paths differ)" % site, {})
    consts = ctx.shared.get("C15.consts", {})
    for name, per in consts.items():
        keys = set(k for c in per.values() for k in c)
        for k in sorted(keys):
            vals = {}
            for cfgk, c in per.items():
                if k in c:
                    vals.setdefault(c[k], []).append(cfgk[0])
            site = "%s/%s" % (name.split(":")[0], k)
            ctx.instance("C15.constants", site, {"machine": name.split(":", 1)[1], "constant": k, "values": {str(v): sorted(set(c))[:6] for v, c in vals.items()}})
            if len(vals) > 1:
                ctx.violation("C15.constants", "constant/" + k, "machine %s" % name.split(":", 1)[1],
                              "%s of the same machine differs between configurations: %s" % (k, {str(v): sorted(set(c))[:6] for v, c in vals.items()}), {})


# ------------------------------------------------------------------------------------------------ flavour (token level) and tag


def preprocess(header, incs, flags):
    cmd = ["clang++", "-std=gnu++17", "-E", "-P", "-w", "-x", "c++"] + incs + flags + [header]
    r = subprocess.run(cmd, stdout=subprocess.PIPE, stderr=subprocess.PIPE, text=True)
    if r.returncode != 0:
        raise AnalysisBroken("preprocessing %s failed: %s" % (header, r.stderr[-300:]))
    return r.stdout


def tokens_of(text):
    return re.findall(r"[A-Za-z_]\w*|\d[\w.']*|\"(?:\\.|[^\"\\])*\"|'(?:\\.|[^'\\])*'|::|->\*?|<<=|>>=|<=|>=|==|!=|&&|\|\||\+\+|--|[-+*/%&|^]=|\.\.\.|\S", text)


def check_flavour_tokens(ctx):
    repo = factsmod.REPO
    inc = os.path.join(repo, "include", "hfsm2", "machine.hpp")
    dev = os.path.join(repo, "development", "hfsm2", "machine_dev.hpp")
    if not os.path.exists(inc) or not os.path.exists(dev):
        raise AnalysisBroken("a header flavour is missing")
    cfgs = ["all", "none"] if ctx.tier == "quick" else ["all", "none", "plans", "serial", "history", "utility", "report", "log", "verbose", "all-li", "all-nolog"]
    differ = []
    for c in cfgs:
        flags = factsmod.CONFIGS[c]
        for gcc in (True, False):
            fl = flags + (factsmod.GCC_PATH if gcc else [])
            # system headers are identical on both sides: compare the library's own tokens (everything after the last system include is
            # the bulk; simply compare the whole streams)
            a = tokens_of(preprocess(inc, ["-I" + os.path.join(repo, "include")], fl))
            b = tokens_of(preprocess(dev, ["-I" + os.path.join(repo, "development")], fl))
            site = "tokens/%s/%s" % (c, "gcc" if gcc else "clang")
            ctx.instance("C15.flavour", site, {"configuration": c, "dispatch": "gcc" if gcc else "clang", "tokens": len(a)})
            if a != b:
                i = next((k for k in range(min(len(a), len(b))) if a[k] != b[k]), min(len(a), len(b)))
                differ.append((c, gcc, " ".join(a[max(0, i - 8):i + 8]), " ".join(b[max(0, i - 8):i + 8])))
    ctx.shared["C15.flavour.differ"] = differ
    if differ:
        ctx.note("header flavours are not token-identical (%d configurations): falling back to event-level comparison of every function" % len(differ))


def check_tag(ctx):
    repo = factsmod.REPO
    path = os.path.join(repo, "include", "hfsm2", "machine.hpp")
    with open(path) as f:
        text = f.read()
    masks = dict(re.findall(r"#define\s+(HFSM2_\w+_MASK)\s+\((\d+)\s*<<\s*(\d+)\)", text) and
                 [(m[0], None) for m in re.findall(r"#define\s+(HFSM2_\w+_MASK)\s+\((\d+)\s*<<\s*(\d+)\)", text)])
    bits = {}
    for name, v, sh in re.findall(r"#define\s+(HFSM2_\w+_MASK)\s+\((\d+)\s*<<\s*(\d+)\)", text):
        if v == "1":
            bits[name] = int(sh)
    m = re.search(r"HFSM2_FEATURE_TAG\s*=([^;]*);", text)
    if not m:
        raise AnalysisBroken("HFSM2_FEATURE_TAG definition not found")
    tag = m.group(1)
    used = set(re.findall(r"HFSM2_\w+_MASK", tag))
    # switches that guard declarations: every HFSM2_ENABLE_x / HFSM2_DISABLE_x tested by #ifdef / #ifndef / defined
    switches = set(re.findall(r"#\s*if(?:n?def|.*defined)\s*\(?\s*(HFSM2_(?:ENABLE|DISABLE)_\w+)", text))
    exempt = {"HFSM2_ENABLE_ALL": "expands to the individual switches", "HFSM2_ENABLE_ASSERT": "adds only checks (HFSM2_ASSERT), no declaration"}
    for sw in sorted(switches):
        stem = sw.replace("HFSM2_ENABLE_", "").replace("HFSM2_DISABLE_", "")
        mask = "HFSM2_%s_MASK" % stem
        site = "switch/" + sw
        ctx.instance("C15.tag", site, {"switch": sw, "mask": mask, "bit": bits.get(mask)})
        if sw in exempt:
            continue
        if mask not in bits:
            ctx.violation("C15.tag", site, "include/hfsm2/machine.hpp", "switch %s has no %s bit" % (sw, mask), {})
        elif mask not in used:
            ctx.violation("C15.tag", site, "include/hfsm2/machine.hpp", "%s is not part of HFSM2_FEATURE_TAG: differently configured translation units could be linked together" % mask, {})
    inv = {}
    for k, v in bits.items():
        inv.setdefault(v, []).append(k)
    for v, ks in inv.items():
        if len(ks) > 1:
            ctx.violation("C15.tag", "bit/%d" % v, "include/hfsm2/machine.hpp", "feature masks %s share bit %d" % (ks, v), {})
