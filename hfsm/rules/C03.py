"""C03 — lifecycle callbacks are balanced, nested and delivered to the right object.

Decided: enter-after-parent / exit-before-parent order; exit/enter pairing per region; callbacks reach a sub-state only
through the prong that is active (resp. requested); prong dispatch inside CS_; who may invoke user callbacks and the apex
lifecycle entry points; activation / deactivation entry points; access<T>() denotes the sub-object handlers run on.
Not decided: "exactly once over a whole history" as a count (it follows from the invariants, not separately computed).
"""
import re

from ..engine import site_str
from ..ir import AnalysisBroken, walk, strip
from .common import insts, paths_of, is_regfield, prong_origin
from . import C01

TEXT = {
    "C03.order": "C_/O_::deepEnter, deepReenter, deepEntryGuard: head before sub-states; deepExit, deepExitGuard: sub-states before head; "
                 "each exactly once on the all-approved path",
    "C03.prong-origin": "in every C_::deepX the prong passed to SubStates::wideX is compoActive[COMPO_INDEX] for X in {Reenter, PreUpdate, Update, "
                        "PostUpdate, PreReact, React, PostReact, Query, UpdatePlans, ExitGuard, Exit, ForwardExitGuard, ChangeToRequested, SaveActive} "
                        "and compoRequested[COMPO_INDEX] for X in {EntryGuard, LoadRequested (after the read)}; Enter passes compoActive after active := requested",
    "C03.pairing": "C_::deepReenter / deepChangeToRequested / deepExit / deepEnter: exit of the old prong precedes the write of compoActive, "
                   "enter of the new prong follows it (same rule instances as C01.switch-pairs / exit-resets / enter-sets)",
    "C03.cs-dispatch": "every prong-dispatching member of CS_<split> routes prong < R_PRONG to LHalf::same-name and the rest to RHalf::same-name with "
                       "its own arguments; R_PRONG == RHalf::PRONG_INDEX, L_PRONG == LHalf::PRONG_INDEX; CS_<single> forwards to exactly one Single::deep* member",
    "C03.callers": "user callbacks are invoked only from S_ wrappers and A_::wide* on this; S_::deep{Enter,Exit,Reenter} only from CS_/OS_ dispatchers and "
                   "C_/O_; apex deepEnter/deepExit/deepChangeToRequested only from the frozen R_/RV_ entry points",
    "C03.injection-name": "A_<single>::wideX calls exactly First::x; A_<multi>::wideX calls First::x and Rest::wideX; S_<headed>::deepX calls Head::wideX and Head::x "
                          "(the callback the wrapper is named after, nothing else)",
    "C03.activation": "RV_<Automatic>: both converting constructors end in initialEnter(), the destructor calls finalExit(); RV_<Manual>::enter/exit call "
                      "initialEnter/finalExit; finalExit and reset call apex deepExit before registry.clear() (the teardown walk reads the registry), reset re-enters after it",
    "C03.access": "R_::access<T>() is static_cast<T&>(_apex): handler `this` and access<T>() denote the same sub-object; no state record is passed or returned by value",
}

MIN_INSTANCES = {"C03.order": 10, "C03.prong-origin": 10, "C03.pairing": 4, "C03.cs-dispatch": 44, "C03.callers": 10,
                 "C03.injection-name": 20, "C03.activation": 5, "C03.access": 1}

LIFECYCLE = ("enter", "exit", "reenter", "entryGuard", "exitGuard", "update", "preUpdate", "postUpdate", "react", "preReact", "postReact",
             "query", "planSucceeded", "planFailed", "select", "rank", "utility")


def declare(ctx):
    for r, t in TEXT.items():
        ctx.rule(r, t)


def check(ctx, F):
    check_order(ctx, F)
    prong_origin(ctx, F, "C03.prong-origin", {
        "deepReenter": ("compoActive", ("wideReenter", "wideExit", "wideEnter")),
        "deepPreUpdate": ("compoActive", ("widePreUpdate",)), "deepUpdate": ("compoActive", ("wideUpdate",)),
        "deepPostUpdate": ("compoActive", ("widePostUpdate",)), "deepPreReact": ("compoActive", ("execute", "widePreReact")),
        "deepReact": ("compoActive", ("execute", "wideReact")), "deepPostReact": ("compoActive", ("execute", "widePostReact")),
        "deepQuery": ("compoActive", ("execute", "wideQuery")), "deepUpdatePlans": ("compoActive", ("wideUpdatePlans",)),
        "deepExitGuard": ("compoActive", ("wideExitGuard",)), "deepExit": ("compoActive", ("wideExit",)),
        "deepForwardExitGuard": ("compoActive", ("wideForwardExitGuard", "wideExitGuard")),
        "deepChangeToRequested": ("compoActive", ("wideChangeToRequested", "wideExit", "wideEnter", "wideReenter")),
        "deepEnter": ("compoActive", ("wideEnter",)), "deepEntryGuard": ("compoRequested", ("wideEntryGuard",)),
        "deepSaveActive": ("compoActive", ("wideSaveActive",)),
    })
    # pairing: reuse the C01 instances under this property's rule name
    sub = _Alias(ctx, {"C01.switch-pairs": "C03.pairing", "C01.exit-resets": "C03.pairing", "C01.enter-sets": "C03.pairing"})
    C01.check_exit_enter(sub, F)
    C01.check_switch(sub, F)
    check_cs_dispatch(ctx, F)
    # O_::deepEnter / deepReenter clear the region's requested-prong view: one unit too many wipes the neighbouring registry byte (another region's
    # requested bits, or compoActive[0]) - shared instances of C11.views
    if any(bb.get("cls") == "Bits" and bb["name"] == "clear" for bb in F.bodies.values()):
        from . import C11
        C11.check_views(ctx, F, rule="C03.pairing")
    check_callers(ctx, F)
    check_injection_names(ctx, F)
    check_activation(ctx, F)
    check_access(ctx, F)


class _Alias:
    """forwards instance/violation to ctx under another rule name"""

    def __init__(self, ctx, m):
        self.ctx, self.m = ctx, m

    def __getattr__(self, n):
        return getattr(self.ctx, n)

    def instance(self, rule, site, sample=None):
        self.ctx.instance(self.m.get(rule, rule), site, sample)

    def violation(self, rule, key, where, msg, detail=None):
        self.ctx.violation(self.m.get(rule, rule), key, where, msg, detail)

    @property
    def paths(self):
        return self.ctx.paths

    @paths.setter
    def paths(self, v):
        self.ctx.paths = v


ORDER = {"deepEnter": ["head", "subs"], "deepReenter": ["head", "subs"], "deepEntryGuard": ["head", "subs"],
         "deepExit": ["subs", "head"], "deepExitGuard": ["subs", "head"]}


def check_order(ctx, F):
    for cls in ("C_", "O_"):
        for fid, b in insts(F, cls, set(ORDER)):
            want = ORDER[b["name"]]
            stem = b["name"][4:]
            site = "%s::%s" % (cls, b["name"])
            full = False
            bad = None
            for p in paths_of(ctx, F, fid):
                seq = []
                for ev in p:
                    if ev[0] == "call" and ev[2] is not None:
                        cf = F.fn(ev[2])
                        if cf.get("cls") == "S_" and cf["name"] == "deep" + stem:
                            seq.append("head")
                        elif cf.get("cls") in ("CS_", "OS_") and cf["name"] in ("wide" + stem, "wideExit", "wideEnter", "wideReenter"):
                            if not seq or seq[-1] != "subs":
                                seq.append("subs")
                if seq == want:
                    full = True
                elif seq != want[:len(seq)]:
                    bad = seq
            ctx.instance("C03.order", site, {"function": site, "loc": F.floc(fid), "expected": want})
            if bad is not None:
                ctx.violation("C03.order", site, "%s (%s)" % (site, F.floc(fid)), "callback order %s, expected %s" % (bad, want), {"found": bad})
            elif not full:
                ctx.violation("C03.order", site + "/incomplete", "%s (%s)" % (site, F.floc(fid)), "no path reaches both head and sub-states", {})


def check_cs_dispatch(ctx, F):
    dispatchers = set(b["name"] for fid, b in F.bodies.items() if b["inst"] and b.get("cls") == "CS_" and F.spec(b["tid"]) == "split"
                      and any(p["n"] == "prong" for p in b.get("params", [])))
    for fid, b in F.bodies.items():
        if not b["inst"] or b.get("cls") != "CS_":
            continue
        spec = F.spec(b["tid"])
        if spec == "split" and not any(p["n"] == "prong" for p in b.get("params", [])):
            continue
        if spec == "single" and b["name"] not in dispatchers:
            continue
        name = b["name"]
        site = "CS_<%s>::%s" % (spec, name)
        own_args = ["P:" + p["n"] for p in b["params"]]
        if spec == "split":
            r_prong = F.const(b["tid"], "R_PRONG")
            l_prong = F.const(b["tid"], "L_PRONG")
            if r_prong is None:
                raise AnalysisBroken("R_PRONG not evaluated for %s" % site)
            bad = None
            for p in paths_of(ctx, F, fid):
                side = None
                calls = []
                for ev in p:
                    if ev[0] == "assume" and "P:prong" in ev[2]:
                        # any spelling of `prong < R_PRONG`: prong < R, !(prong >= R), R > prong, prong <= R-1 ... -> (threshold, is-left)
                        m = re.match(r"^\(P:prong(<|>=|<=|>)#(\d+)\)$", ev[2]) or re.match(r"^\(#(\d+)(<|>=|<=|>)P:prong\)$", ev[2])
                        if not m:
                            bad = "unrecognised prong test `%s`" % ev[2]
                            continue
                        if ev[2].startswith("(P:"):
                            op, k = m.group(1), int(m.group(2))
                        else:
                            k, op = int(m.group(1)), {"<": ">", ">": "<", "<=": ">=", ">=": "<="}[m.group(2)]
                        # normalise to `prong < T`
                        thr, left_if_true = {"<": (k, True), ">=": (k, False), "<=": (k + 1, True), ">": (k + 1, False)}[op]
                        if thr != r_prong:
                            bad = "prong compared with %s (threshold %d), expected R_PRONG=%d" % (ev[2], thr, r_prong)
                        side = "L" if bool(ev[3]) == left_if_true else "R"
                    elif ev[0] == "call" and ev[2] is not None:
                        cf = F.fn(ev[2])
                        if cf.get("cls") == "CS_" and cf["name"] == name:
                            pi = F.const(cf.get("tid"), "PRONG_INDEX")
                            half = "L" if pi == l_prong and cf.get("tid") != b["tid"] else ("R" if pi == r_prong else "?")
                            # LHalf and RHalf may share PRONG_INDEX only if widths are degenerate; disambiguate by base order
                            bases = F.bases(b["tid"])
                            if cf.get("tid") in bases:
                                half = "L" if bases.index(cf["tid"]) == 0 else "R"
                            calls.append((half, ev[4]))
                if len(calls) != 1:
                    bad = bad or "%d half calls on a path" % len(calls)
                else:
                    half, args = calls[0]
                    if side is None:
                        bad = bad or "half call not guarded by a prong test"
                    elif half != side:
                        bad = "prong %s R_PRONG routed to %sHalf" % ("<" if side == "L" else ">=", half)
                    elif args != own_args:
                        bad = "arguments %s differ from own parameters %s" % (args, own_args)
            ctx.instance("C03.cs-dispatch", site, {"function": site, "loc": F.floc(fid), "R_PRONG": r_prong})
            if bad:
                ctx.violation("C03.cs-dispatch", site, "%s (%s)" % (site, F.floc(fid)), bad, {})
        elif spec == "single":
            bad = None
            for p in paths_of(ctx, F, fid):
                n = 0
                for ev in p:
                    if ev[0] == "call" and ev[2] is not None:
                        cf = F.fn(ev[2])
                        if cf.get("cls") in ("S_", "C_", "O_") and cf["name"].startswith("deep"):
                            n += 1
                            # the delegate must be the same-named member (wideX -> deepX), allowing the Change<Strategy> family
                            stem = name[4:]
                            exp = {"deep" + stem}
                            if stem.startswith("RequestChange"):
                                exp = {"deepRequestChange"}
                            if stem.startswith("ReportChange"):
                                exp = {"deepReportChange"}
                            if cf["name"] not in exp:
                                bad = "delegates to %s, expected %s" % (cf["name"], sorted(exp))
                if n != 1:
                    bad = bad or "%d Single:: calls on a path" % n
            ctx.instance("C03.cs-dispatch", site, {"function": site, "loc": F.floc(fid)})
            if bad:
                ctx.violation("C03.cs-dispatch", site, "%s (%s)" % (site, F.floc(fid)), bad, {})


APEX_CALLERS = {
    "deepEnter": {("R_", "initialEnter"), ("R_", "reset"), ("RV_", "replayEnter"), ("RV_", "loadEnter")},
    "deepExit": {("R_", "finalExit"), ("R_", "reset")},
    "deepChangeToRequested": {("R_", "processTransitions"), ("R_", "replayTransitions"), ("R_", "load")},
    "deepReenter": set(),
}


def check_callers(ctx, F):
    # (1) user callbacks: callee is a method of a *user* record (outside the roots) or B_/A_ default named like a callback
    for fid, b in F.bodies.items():
        if not b["inst"]:
            continue
        cls = b.get("cls")
        for c in b.get("calls", ()):
            cf = F.fn(c)
            if cf["name"] in LIFECYCLE and not cf.get("inroots", True):
                site = "%s::%s" % (cls, b["name"])
                ok = cls == "S_" or (cls == "A_" and b["name"].startswith("wide"))
                ctx.instance("C03.callers", "user-callback/" + site, {"caller": site, "callee": cf["qn"]})
                if not ok:
                    ctx.violation("C03.callers", "user-callback/" + site, "%s (%s)" % (site_str(F, fid), F.floc(fid)),
                                  "user callback %s invoked from %s (only S_ wrappers and A_::wide* may)" % (cf["qn"], site), {})
    # (2) S_ lifecycle wrappers
    for fid, b in F.bodies.items():
        if not b["inst"]:
            continue
        cls = b.get("cls")
        for c in b.get("calls", ()):
            cf = F.fn(c)
            if cf.get("cls") == "S_" and cf["name"] in ("deepEnter", "deepExit", "deepReenter"):
                site = "%s::%s" % (cls, b["name"])
                ok = cls in ("CS_", "OS_", "C_", "O_")
                ctx.instance("C03.callers", "state-lifecycle/" + site, {"caller": site, "callee": "S_::" + cf["name"]})
                if not ok:
                    ctx.violation("C03.callers", "state-lifecycle/" + site, "%s (%s)" % (site_str(F, fid), F.floc(fid)),
                                  "S_::%s called from %s" % (cf["name"], site), {})
                elif cls in ("C_", "O_", "CS_", "OS_") and b["name"][4:] != cf["name"][4:] and not (
                        cls == "C_" and b["name"] in ("deepReenter", "deepChangeToRequested")):
                    ctx.violation("C03.callers", "state-lifecycle/" + site + "->" + cf["name"], "%s (%s)" % (site_str(F, fid), F.floc(fid)),
                                  "%s delivers %s" % (site, cf["name"]), {})
    # (3) apex entry points
    for fid, b in F.bodies.items():
        if not b["inst"] or b.get("cls") not in ("R_", "RV_", "RP_", "RC_", "InstanceT"):
            continue
        for x in walk(b["body"]):
            if x.get("k") == "call" and "f" in x and x.get("obj") is not None:
                o = strip(x["obj"])
                if o.get("k") == "mem" and o.get("n") == "_apex":
                    cn = F.fn(x["f"])["name"]
                    if cn in APEX_CALLERS:
                        site = "%s::%s" % (b["cls"], b["name"])
                        ctx.instance("C03.callers", "apex/%s<-%s" % (cn, site), {"caller": site, "callee": "_apex." + cn})
                        if (b["cls"], b["name"]) not in APEX_CALLERS[cn]:
                            ctx.violation("C03.callers", "apex/%s<-%s" % (cn, site), "%s (%s)" % (site_str(F, fid), F.floc(fid)),
                                          "_apex.%s called from %s, not one of %s" % (cn, site, sorted("%s::%s" % a for a in APEX_CALLERS[cn])), {})


WIDE = ("EntryGuard", "Enter", "Reenter", "PreUpdate", "Update", "PostUpdate", "PreReact", "React", "PostReact", "Query", "ExitGuard", "Exit")


def _low(x):
    return x[0].lower() + x[1:]


def check_injection_names(ctx, F):
    for fid, b in F.bodies.items():
        if not b["inst"]:
            continue
        cls, spec, name = F.fkey(fid)
        if cls == "A_" and name.startswith("wide") and name[4:] in WIDE:
            X = name[4:]
            site = "A_<%s>::%s" % (spec, name)
            want = {("cb", _low(X))} if spec == "single" else {("cb", _low(X)), ("wide", name)}
            got = set()
            for c in b.get("calls", ()):
                cf = F.fn(c)
                if cf["name"] in LIFECYCLE:
                    got.add(("cb", cf["name"]))
                elif cf["name"].startswith("wide"):
                    got.add(("wide", cf["name"]))
            ctx.instance("C03.injection-name", site, {"function": site, "loc": F.floc(fid), "expected_calls": sorted(want)})
            if got != want:
                ctx.violation("C03.injection-name", site, "%s (%s)" % (site, F.floc(fid)),
                              "%s calls %s, expected %s" % (site, sorted(got), sorted(want)), {})
        elif cls == "S_" and spec == "headed" and name.startswith("deep") and name[4:] in WIDE:
            X = name[4:]
            site = "S_<headed>::" + name
            got = set()
            for p in paths_of(ctx, F, fid):
                for ev in p:
                    if ev[0] == "call" and ev[2] is not None:
                        cf = F.fn(ev[2])
                        if cf["name"] in LIFECYCLE and ev[3] is not None and ev[3].startswith("this"):
                            got.add(("cb", cf["name"]))
                        elif cf["name"].startswith("wide") and cf.get("cls") == "A_":
                            got.add(("wide", cf["name"]))
                    elif ev[0] == "icall":
                        m = re.search(r"fn:[\w<>,:]*::(\w+)\)*$", ev[2])
                        if m:
                            got.add(("cb", m.group(1)))
            want = {("cb", _low(X)), ("wide", "wide" + X)}
            ctx.instance("C03.injection-name", site, {"function": site, "loc": F.floc(fid), "expected_calls": sorted(want)})
            if got != want:
                ctx.violation("C03.injection-name", site, "%s (%s)" % (site, F.floc(fid)),
                              "%s calls %s, expected %s" % (site, sorted(got), sorted(want)), {})


def _last_call_name(F, b):
    body = b["body"]
    ss = [x for x in body.get("s", []) if x.get("k") not in ("cast",)]
    if not ss:
        return None
    last = ss[-1]
    if last.get("k") == "call" and "f" in last:
        return F.fn(last["f"])["name"]
    return None


def check_activation(ctx, F):
    for fid, b in F.bodies.items():
        if not b["inst"] or b.get("cls") != "RV_":
            continue
        spec = F.spec(b["tid"])
        kind = b.get("kind")
        if spec == "Automatic" and kind == "ctor":
            t = F.type(b["tid"])
            # copy / move constructors copy an already activated machine
            ps = b.get("params", [])
            if len(ps) == 1 and ps[0].get("tid") == b["tid"]:
                continue
            site = "RV_<Automatic>::RV_/%s" % (ps[0]["t"].split("::")[-1][:24] if ps else "")
            last = _last_call_name(F, b)
            ctx.instance("C03.activation", site, {"function": site, "loc": F.floc(fid), "last_call": last})
            if last != "initialEnter":
                ctx.violation("C03.activation", site, "%s (%s)" % (site, F.floc(fid)), "constructor does not end in initialEnter() (last call: %s)" % last, {})
        elif spec == "Automatic" and kind == "dtor":
            site = "RV_<Automatic>::~RV_"
            names = [F.fn(c)["name"] for c in b.get("calls", ())]
            ctx.instance("C03.activation", site, {"function": site, "loc": F.floc(fid), "calls": names})
            if "finalExit" not in names:
                ctx.violation("C03.activation", site, "%s (%s)" % (site, F.floc(fid)), "destructor does not call finalExit()", {})
        elif spec == "Manual" and b["name"] in ("enter", "exit"):
            site = "RV_<Manual>::" + b["name"]
            want = "initialEnter" if b["name"] == "enter" else "finalExit"
            names = [F.fn(c)["name"] for c in b.get("calls", ())]
            ctx.instance("C03.activation", site, {"function": site, "loc": F.floc(fid), "calls": names})
            if names != [want]:
                ctx.violation("C03.activation", site, "%s (%s)" % (site, F.floc(fid)), "%s calls %s, expected [%s]" % (site, names, want), {})
    # the teardown walk finds the entered states through the registry: it runs before the registry is cleared (finalExit, reset), and the
    # re-activation of reset() after it
    for fid, b in insts(F, "R_", {"finalExit", "reset"}):
        site = "R_::" + b["name"]
        want = ["exit", "clear"] if b["name"] == "finalExit" else ["exit", "clear", "enter"]
        bad = None
        for p in paths_of(ctx, F, fid):
            seq = []
            for ev in p:
                if ev[0] == "call" and ev[2] is not None:
                    cf = F.fn(ev[2])
                    if cf["name"] == "deepExit":
                        seq.append("exit")
                    elif cf["name"] == "deepEnter":
                        seq.append("enter")
                    elif cf["name"] == "clear" and (cf.get("cls") == "RegistryT" or (ev[3] is not None and ev[3].endswith(".registry"))):
                        seq.append("clear")
            if seq != want:
                bad = seq
        ctx.instance("C03.activation", site, {"function": site, "loc": F.floc(fid)})
        if bad is not None:
            ctx.violation("C03.activation", site, "%s (%s)" % (site, F.floc(fid)),
                          "%s sequence %s, expected %s (_apex.deepExit reads the registry to find the entered states: it precedes registry.clear(); "
                          "the re-activation follows it)" % (b["name"], bad, want), {})


def check_access(ctx, F):
    for fid, b in insts(F, "R_", {"access"}):
        site = "R_::access" + ("/const" if b.get("const") else "")
        ok = False
        body = b["body"]
        ss = body.get("s", [])
        if len(ss) == 1 and ss[0].get("k") == "ret":
            e = ss[0]["e"]
            # static_cast<T&>(_apex): explicit static cast (derived/base conversion) of this->_apex, returned by reference
            if e and e.get("k") == "cast" and e.get("ck") == "static":
                inner = strip(e["e"])
                if inner.get("k") == "mem" and inner.get("n") == "_apex" and strip(inner.get("b")).get("k") == "this":
                    ok = b.get("retref", False)
        ctx.instance("C03.access", site, {"function": site, "loc": F.floc(fid)})
        if not ok:
            ctx.violation("C03.access", site, "%s (%s)" % (site, F.floc(fid)), "access<T>() is not `return static_cast<T&>(_apex)` by reference", {})
    # no state record is passed, returned, held in a local or copy-constructed by value by any library function: a callback invoked on a copy
    # runs on an object other than the one access<T>() denotes (and the copy is never entered / exited)
    state_tmpls = ("S_", "C_", "CS_", "O_", "OS_")
    from .. import facts as factsmod
    lib = factsmod.REPO.rstrip("/") + "/"

    def state_type(tid):
        t = F.type(tid) if tid is not None else None
        if not t:
            return None
        if t.get("tmpl") in state_tmpls or t.get("name") in state_tmpls:
            return t.get("tmpl") or t.get("name")
        loc = t.get("loc") or ""
        if loc and not loc.startswith(lib) and not loc.startswith("/usr/") and any((F.type(bb.get("tid")) or {}).get("name") in ("A_", "B_") or
                                                                                 "hfsm2::detail::A_<" in str(bb.get("t")) for bb in t.get("bases", [])):
            return "user state " + (t.get("name") or "?")
        return None

    scanned = 0
    for fid, b in F.bodies.items():
        if not b["inst"] or not (F.fn(fid).get("loc") or "").startswith(lib):
            continue
        scanned += 1
        where = "%s::%s" % (b.get("cls"), b["name"])
        for p in b.get("params", []):
            st = state_type(p.get("tid"))
            if st and not p.get("ref") and not p.get("ptr"):
                ctx.violation("C03.access", "byvalue/%s" % where, "%s (%s)" % (site_str(F, fid), F.floc(fid)),
                              "state sub-object of type %s passed by value" % st, {})
        st = state_type(b.get("rettid"))
        if st and not b.get("retref") and b.get("kind") != "ctor":
            ctx.violation("C03.access", "byvalue-ret/%s" % where, "%s (%s)" % (site_str(F, fid), F.floc(fid)), "state sub-object returned by value", {})
        if b.get("cls") in state_tmpls and b.get("kind") == "ctor":
            continue
        for x in walk(b.get("body") or {}):
            if x.get("k") == "decl":
                for v in x.get("vars", []):
                    st = state_type(v.get("tid"))
                    if st and not v.get("ref") and not v.get("ptr"):
                        ctx.violation("C03.access", "byvalue-local/%s/%s" % (where, v.get("n")), "%s (%s)" % (site_str(F, fid), F.floc(fid)),
                                      "local `%s` is a *copy* of a state sub-object (%s): callbacks invoked through it run on a temporary, not on the "
                                      "object access<T>() returns" % (v.get("n"), st), {})
            elif x.get("k") == "ctor" and x.get("copy") and state_type(x.get("tid")):
                ctx.violation("C03.access", "copy/%s" % where, "%s (%s)" % (site_str(F, fid), F.floc(fid)),
                              "a state sub-object (%s) is copy-constructed" % state_type(x.get("tid")), {})
    ctx.instance("C03.access", "by-value scan", {"library_functions_scanned": scanned})
