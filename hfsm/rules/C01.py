"""C01 — the active configuration is always well-formed.

The active set is encoded as compoActive[c] in {INVALID, 0..W-1} per composite region.  Decided: every function that can write
the encoding preserves "a region's prong is valid iff the region is entered, and the entered sub-state is the prong", and no
INVALID value can reach compoRequested/compoActive through a resolution.
"""
from ..effects import Effects
from ..engine import site_str
from ..ir import AnalysisBroken, walk, strip
from ..origin import Origins
from .common import insts, paths_of, is_regfield, regfield
from . import routing

TEXT = {
    "C01.writers": "who-may-write: compoActive only by C_::{deepEnter,deepReenter,deepExit,deepChangeToRequested} and RegistryT::clear; "
                   "compoRequested / orthoRequested / compoResumable / compoRemains only by the frozen writer tables below",
    "C01.exit-resets": "C_::deepExit: on every path SubStates::wideExit(compoActive[ci]) and HeadState::deepExit are called, then compoActive[ci] := INVALID",
    "C01.enter-sets": "C_::deepEnter: compoActive[ci] := compoRequested[ci] precedes SubStates::wideEnter(compoActive[ci]); compoRequested[ci] := INVALID on every path",
    "C01.switch-pairs": "C_::deepReenter / deepChangeToRequested: on every path the sub-state calls are exactly one of [wideChangeToRequested], "
                        "[wideReenter], [wideExit, wideEnter]; every prong is compoActive[ci]; a write of compoActive lies between the exit and the enter "
                        "iff requested != active; the written value is compoRequested[ci]",
    "C01.ortho-all": "OS_<nonlast>::wideX calls Initial::deepX and Remaining::wideX exactly once on every path (Forward* variants may filter Initial "
                     "by prongs.get(PRONG_INDEX) only; the reaction members may skip Remaining only on the path where control._consumed holds after "
                     "Initial returned); O_::deepX calls HeadState and SubStates members unconditionally",
    "C01.no-invalid": "every value assigned to compoRequested in a C_ resolution function is INVALID-free: literal < INVALID, a resumable read guarded by "
                      "!= INVALID, Parent::prong registration data, user select() (precondition), a bounded loop index; a reachable INVALID literal in a "
                      "resolver's return is a violation",
    "C01.defaults": "an anonymous head behaves like a headed state that overrides nothing: S_<empty>::wrapSelect returns what S_<headed>::wrapSelect "
                    "returns once Head::select folds to the A_ default (0)",
    "C01.descend": "every C_ resolution function (deepRequest<Kind>, deepRequestChange<Strategy>, deepReportChange<Strategy>, deepReportUtilize, "
                   "deepReportRandomize) descends on every path into the SubStates member of the frozen table (rules/routing.py) and hands down "
                   "the prong it just stored in compoRequested",
}

MIN_INSTANCES = {"C01.writers": 5, "C01.exit-resets": 1, "C01.enter-sets": 1, "C01.switch-pairs": 2, "C01.ortho-all": 30,
                 "C01.no-invalid": 10, "C01.defaults": 1, "C01.descend": 10}

C_RESOLVERS_REQ = ("deepRequestChangeComposite", "deepRequestChangeResumable", "deepRequestChangeSelectable", "deepRequestChangeUtilitarian",
                   "deepRequestChangeRandom", "deepRequestRestart", "deepRequestResume", "deepRequestSelect", "deepRequestUtilize",
                   "deepRequestRandomize")
C_RESOLVERS_REP = ("deepReportChangeComposite", "deepReportChangeResumable", "deepReportChangeSelectable", "deepReportChangeUtilitarian",
                   "deepReportChangeRandom", "deepReportUtilize", "deepReportRandomize")

ALLOWED_WRITERS = {
    "compoActive": {("C_", "deepEnter"), ("C_", "deepReenter"), ("C_", "deepExit"), ("C_", "deepChangeToRequested"), ("RegistryT", "clear")},
    "compoRequested": {("C_", n) for n in C_RESOLVERS_REQ + C_RESOLVERS_REP} | {
        ("C_", "deepEnter"), ("C_", "deepReenter"), ("C_", "deepChangeToRequested"), ("C_", "deepLoadRequested"),
        ("RegistryT", "requestImmediate"), ("RegistryT", "clearRequests"), ("RegistryT", "restore")},
    "compoResumable": {("C_", "deepEnter"), ("C_", "deepReenter"), ("C_", "deepExit"), ("C_", "deepChangeToRequested"),
                       ("C_", "deepLoadRequested"), ("C_", "deepLoadResumable"),
                       ("RegistryT", "requestScheduled"), ("RegistryT", "clear"), ("R_", "load"), ("RV_", "loadEnter")},
    "compoRemains": {("RegistryT", "requestImmediate"), ("RegistryT", "clearRequests"), ("RegistryT", "restore")},
    "orthoRequested": {("O_", "deepEnter"), ("O_", "deepReenter"), ("O_", "orthoRequested"), ("RegistryT", "requestImmediate"), ("RegistryT", "requestedOrthoFork"),
                       ("RegistryT", "clearRequests"), ("RegistryT", "restore"), ("OS_", "wideLoadRequested"), ("O_", "deepLoadRequested")},
}


def declare(ctx):
    for r, t in TEXT.items():
        ctx.rule(r, t)


def invalid_of(ty):
    return {"unsigned char": 255, "unsigned short": 65535, "unsigned int": 4294967295}.get(ty, 255)


def check(ctx, F):
    E = Effects(F)
    check_writers(ctx, F, E)
    check_exit_enter(ctx, F)
    check_switch(ctx, F)
    check_ortho_all(ctx, F)
    check_no_invalid(ctx, F)
    check_defaults(ctx, F)
    routing.check_descend(ctx, F, "C01.descend")
    check_ortho_descend(ctx, F)
    from .common import check_accessors
    check_accessors(ctx, F, "C01.writers")        # every overload of an accessor addresses the region's own slot
    # a nested region reports its *own* prong to the region that resolves it (shared with C12.compose): the parent stores what is reported
    from . import C12, C03 as _C03, C04
    C12.check_compose(_C03._Alias(ctx, {"C12.compose": "C01.no-invalid"}), F)
    # the commit (deepEnter / deepChangeToRequested) runs on the requests of an approved round only: the round protocol of initialEnter /
    # processTransitions (shared with C04.round) - a restore of a back-up taken too early commits INVALID prongs
    C04.check_round(_C03._Alias(ctx, {"C04.round": "C01.enter-sets"}), F)
    # the prong a resolver stored reaches the sub-state it names: CS_ dispatch by prong < R_PRONG (rule instances shared with C02 / C03)
    from . import C03
    C03.check_cs_dispatch(C03._Alias(ctx, {"C03.cs-dispatch": "C01.descend"}), F)


def check_writers(ctx, F, E):
    for field, allowed in ALLOWED_WRITERS.items():
        ws = E.writers(field)
        for w in ws:
            cls, spec, name = F.fkey(w)
            site = "%s/%s::%s" % (field, cls, name)
            ctx.instance("C01.writers", site, {"field": field, "writer": site_str(F, w), "loc": F.floc(w)})
            if (cls, name) not in allowed:
                ctx.violation("C01.writers", site, "%s (%s)" % (site_str(F, w), F.floc(w)),
                              "%s writes registry.%s but is not one of its frozen writers" % (site_str(F, w), field),
                              {"field": field, "allowed": sorted("%s::%s" % a for a in allowed)})


def _ci(F, b):
    ci = F.const(b["tid"], "COMPO_INDEX")
    if ci is None:
        raise AnalysisBroken("COMPO_INDEX not evaluated")
    return ci


def check_exit_enter(ctx, F):
    for fid, b in insts(F, "C_", {"deepExit"}):
        ci = _ci(F, b)
        site = "C_::deepExit"
        ok = True
        why = None
        for p in paths_of(ctx, F, fid):
            seq = []
            for ev in p:
                if ev[0] == "call" and ev[2] is not None:
                    cf = F.fn(ev[2])
                    if cf["name"] == "wideExit":
                        seq.append("subs" if ev[4] and is_regfield(ev[4][-1], "compoActive", ci) else "subs-wrong-prong")
                    elif cf["name"] == "deepExit" and cf.get("cls") == "S_":
                        seq.append("head")
                elif ev[0] == "write" and is_regfield(ev[2], "compoActive", ci):
                    seq.append("reset" if ev[3] == "#%d" % invalid_of(ev[1].get("ty")) else "active:=" + ev[3])
            if seq != ["subs", "head", "reset"]:
                ok, why = False, seq
        ctx.instance("C01.exit-resets", site, {"function": site, "loc": F.floc(fid), "expected": ["subs", "head", "reset"]})
        if not ok:
            ctx.violation("C01.exit-resets", site, "%s (%s)" % (site, F.floc(fid)),
                          "exit sequence is %s, expected [wideExit(active), head deepExit, compoActive := INVALID]" % why, {"found": why})
    for fid, b in insts(F, "C_", {"deepEnter"}):
        ci = _ci(F, b)
        site = "C_::deepEnter"
        bad = None
        for p in paths_of(ctx, F, fid):
            seq = []
            for ev in p:
                if ev[0] == "write" and is_regfield(ev[2], "compoActive", ci):
                    seq.append("set" if is_regfield(ev[3], "compoRequested", ci) else "active:=" + ev[3])
                elif ev[0] == "write" and is_regfield(ev[2], "compoRequested", ci):
                    seq.append("clear-request" if ev[3] == "#%d" % invalid_of(ev[1].get("ty")) else "requested:=" + ev[3])
                elif ev[0] == "call" and ev[2] is not None:
                    cf = F.fn(ev[2])
                    if cf["name"] == "wideEnter":
                        seq.append("subs" if ev[4] and is_regfield(ev[4][-1], "compoActive", ci) else "subs-wrong-prong")
                    elif cf["name"] == "deepEnter" and cf.get("cls") == "S_":
                        seq.append("head")
            if seq != ["set", "clear-request", "head", "subs"]:
                bad = seq
        ctx.instance("C01.enter-sets", site, {"function": site, "loc": F.floc(fid), "expected": ["set", "clear-request", "head", "subs"]})
        if bad is not None:
            ctx.violation("C01.enter-sets", site, "%s (%s)" % (site, F.floc(fid)),
                          "enter sequence is %s, expected [compoActive := compoRequested, compoRequested := INVALID, head deepEnter, wideEnter(active)]" % bad,
                          {"found": bad})


def check_switch(ctx, F):
    for fid, b in insts(F, "C_", {"deepReenter", "deepChangeToRequested"}):
        ci = _ci(F, b)
        site = "C_::" + b["name"]
        bad = None
        shapes = set()
        for p in paths_of(ctx, F, fid):
            seq = []
            neq = None
            for ev in p:
                if ev[0] == "call" and ev[2] is not None:
                    cf = F.fn(ev[2])
                    if cf.get("cls") == "CS_" and cf["name"] in ("wideExit", "wideEnter", "wideReenter", "wideChangeToRequested"):
                        okp = ev[4] and is_regfield(ev[4][-1], "compoActive", ci)
                        seq.append(cf["name"] if okp else cf["name"] + "(wrong prong %s)" % (ev[4][-1] if ev[4] else "?"))
                elif ev[0] == "write" and is_regfield(ev[2], "compoActive", ci):
                    seq.append("active:=requested" if is_regfield(ev[3], "compoRequested", ci) else "active:=" + ev[3])
                elif ev[0] == "assume":
                    s = ev[2]
                    if "compoRequested" in s and "compoActive" in s and ("!=" in s or "==" in s):
                        differ = ("!=" in s) == ev[3]
                        neq = differ
            shapes.add(tuple(seq))
            okshape = seq in (["wideChangeToRequested"], ["wideReenter"], ["wideExit", "wideEnter"],
                              ["wideExit", "active:=requested", "wideEnter"])
            if not okshape:
                bad = seq
            elif neq is True and seq != ["wideExit", "active:=requested", "wideEnter"]:
                bad = ["requested != active but"] + seq
            elif neq is False and "active:=requested" in seq:
                pass  # harmless (same value)
        ctx.instance("C01.switch-pairs", site, {"function": site, "loc": F.floc(fid), "path_shapes": sorted(shapes)})
        if bad is not None:
            ctx.violation("C01.switch-pairs", site, "%s (%s)" % (site, F.floc(fid)),
                          "sub-state switch sequence %s breaks exit/enter pairing" % bad, {"found": bad})


FORWARD_PRONG = ("wideForwardEntryGuard", "wideForwardExitGuard", "wideForwardActive")
SKIP = ("wideGetNames",)


REACTIONS = ("PreReact", "React", "PostReact", "Query")


def _consumed_after_initial(F, p, stem):
    """the path tests control._consumed after Initial::deep<stem> returned and takes the 'consumed' side"""
    seen_initial = False
    for ev in p:
        if ev[0] == "call" and ev[2] is not None and F.fn(ev[2])["name"] == "deep" + stem:
            seen_initial = True
        if ev[0] == "assume" and seen_initial and "_consumed" in ev[2]:
            from .C05 import consumed_test
            return consumed_test(ev[2], bool(ev[3])) is True
    return False


def check_ortho_all(ctx, F, only=None):
    for fid, b in F.bodies.items():
        if not b["inst"] or b.get("cls") != "OS_" or F.spec(b.get("tid")) != "nonlast":
            continue
        name = b["name"]
        if not name.startswith("wide") or name in SKIP or (only and name not in only):
            continue
        stem = name[4:]
        site = "OS_<nonlast>::" + name + ("/prongs" if any(p["n"] == "prongs" for p in b.get("params", [])) else "")
        filtered = site.endswith("/prongs")
        bad = None
        for p in paths_of(ctx, F, fid):
            ini = rem = 0
            ini_guarded = False
            last_assume = None
            for ev in p:
                if ev[0] == "assume":
                    last_assume = (ev[2], ev[3])
                if ev[0] == "call" and ev[2] is not None:
                    cf = F.fn(ev[2])
                    if cf.get("cls") == "OS_" and cf["name"] == name:
                        rem += 1
                    elif cf.get("cls") in ("S_", "C_", "O_") and cf["name"] == "deep" + stem:
                        ini += 1
            if rem == 0 and stem in REACTIONS and ini == 1 and _consumed_after_initial(F, p, stem):
                pass          # C05: a consumed event / query is not delivered to the remaining siblings (does not touch the configuration)
            elif rem != 1:
                bad = "Remaining::%s called %d times on a path" % (name, rem)
            if not filtered and ini != 1:
                bad = "Initial::deep%s called %d times on a path" % (stem, ini)
            if filtered and ini > 1:
                bad = "Initial::deep%s called %d times on a path" % (stem, ini)
        if filtered:
            # the only admissible filter is prongs.get(PRONG_INDEX)
            pi = F.const(b["tid"], "PRONG_INDEX")
            for p in paths_of(ctx, F, fid):
                for ev in p:
                    if ev[0] == "assume" and "P:prongs" in ev[2] and ev[1].get("k") == "call" and ("get(#%s)" % pi) not in ev[2]:
                        bad = "Initial filtered by `%s`, expected prongs.get(PRONG_INDEX=%s)" % (ev[2], pi)
        ctx.instance("C01.ortho-all", site, {"function": site, "loc": F.floc(fid), "filtered_by_prongs": filtered})
        if bad:
            ctx.violation("C01.ortho-all", site, "%s (%s)" % (site, F.floc(fid)), bad, {})
    if only:
        return
    # O_: head and sub-states unconditionally for lifecycle members
    for fid, b in insts(F, "O_", {"deepEnter", "deepReenter", "deepExit"}):
        site = "O_::" + b["name"]
        stem = b["name"][4:]
        bad = None
        for p in paths_of(ctx, F, fid):
            h = s = 0
            for ev in p:
                if ev[0] == "call" and ev[2] is not None:
                    cf = F.fn(ev[2])
                    if cf.get("cls") == "S_" and cf["name"] == "deep" + stem:
                        h += 1
                    elif cf.get("cls") == "OS_" and cf["name"] == "wide" + stem:
                        s += 1
            if (h, s) != (1, 1):
                bad = "head called %d, sub-states %d times" % (h, s)
        ctx.instance("C01.ortho-all", site, {"function": site, "loc": F.floc(fid)})
        if bad:
            ctx.violation("C01.ortho-all", site, "%s (%s)" % (site, F.floc(fid)), bad, {})


O_DESCEND = ("deepRequestChange", "deepRequestRestart", "deepRequestResume", "deepRequestSelect", "deepRequestUtilize", "deepRequestRandomize",
             "deepReportChange", "deepReportUtilize", "deepReportRandomize")


def check_ortho_descend(ctx, F):
    """an orthogonal region hands every request / report down to all of its sub-regions on every path: the reports are what stores the
    requested prongs of nested regions (a skipped report leaves a nested region to be entered without a requested prong)"""
    for fid, b in insts(F, "O_", set(O_DESCEND)):
        site = "O_::" + b["name"]
        want = "wide" + b["name"][4:]
        bad = None
        for p in paths_of(ctx, F, fid):
            n = sum(1 for ev in p if ev[0] == "call" and ev[2] is not None and F.fn(ev[2]).get("cls") == "OS_" and F.fn(ev[2])["name"] == want)
            if n != 1:
                bad = n
        ctx.instance("C01.descend", site, {"function": site, "loc": F.floc(fid), "descends_through": want})
        if bad is not None:
            ctx.violation("C01.descend", site, "%s (%s)" % (site, F.floc(fid)),
                          "SubStates::%s is called %d times on some path, expected once on every path: nested regions of the orthogonal region are left "
                          "without a requested prong" % (want, bad), {})


def _user_select(F, e, cf):
    return None


def classify(F, a, inv):
    """-> None if INVALID-free, else reason"""
    k, d = a.kind, a.detail
    if k in ("lit", "deflit"):
        try:
            v = int(d)
        except (TypeError, ValueError):
            return "non-integer literal %r" % (d,)
        if v == inv:
            return "INVALID literal%s" % (" (default argument)" if k == "deflit" else "")
        return None
    if k == "guarded" or k == "loopvar":
        return None
    if k == "extern":
        # a user-provided callback (select): precondition select() < width
        return None
    if k == "read":
        s = str(d)
        if s.endswith(".prong") and ("stateParents" in s or "compoParents" in s or "orthoParents" in s or "parent" in s.lower()):
            return None
        for f in ("compoResumable", "compoActive", "compoRequested"):
            if f in s:
                return "unguarded read of %s (may hold INVALID)" % f
        return "unclassified read %s" % s
    if k == "param":
        return None
    return "unclassified origin %s:%s" % (k, d)


def check_no_invalid(ctx, F):
    O = Origins(F)
    for fid, b in insts(F, "C_", set(C_RESOLVERS_REQ + C_RESOLVERS_REP)):
        ci = _ci(F, b)
        site = "C_::" + b["name"]
        n = 0
        for x in walk(b["body"]):
            if x.get("k") != "asg" or x.get("op") != "=":
                continue
            l = strip(x["lhs"])
            if not (l.get("k") == "var" and l.get("n") == "requested") and not (l.get("k") in ("idx", "call")):
                continue
            inv = invalid_of(x.get("ty"))
            atoms = O.origin(fid, x["rhs"])
            n += 1
            for a in atoms:
                why = classify(F, a, inv)
                if why is None:
                    continue
                if why.startswith("unclassified"):
                    raise AnalysisBroken("%s: %s" % (site, why))
                src = site_str(F, a.fid) if a.fid is not None else site
                ctx.violation("C01.no-invalid", src + "/" + why.split(" (")[0], "%s (%s)" % (src, F.floc(a.fid) if a.fid is not None else ""),
                              "%s can flow into compoRequested (assigned in %s): a region could be entered with no valid sub-state" % (why, site),
                              {"line": a.line, "assigned_in": site, "atom": [a.kind, str(a.detail)]})
        if n:
            ctx.instance("C01.no-invalid", site, {"function": site, "loc": F.floc(fid), "assignments": n})
    # the stored prong must denote one of this region's *own* sub-states
    for fid, (site, kind, n, atoms) in routing.sources(ctx, F).items():
        if not n:
            continue
        ok = kind in ("first", "resumable", "select", "random") or kind.startswith("utility:")
        ctx.instance("C01.no-invalid", site + "/source", {"function": site, "loc": F.floc(fid), "source": kind})
        if not ok:
            ctx.violation("C01.no-invalid", site + "/source", "%s (%s)" % (site, F.floc(fid)),
                          "the prong stored into compoRequested comes from `%s`, which is not a prong of this region's own sub-states "
                          "(literal first, guarded resumable, select(), SubStates report, random walk)" % kind, {"source": kind})


DEFAULT_FUNCS = ("wrapSelect",)   # the utility/rank defaults are decided under C12.defaults (same machinery)
ALL_DEFAULT_FUNCS = ("wrapSelect", "wrapRank", "wrapUtility", "deepReportChange", "deepReportUtilize", "deepReportRank", "deepReportRandomize")


def _ret_values(F, O, fid, field):
    out = set()
    for a in O.ret_origins(fid, field, frozenset()):
        if a.kind in ("lit", "deflit"):
            out.add(("lit", float(a.detail) if a.detail is not None else 0.0))
        elif a.kind == "read":
            out.add(("read", str(a.detail).split("[")[0].rsplit(".", 1)[-1] + ("[...]." + str(a.detail).rsplit(".", 1)[-1] if "[" in str(a.detail) else "")))
        elif a.kind == "extern":
            out.add(("user", a.detail))
        else:
            out.add((a.kind, str(a.detail)))
    return out


def check_defaults(ctx, F, rule="C01.defaults", funcs=None):
    funcs = funcs or DEFAULT_FUNCS
    O = Origins(F)
    empty = {}
    headed_default = {}
    for fid, b in F.bodies.items():
        if not b["inst"] or b.get("cls") != "S_" or b["name"] not in funcs:
            continue
        spec = F.spec(b.get("tid"))
        fields = [None] if b["name"] in ("wrapSelect", "wrapRank", "wrapUtility", "deepReportRank", "deepReportRandomize") else ["utility", "prong"]
        vals = tuple(sorted((f or "", tuple(sorted(_ret_values(F, O, fid, f)))) for f in fields))
        if spec == "empty":
            empty.setdefault(b["name"], set()).add(vals)
            empty.setdefault(("fid", b["name"]), fid)
        else:
            # only heads that override nothing fold to the defaults: no 'user' atom in the values
            if any(k == "user" for _, vs in vals for k, _ in vs):
                continue
            headed_default.setdefault(b["name"], set()).add(vals)
    for name in funcs:
        if name not in empty or name not in headed_default:
            continue
        site = "S_<empty>::" + name
        fid = empty[("fid", name)]
        ctx.instance(rule, site, {"function": site, "loc": F.floc(fid), "empty_returns": sorted(map(str, empty[name])),
                                            "headed_default_returns": sorted(map(str, headed_default[name]))})
        if empty[name] != headed_default[name]:
            ctx.violation(rule, site, "%s (%s)" % (site, F.floc(fid)),
                          "anonymous head returns %s where a headed state overriding nothing returns %s" % (
                              sorted(empty[name]), sorted(headed_default[name])),
                          {"empty": sorted(map(str, empty[name])), "headed_default": sorted(map(str, headed_default[name]))})


def check_descend(ctx, F):
    for fid, b in insts(F, "C_", set(C_RESOLVERS_REQ + C_RESOLVERS_REP)):
        site = "C_::" + b["name"]
        bad = False
        for p in paths_of(ctx, F, fid):
            desc = False
            for ev in p:
                if ev[0] == "call" and ev[2] is not None:
                    cf = F.fn(ev[2])
                    if cf.get("cls") == "CS_" and (cf["name"].startswith("wideRequest") or cf["name"].startswith("wideReport")):
                        desc = True
            if not desc:
                bad = True
        ctx.instance("C01.descend", site, {"function": site, "loc": F.floc(fid)})
        if bad:
            ctx.violation("C01.descend", site, "%s (%s)" % (site, F.floc(fid)),
                          "%s sets this region's requested prong but never descends into the chosen sub-state: a nested region is entered without a request" % site, {})
