"""C07 — plan storage keeps per-region task lists intact under edits and at capacity.

Decided: the capacity clause (append at capacity returns false and writes nothing); tasks stay attributed to their region (who may
write taskBounds / taskLinks / tasks); linkTask appends at the tail with the old tail as predecessor; remove re-links both
neighbours (or the bound), resets both links of the freed slot and frees exactly the addressed slot; clearTasks reads the successor
before freeing a slot and resets both bounds; iterators of all kinds walk the same links; clear() resets every field to its initial value.
Not decided: "at all times the regions' plans are disjoint acyclic lists whose lengths add up to the number of stored tasks" over
arbitrary interleavings — a shape property of index-linked lists; no sound shape analysis is in reach here.
"""
import re

from ..effects import Effects, outer_field
from ..engine import site_str
from ..ir import AnalysisBroken, walk, strip, sym_paths
from .common import insts, paths_of
from .C12 import _expr_txt, _FN

TEXT = {
    "C07.capacity-guard": "PlanT::append / PayloadPlanT::append: every effect (planExists.set, tasks.emplace, linkTask) lies under tasks.count() < TASK_CAPACITY; "
                          "the full path returns false with no call at all",
    "C07.writers": "taskLinks / taskBounds are written only by PlanT::{linkTask, remove, clearTasks} and PlanDataT::clear; tasks (emplace / remove / clear) only by "
                   "PlanT / PayloadPlanT::append, PlanT::remove and PlanDataT::clear",
    "C07.attribution": "tasks stay attributed to the region whose callback planned them: every C_/O_ member that opens a region scope opens it before the head or "
                       "the sub-states receive the control, and the scope objects save / restore the control's own values (shared instances of C06.scope)",
    "C07.link": "PlanT::linkTask: index == INVALID -> false, no write; empty plan -> first := last := index; else taskLinks[last].next := index, "
                "taskLinks[index].prev := last (the *old* tail), then last := index",
    "C07.remove": "PlanT::remove: (prev valid ? taskLinks[prev].next : bounds.first) := link.next; (next valid ? taskLinks[next].prev : bounds.last) := link.prev; "
                  "link.prev := link.next := INVALID; tasks.remove(index) exactly once, last",
    "C07.clear": "PlanT::clearTasks: the successor is read into a local *before* remove(index) and index := that local afterwards; both bounds := INVALID after the loop",
    "C07.iterators": "CPlanT::Iterator, PlanT::CIterator and PlanT::Iterator agree on operator bool, operator++ and next() (pattern-level normal form)",
    "C07.reset": "clear() of TaskListT / DynamicArrayT / TaskStatus assigns every scalar field the value of its default member initialiser",
}
MIN_INSTANCES = {"C07.attribution": 10, "C07.capacity-guard": 1, "C07.writers": 4, "C07.link": 1, "C07.remove": 1, "C07.clear": 1, "C07.iterators": 3, "C07.reset": 1}


def declare(ctx):
    for r, t in TEXT.items():
        ctx.rule(r, t)


def check(ctx, F):
    _FN["F"] = F
    check_iterators(ctx, F)
    check_reset(ctx, F)
    check_fresh_slots(ctx, F)
    check_reset_plan_data(ctx, F)
    check_clear_statuses(ctx, F)
    if not any(b["name"] == "linkTask" and b["inst"] for b in F.bodies.values()):
        ctx.note("unit %s compiled without PLANS" % F.label)
        return
    check_capacity(ctx, F)
    from . import C06, C03
    C06.check_scope(C03._Alias(ctx, {"C06.scope": "C07.attribution"}), F)
    check_writers(ctx, F)
    check_link(ctx, F)
    check_remove(ctx, F)
    check_clear(ctx, F)


def check_capacity(ctx, F):
    for cls in ("PlanT", "PayloadPlanT"):
        for fid, b in insts(F, cls, {"append"}):
            site = "%s::append" % cls
            cap = None
            bad = None
            for p in paths_of(ctx, F, fid):
                guard = None
                calls = []
                ret = None
                for ev in p:
                    if ev[0] == "assume" and "tasks" in ev[2] and "<" in ev[2]:
                        m = re.match(r"^\(this\._planData\.tasks\._count<#(\d+)\)$", ev[2])
                        if not m:
                            bad = "capacity test is `%s`, expected tasks.count() < TASK_CAPACITY" % ev[2]
                        else:
                            cap = int(m.group(1))
                        guard = ev[3]
                    elif ev[0] == "call" and ev[2] is not None:
                        n = F.fn(ev[2])["name"]
                        if n in ("count",):
                            continue
                        calls.append((n, guard))
                    elif ev[0] == "write":
                        calls.append(("write " + ev[2], guard))
                    elif ev[0] == "ret":
                        ret = ev[2]
                if guard is None:
                    bad = bad or "no capacity test on a path"
                elif guard is False:
                    if calls:
                        bad = "at capacity append still performs %s" % [c for c, _ in calls]
                    if ret not in ("#False", "#0"):
                        bad = bad or "at capacity append returns %s" % ret
                else:
                    if any(g is None for _, g in calls):
                        bad = "effects %s happen before the capacity test" % [c for c, g in calls if g is None]
                    names = [c for c, _ in calls]
                    if not ("set" in names and "emplace" in names and "linkTask" in names):
                        bad = bad or "below capacity append performs %s, expected planExists.set, tasks.emplace, linkTask" % names
            tc = None
            t = F.type(b.get("tid"))
            for tid in [b.get("tid")] + F.all_bases(b.get("tid")):
                tc = tc or F.const(tid, "TASK_CAPACITY")
            ctx.instance("C07.capacity-guard", site, {"function": site, "loc": F.floc(fid), "capacity_tested": cap, "TASK_CAPACITY": tc})
            if tc is not None and cap is not None and tc != cap:
                bad = bad or "capacity test uses %d, TASK_CAPACITY is %d" % (cap, tc)
            if bad:
                ctx.violation("C07.capacity-guard", site, "%s (%s)" % (site, F.floc(fid)), bad, {})


ALLOWED = {
    "taskLinks": {("PlanT", "linkTask"), ("PlanT", "remove"), ("PlanT", "clearTasks"), ("PlanDataT", "clear")},
    "tasksBounds": {("PlanT", "linkTask"), ("PlanT", "remove"), ("PlanT", "clearTasks"), ("PlanDataT", "clear")},
    "tasks": {("PlanT", "append"), ("PayloadPlanT", "append"), ("PlanT", "remove"), ("PlanDataT", "clear")},
    # the "this region owns a plan" bit: set when a task is appended; dropped only with the whole plan data (deactivation / load).  A plan that
    # runs out of tasks - by execution, remove() or clear() - still owns its results: with the bit gone they are no longer routed to the head
    "planExists": {("PlanT", "append"), ("PayloadPlanT", "append"), ("PlanDataT", "clear")},
}


def check_writers(ctx, F):
    # direct scan: writes through the `_planData.<field>` path or through the `_bounds` reference member
    for fid, b in F.bodies.items():
        if not b["inst"] or b.get("cls") not in ("PlanT", "PayloadPlanT", "CPlanT", "PlanDataT", "FullControlT", "FullControlBaseT", "PlanControlT", "R_", "S_", "C_", "O_"):
            continue
        if not ({"taskLinks", "taskBounds", "tasks", "_bounds", "planExists"} & set(b.get("mems", ()))):
            continue
        written = set()
        for p in paths_of(ctx, F, fid):
            for ev in p:
                if ev[0] == "write":
                    if re.search(r"\.taskLinks\b", ev[2]):
                        written.add("taskLinks")
                    if re.search(r"\.taskBounds\b|\._bounds\.", ev[2]):
                        written.add("tasksBounds")
                elif ev[0] == "call" and ev[2] is not None:
                    cf = F.fn(ev[2])
                    obj = ev[3] or ""
                    if not cf.get("const") and cf["name"] in ("emplace", "remove", "clear") and re.search(r"\.tasks$", obj):
                        written.add("tasks")
                    if not cf.get("const") and cf["name"] in ("clear", "fill") and re.search(r"\.(taskLinks|taskBounds)$", obj):
                        written.add("taskLinks" if obj.endswith("taskLinks") else "tasksBounds")
                    if not cf.get("const") and cf["name"] in ("set", "clear", "fill") and re.search(r"\.planExists$", obj):
                        written.add("planExists")
        for f in written:
            site = "%s/%s::%s" % (f, b["cls"], b["name"])
            ctx.instance("C07.writers", site, {"field": f, "writer": site_str(F, fid), "loc": F.floc(fid)})
            if (b["cls"], b["name"]) not in ALLOWED[f]:
                ctx.violation("C07.writers", site, "%s (%s)" % (site_str(F, fid), F.floc(fid)), "%s writes planData.%s" % (site_str(F, fid), f), {})


def check_link(ctx, F):
    for fid, b in insts(F, "PlanT", {"linkTask"}):
        site = "PlanT::linkTask"
        bad = None
        seen = set()
        for p in paths_of(ctx, F, fid):
            conds = []
            ws = []
            ret = None
            for ev in p:
                if ev[0] == "assume":
                    conds.append((ev[2], ev[3]))
                elif ev[0] == "write":
                    ws.append((re.sub(r"^this\.", "", ev[2]), re.sub(r"^this\.", "", ev[3])))
                elif ev[0] == "ret":
                    ret = ev[2]
            valid = any(c.startswith("(P:index!=#") and t for c, t in conds) or any(c.startswith("(P:index==#") and not t for c, t in conds)
            if not valid:
                seen.add("invalid")
                if ws or ret not in ("#False", "#0"):
                    bad = "index == INVALID path writes %s / returns %s" % (ws, ret)
                continue
            empty = any("_bounds.first==#" in c and t for c, t in conds)
            if empty:
                seen.add("empty")
                if sorted(ws) != [("_bounds.first", "P:index"), ("_bounds.last", "P:index")]:
                    bad = "empty-plan path writes %s, expected first := last := index" % ws
            else:
                seen.add("tail")
                want = [("_planData.taskLinks._items[this._bounds.last].next", "P:index"),
                        ("_planData.taskLinks._items[P:index].prev", "_bounds.last"),
                        ("_bounds.last", "P:index")]
                norm = [(a.replace("this.", ""), v) for a, v in ws]
                want_n = [(a.replace("this.", ""), v) for a, v in want]
                if norm != want_n:
                    bad = "tail path writes %s, expected %s" % (norm, want_n)
            if ret not in ("#True", "#1") and valid:
                bad = bad or "returns %s after linking" % ret
        ctx.instance("C07.link", site, {"function": site, "loc": F.floc(fid), "paths": sorted(seen)})
        if seen != {"invalid", "empty", "tail"}:
            bad = bad or "path classes %s, expected invalid/empty/tail" % sorted(seen)
        if bad:
            ctx.violation("C07.link", site, "%s (%s)" % (site, F.floc(fid)), bad, {})


def check_remove(ctx, F):
    for fid, b in insts(F, "PlanT", {"remove"}):
        site = "PlanT::remove"
        bad = None
        L = "_planData.taskLinks._items[P:index]"
        for p in paths_of(ctx, F, fid):
            ws = []
            conds = []
            removes = 0
            last_is_remove = False
            for ev in p:
                last_is_remove = False
                if ev[0] == "assume":
                    conds.append((ev[2].replace("this.", ""), ev[3]))
                elif ev[0] == "write":
                    ws.append((ev[2].replace("this.", ""), ev[3].replace("this.", "")))
                elif ev[0] == "call" and ev[2] is not None and F.fn(ev[2])["name"] == "remove" and (ev[3] or "").endswith(".tasks"):
                    removes += 1
                    last_is_remove = ev[4] == ["P:index"]
            pv = [t for c, t in conds if c.startswith("(%s.prev<#" % L)]
            nv = [t for c, t in conds if c.startswith("(%s.next<#" % L)]
            if len(pv) != 1 or len(nv) != 1:
                bad = "neighbour validity tests not found (%s)" % conds
                continue
            w = dict()
            order = [a for a, _ in ws]
            exp = []
            exp.append(("_planData.taskLinks._items[%s.prev].next" % L, "%s.next" % L) if pv[0] else ("_bounds.first", "%s.next" % L))
            exp.append(("_planData.taskLinks._items[%s.next].prev" % L, "%s.prev" % L) if nv[0] else ("_bounds.last", "%s.prev" % L))
            resets = [(a, v) for a, v in ws if a in (L + ".prev", L + ".next")]
            relinks = [(a, v) for a, v in ws if a not in (L + ".prev", L + ".next")]
            if relinks != exp:
                bad = "re-linking writes %s, expected %s" % (relinks, exp)
            if sorted(a for a, _ in resets) != [L + ".next", L + ".prev"] or any(v not in ("#65535", "#4294967295", "#255") for _, v in resets):
                bad = bad or "the freed slot's links are reset by %s, expected prev := next := INVALID" % resets
            # resets must follow the re-linking (they are read there)
            if resets and relinks and order.index(resets[0][0]) < order.index(relinks[-1][0]):
                bad = bad or "a link of the freed slot is reset before it is read for re-linking"
            if removes != 1 or not last_is_remove:
                bad = bad or "tasks.remove(index) is called %d times / is not the last action" % removes
        ctx.instance("C07.remove", site, {"function": site, "loc": F.floc(fid)})
        if bad:
            ctx.violation("C07.remove", site, "%s (%s)" % (site, F.floc(fid)), bad, {})


def check_clear(ctx, F):
    for fid, b in insts(F, "PlanT", {"clearTasks"}):
        site = "PlanT::clearTasks"
        bad = None
        loops = [x for x in walk(b["body"]) if x.get("k") in ("for", "while")]
        if len(loops) != 1:
            raise AnalysisBroken("clearTasks: expected one loop")
        body = loops[0]["b"]
        stmts = body.get("s", []) if body.get("k") == "seq" else [body]
        pos_remove = None
        decls = {}
        assign = None
        for i, s in enumerate(stmts):
            for x in walk(s):
                if x.get("k") == "call" and "f" in x and F.fn(x["f"])["name"] == "remove" and F.fn(x["f"]).get("cls") == "PlanT":
                    pos_remove = i
                    if [_expr_txt(a) for a in x.get("a", [])] != ["index"]:
                        bad = "remove(%s), expected remove(index)" % [_expr_txt(a) for a in x.get("a", [])]
                if x.get("k") == "decl":
                    for v in x["vars"]:
                        decls[v["n"]] = (i, _expr_txt(v.get("init") or {}), v)
                if x.get("k") == "asg" and _expr_txt(x["lhs"]) == "index":
                    assign = (i, strip(x["rhs"]))
        if pos_remove is None:
            bad = "no remove(index) in the loop"
        elif assign is None:
            bad = "index is not advanced in the loop"
        else:
            i, rhs = assign
            if i < pos_remove:
                bad = "index is advanced before the slot is removed"
            elif rhs.get("k") == "var" and rhs.get("d") == "local" and rhs["n"] in decls:
                di, dt, v = decls[rhs["n"]]
                src = dt
                if v.get("ref"):
                    bad = "the successor is held by reference (`%s`), so it is read after remove() reset the slot" % rhs["n"]
                elif di > pos_remove:
                    bad = "the successor `%s` is read after remove(index)" % rhs["n"]
                else:
                    # resolve one level of reference locals
                    m = re.match(r"^(\w+)\.next$", src)
                    if m and m.group(1) in decls:
                        src = decls[m.group(1)][1] + ".next"
                    if not re.search(r"taskLinks\[index\]\.next$", src.replace("this.", "")):
                        bad = "the successor is `%s`, expected taskLinks[index].next" % src
            else:
                bad = "index := `%s` is read after remove(index) has reset the slot's links" % _expr_txt(rhs)
        # both bounds reset after the loop
        resets = set()
        for p in sym_paths(F, fid, 1):
            for ev in p:
                if ev[0] == "write" and re.search(r"_bounds\.(first|last)$", ev[2]) and ev[3] in ("#65535", "#4294967295"):
                    resets.add(ev[2].rsplit(".", 1)[1])
        if resets != {"first", "last"}:
            bad = bad or "bounds reset after clearing: %s, expected first and last := INVALID" % sorted(resets)
        ctx.instance("C07.clear", site, {"function": site, "loc": F.floc(fid)})
        if bad:
            ctx.violation("C07.clear", site, "%s (%s)" % (site, F.floc(fid)), bad, {})


def pattern_bodies(F, cls, outer=None):
    out = {}
    for fid, b in F.bodies.items():
        if b.get("cls") == cls:
            t = F.type(b.get("tid"))
            if outer is not None and (t or {}).get("outername") != outer:
                continue
            out.setdefault(b["name"], []).append((fid, b))
    return out


def norm_body(F, b, renames):
    toks = []
    for x in walk(b["body"]):
        k = x.get("k")
        if k in ("asg", "ret", "if", "cond"):
            if k == "asg":
                t = _expr_txt(x)
            elif k == "ret":
                t = "return " + _expr_txt(x.get("e") or {})
            elif k == "if":
                t = "if " + _expr_txt(x["c"])
            else:
                continue
            for a, c in renames:
                t = t.replace(a, c)
            t = t.replace("this.", "")
            toks.append(t)
    return toks


def check_iterators(ctx, F):
    fams = []
    for cls, outer in (("Iterator", "CPlanT"), ("CIterator", "PlanT"), ("Iterator", "PlanT")):
        pb = pattern_bodies(F, cls, outer)
        if pb:
            fams.append(("%s::%s" % (outer, cls), pb))
    if len(fams) < 2:
        return
    for name in ("operator bool", "operator++", "next"):
        forms = {}
        for label, pb in fams:
            if name in pb:
                # prefer the uninstantiated pattern (all three exist as patterns), else any instantiation
                cand = sorted(pb[name], key=lambda fb: fb[1]["inst"])
                fid, b = cand[0]
                forms[label] = (tuple(norm_body(F, b, (("CPlanT::", ""), ("PlanT::", ""), ("CPlanT", "PlanT")))), fid)
        if len(forms) < 2:
            continue
        site = "plan iterators::" + name
        ctx.instance("C07.iterators", site, {"compared": sorted(forms), "form": list(next(iter(forms.values()))[0])[:6]})
        vals = set(v[0] for v in forms.values())
        if len(vals) != 1:
            ctx.violation("C07.iterators", site, site + " (" + " | ".join(F.floc(v[1]) for v in forms.values()) + ")",
                          "the plan iterators disagree on %s: %s" % (name, {k: list(v[0]) for k, v in forms.items()}), {})


def check_reset(ctx, F):
    for cls in ("TaskListT", "DynamicArrayT", "TaskStatus"):
        for fid, b in F.bodies.items():
            if not b["inst"] or b.get("cls") != cls or b["name"] != "clear":
                continue
            t = F.type(b["tid"])
            if not t or not t.get("complete"):
                continue
            scal = {}
            for f in t.get("fields", []):
                if f.get("array") or f.get("tid") is not None:
                    continue
                if f.get("init") and f.get("initexpr") is not None:
                    scal[f["n"]] = _expr_txt(f["initexpr"])
                elif f.get("init"):
                    scal[f["n"]] = None
            if not scal:
                continue
            site = "%s::clear" % cls
            assigned = {}
            for x in walk(b["body"]):
                if x.get("k") == "asg" and x.get("op") == "=":
                    l = strip(x["lhs"])
                    if l.get("k") == "mem" and strip(l.get("b") or {}).get("k") == "this":
                        assigned[l["n"]] = _expr_txt(x["rhs"])
            ctx.instance("C07.reset", site, {"function": site, "loc": F.floc(fid), "fields": scal, "assigned": assigned})
            for n, init in scal.items():
                if n not in assigned:
                    ctx.violation("C07.reset", site + "/" + n, "%s (%s)" % (site, F.floc(fid)),
                                  "%s does not reset `%s` (initial value %s): after clear() the container does not behave as new" % (site, n, init), {})
                elif init is not None and _val(assigned[n]) != _val(init):
                    ctx.violation("C07.reset", site + "/" + n, "%s (%s)" % (site, F.floc(fid)),
                                  "%s resets `%s` to %s, its initial value is %s" % (site, n, assigned[n], init), {})


def check_fresh_slots(ctx, F):
    """clear() resets the scalar bookkeeping only and leaves the item array as it was (C07.reset), so after a clear every slot holds stale links:
    emplace() may *decide* (branch) only on the bookkeeping fields clear() resets, never on the content of a slot it has not written yet -
    the recycle / grow / last decision is `_vacantHead != _vacantTail`, `_last < CAPACITY - 1`, not `item.next != INVALID`"""
    for cls in ("TaskListT", "DynamicArrayT"):
        reset = None
        for fid, b in F.bodies.items():
            if b["inst"] and b.get("cls") == cls and b["name"] == "clear":
                reset = {strip(x["lhs"]).get("n") for x in walk(b["body"]) if x.get("k") == "asg" and strip(x["lhs"]).get("k") == "mem"}
        if not reset:
            continue
        done = set()
        for fid, b in F.bodies.items():
            if not b["inst"] or b.get("cls") != cls or b["name"] != "emplace" or b.get("pat") in done:
                continue
            done.add(b.get("pat"))
            site = "%s::emplace" % cls
            bad = None
            conds = [x["c"] for x in walk(b["body"]) if x.get("k") in ("if", "cond", "while", "for") and x.get("c") is not None]
            for c in conds:
                for m in walk(c):
                    if m.get("k") == "mem" and m.get("n") and m.get("n") not in reset and not m.get("n", "").isupper():
                        bad = bad or "`%s` (reads `%s`, which clear() does not reset)" % (_expr_txt(c), m.get("n"))
            ctx.instance("C07.reset", site + "/decisions", {"function": site, "loc": F.floc(fid), "conditions": [_expr_txt(c) for c in conds], "reset_by_clear": sorted(reset)})
            if bad:
                ctx.violation("C07.reset", site + "/decisions", "%s (%s)" % (site, F.floc(fid)),
                              "emplace() branches on %s: after clear() the slots still hold the links of the previous use, so a slot is handed out twice "
                              "or a stale chain is followed" % bad, {})


def check_clear_statuses(ctx, F, rule="C07.clear"):
    """PlanT::clearStatuses() clears the marks of exactly the region's states: i runs over [regionHeads[r], regionHeads[r] + regionSizes[r])
    (half-open); an inclusive end touches the bit of the next region's head - or, for the last region, the bit one past the array"""
    from ..ir import const_local_defs, subst_locals
    for fid, b in insts(F, "PlanT", {"clearStatuses"}):
        site = "PlanT::clearStatuses"
        defs = const_local_defs(b["body"])
        loops = [x for x in walk(b["body"]) if x.get("k") == "for"]
        got = None
        if len(loops) == 1:
            l = loops[0]
            iv, start = None, None
            for x in walk(l.get("init") or {}):
                if x.get("k") == "decl":
                    for v in x["vars"]:
                        iv, start = v["n"], _expr_txt(subst_locals(v.get("init") or {}, defs))
            c = strip(l.get("c") or {})
            if iv and c.get("k") == "bin" and strip(c["lhs"]).get("n") == iv:
                end = _expr_txt(subst_locals(c["rhs"], defs))
                op = c["op"]
                if op == "<=" and re.search(r"-1\)?$", end):
                    op, end = "<", re.sub(r"-1(\)?)$", r"\1", end)
                got = (re.sub(r"\bthis\.", "", start or ""), op, re.sub(r"\bthis\.", "", end))
        want_start = "_registry.regionHeads[_regionId]"
        want_ends = ("_registry.regionHeads[_regionId]+_registry.regionSizes[_regionId]", "(_registry.regionHeads[_regionId]+_registry.regionSizes[_regionId])",
                     "_registry.regionSizes[_regionId]+_registry.regionHeads[_regionId]", "(_registry.regionSizes[_regionId]+_registry.regionHeads[_regionId])")
        ctx.instance(rule, site, {"function": site, "loc": F.floc(fid), "range": got})
        if got is None or got[0] != want_start or got[1] not in ("<", "!=") or got[2] not in want_ends:
            ctx.violation(rule, site + "/range", "%s (%s)" % (site, F.floc(fid)),
                          "the marks are cleared for i from %s, expected the half-open range [regionHeads[r], regionHeads[r] + regionSizes[r])" % (got,), {})


def check_reset_plan_data(ctx, F):
    """PlanDataT::clear() (payload and void copies alike) resets every data member of the record, directly or through a member it calls"""
    from ..effects import Effects
    E = Effects(F)
    for fid, b in insts(F, "PlanDataT", {"clear"}):
        t = F.type(b["tid"])
        if not t or not t.get("complete"):
            continue
        fields = [f["n"] for f in t.get("fields", []) if f.get("n")]
        if not fields:
            continue        # the plans-disabled stub
        fl = "void" if "taskPayloads" not in fields else "payload"
        site = "PlanDataT<%s>::clear" % fl
        w = E.star(fid)
        ctx.instance("C07.reset", site, {"function": site, "loc": F.floc(fid), "fields": fields, "written": sorted(x for x in w if x in fields)})
        for n in fields:
            if n not in w:
                ctx.violation("C07.reset", site + "/" + n, "%s (%s)" % (site, F.floc(fid)),
                              "%s does not reset `%s`: after a whole-storage wipe (finalExit, load) stale %s survive into the next plan" % (site, n, n), {})


def _val(t):
    t = t.replace("Result::", "").replace("::", ".")
    return {"False": "0", "false": "0", "True": "1", "true": "1"}.get(t, t)
