"""C12 — utility and weighted-random selection pick the right sub-state.

Decided: tie-breaking operators; rank masking; utility composition formulas (as expression shape); the cumulative walk skips
zero-utility entries with `>=` and cannot return "none"; one random number per resolution; the arrays walked are the arrays that
were summed; orthogonal reports delegate to the same-named member; anonymous-head defaults for rank / utility.
Not decided: that for every float vector and every r the walk returns the interval containing r*sum (rounding of `random * sum`
and of the running subtraction is a numeric question).
"""
import re

from ..engine import site_str
from ..ir import AnalysisBroken, walk, strip, sym_paths
from ..origin import Origins
from .common import insts, paths_of
from . import C01, C02, routing

TEXT = {
    "C12.leftmost": "CS_<split>::wideReportUtilize / wideReportChangeUtilitarian / wideReportRank keep the left half on ties (`l >= r ? l : r`)",
    "C12.compose": "C_::deepReport{Utilize,Change*}: returned utility = head.utility * sub.utility and returned prong = head.prong (the region's own index in "
                   "its parent); deepReportRandomize / ...Random: head utility * utilities[requested]; O_::deepReport*: head.utility * (sum of sub-states / WIDTH); "
                   "OS_<nonlast>::wideReport* = Initial + Remaining; CS_<split>::wideReport{Randomize,ChangeRandom} = l + r over adjacent sub-arrays",
    "C12.delegate": "OS_<nonlast>::wideReportX and CS_<split>::wideReportX recurse into the same member of the remaining sub-states / halves; "
                    "OS_<nonlast/last>::wideReportX delegates to Initial::deepReportX, CS_<single>::wideReportX to Single::deepReport{X or Change} "
                    "(the report kind is not switched on the way down)",
    "C12.rank-mask": "CS_<single>::wideReportRank stores and returns Single::deepReportRank; CS_<single>::wideReport{Randomize,ChangeRandom} store "
                     "(*ranks == top) ? sub-state utility : 0; resolveRandom visits only entries with ranks[i] == top",
    "C12.walk": "C_::resolveRandom: cursor = rng.next() * sum; entry i is skipped iff `cursor >= utilities[i]` (then cursor -= utilities[i]) else i is returned; "
                "exactly one rng.next() per call; rng.next is called from resolveRandom only; every random resolver calls resolveRandom exactly once with the "
                "utilities/sum of one wideReport* call and the ranks/top of one wideReportRank call",
    "C12.never-none": "no reachable path of resolveRandom returns INVALID_PRONG (same instance as C01.no-invalid)",
    "C12.defaults": "S_<empty>::{wrapRank, wrapUtility, deepReportChange, deepReportUtilize, deepReportRank, deepReportRandomize} return what S_<headed> returns "
                    "once rank()/utility() fold to the A_ defaults (0 / 1)",
}
MIN_INSTANCES = {"C12.leftmost": 3, "C12.compose": 12, "C12.delegate": 9, "C12.rank-mask": 3, "C12.walk": 5, "C12.never-none": 1, "C12.defaults": 4}
MIN_INSTANCES_TIER = {}
_FN = {}


def declare(ctx):
    for r, t in TEXT.items():
        ctx.rule(r, t)


def has_utility(F):
    return any(b["name"] == "resolveRandom" for b in F.bodies.values())


def check(ctx, F):
    _FN["F"] = F
    if not has_utility(F):
        ctx.note("unit %s compiled without UTILITY_THEORY: nothing to evaluate" % F.label)
        return
    C02.check_leftmost(ctx, F, "C12.leftmost")
    check_compose(ctx, F)
    check_delegate(ctx, F)
    check_rank_mask(ctx, F)
    check_walk(ctx, F)
    check_never_none(ctx, F)
    C01.check_defaults(ctx, F, "C12.defaults", ("wrapRank", "wrapUtility", "deepReportChange", "deepReportUtilize", "deepReportRank", "deepReportRandomize"))
    # reset() resolves utilitarian / random regions as the first activation does: through deepRequestChange (the declared strategy), not deepRequest
    from . import C03
    C02.check_reset(C03._Alias(ctx, {"C02.reset": "C12.delegate"}), F)


def local_calls(F, b):
    """local name -> (callee cls, callee name, call node) for locals initialised from a call"""
    out = {}
    for x in walk(b["body"]):
        if x.get("k") == "decl":
            for v in x["vars"]:
                init = strip(v.get("init") or {})
                while init.get("k") == "ctor" and len(init.get("a", [])) == 1:
                    init = strip(init["a"][0])
                if init.get("k") == "call" and "f" in init:
                    cf = F.fn(init["f"])
                    out[v["n"]] = (cf.get("cls"), cf["name"], init)
    return out


def norm_ret(F, b, s):
    """replace object locals by their source role in a return sym"""
    lc = local_calls(F, b)

    def role(m):
        n = m.group(1)
        if n in lc:
            cls, name, _ = lc[n]
            if cls == "S_":
                return "HEAD"
            if cls in ("CS_", "OS_"):
                return "SUBS" if not name.startswith("wideReportRank") else "RANKS"
            if cls in ("C_", "O_"):
                return "SELF"
        return "L:" + n
    s = re.sub(r"L:(\w+)", role, s)
    s = re.sub(r"this\.OS_<\w+>::wideReport\w+\(P:control\)", "SUBS", s)
    s = re.sub(r"this\.S_<\w+>::wrapUtility\(P:control\)", "HEADU", s)
    if s.startswith("{") and s.endswith("}"):
        s = s[1:-1]
    return s


def check_compose(ctx, F):
    UPRET = {"deepReportChangeComposite", "deepReportChangeResumable", "deepReportChangeSelectable", "deepReportChangeUtilitarian", "deepReportUtilize"}
    for fid, b in insts(F, "C_", UPRET | {"deepReportChangeRandom", "deepReportRandomize"}):
        site = "C_::" + b["name"]
        ci = F.const(b["tid"], "COMPO_INDEX")
        bad = None
        for p in paths_of(ctx, F, fid):
            for ev in p:
                if ev[0] == "ret" and ev[2]:
                    s = norm_ret(F, b, ev[2])
                    if b["name"] in UPRET:
                        ok = s in ("UP{(HEAD.utility*SUBS.utility),HEAD.prong}", "UP{(SUBS.utility*HEAD.utility),HEAD.prong}")
                    elif b["name"] == "deepReportChangeRandom":
                        ok = bool(re.match(r"^UP\{\(HEAD\.utility\*L:utilities\[.*compoRequested(\._items)?\[#%d\]\]\),HEAD\.prong\}$" % ci, s))
                    else:
                        ok = bool(re.match(r"^\(HEADU\*L:utilities\[.*compoRequested(\._items)?\[#%d\]\]\)$" % ci, s))
                    if not ok:
                        bad = s
        ctx.instance("C12.compose", site, {"function": site, "loc": F.floc(fid)})
        if bad:
            ctx.violation("C12.compose", site, "%s (%s)" % (site, F.floc(fid)),
                          "%s returns `%s`: a nested region's utility must be head.utility * sub.utility and its prong the region's own index (head.prong)" % (site, bad), {})
    for fid, b in insts(F, "O_", {"deepReportChange", "deepReportUtilize", "deepReportRandomize"}):
        site = "O_::" + b["name"]
        width = F.const(b["tid"], "WIDTH")
        bad = None
        for p in paths_of(ctx, F, fid):
            for ev in p:
                if ev[0] == "ret" and ev[2]:
                    s = norm_ret(F, b, ev[2])
                    s = re.sub(r"#%s\b" % width, "#W", s)
                    ok = s in ("UP{(HEAD.utility*(SUBS/#W)),HEAD.prong}", "(HEADU*(SUBS/#W))")
                    # `sub` and `s` are value locals: check their definitions
                    if not ok:
                        bad = s
        # sub = s / WIDTH ; s = SubStates::wideReportX
        defs = {}
        for x in walk(b["body"]):
            if x.get("k") == "decl":
                for v in x["vars"]:
                    defs[v["n"]] = v.get("init")
        sub = strip(defs.get("sub") or {})
        okdiv = sub.get("k") == "bin" and sub.get("op") == "/" and strip(sub["lhs"]).get("n") == "s" and strip(sub["rhs"]).get("cv") == width
        sinit = strip(defs.get("s") or {})
        oks = sinit.get("k") == "call" and "f" in sinit and F.fn(sinit["f"]).get("cls") == "OS_" and F.fn(sinit["f"])["name"] == "wide" + b["name"][4:]
        ctx.instance("C12.compose", site, {"function": site, "loc": F.floc(fid), "WIDTH": width})
        if bad or not okdiv or not oks:
            ctx.violation("C12.compose", site, "%s (%s)" % (site, F.floc(fid)),
                          "%s does not return head.utility * (sum of sub-state utilities / WIDTH)%s" % (site, (": `%s`" % bad) if bad else ""), {})
    for fid, b in insts(F, "OS_", {"wideReportChange", "wideReportUtilize", "wideReportRandomize"}, spec="nonlast"):
        site = "OS_<nonlast>::" + b["name"]
        lc = local_calls(F, b)
        bad = None
        for p in paths_of(ctx, F, fid):
            for ev in p:
                if ev[0] == "ret" and ev[2]:
                    s = ev[2]
                    for n, (cls, name, _) in lc.items():
                        s = re.sub(r"L:%s\b" % n, "REM" if cls == "OS_" else "INI", s)
                    s = re.sub(r"this\.OS_<\w+>::wideReport\w+\(P:control\)", "REM", s)
                    s = re.sub(r"this\.(S_|C_|O_)(<\w+>)?::deepReport\w+\(P:control\)", "INI", s)
                    if s not in ("(INI.utility+REM)", "(REM+INI.utility)", "(INI+REM)", "(REM+INI)"):
                        bad = s
        ctx.instance("C12.compose", site, {"function": site, "loc": F.floc(fid)})
        if bad:
            ctx.violation("C12.compose", site, "%s (%s)" % (site, F.floc(fid)), "%s returns `%s`, expected Initial + Remaining" % (site, bad), {})
    for fid, b in insts(F, "CS_", {"wideReportRandomize", "wideReportChangeRandom"}, spec="split"):
        site = "CS_<split>::" + b["name"]
        lsize = None
        bases = F.bases(b["tid"])
        bad = None
        calls = []
        for p in paths_of(ctx, F, fid):
            for ev in p:
                if ev[0] == "call" and ev[2] is not None and F.fn(ev[2])["name"] == b["name"]:
                    calls.append((F.fn(ev[2]).get("tid"), ev[4]))
                if ev[0] == "ret" and ev[2]:
                    if not re.match(r"^\{?\(?this\.CS_<\w+>::%s\(.*\)\+this\.CS_<\w+>::%s\(.*\)\)?\}?$" % (b["name"], b["name"]), ev[2]) and ev[2] not in ("(L:l+L:r)", "{(L:l+L:r)}"):
                        bad = "returns `%s`, expected l + r" % ev[2][:160]
        if len(calls) >= 2:
            (lt, la), (rt, ra) = calls[0], calls[1]
            r_prong = F.const(b["tid"], "R_PRONG")
            l_prong = F.const(b["tid"], "L_PRONG")
            off = (r_prong - l_prong) if r_prong is not None and l_prong is not None else None
            if la[1:] != ["P:utilities", "P:ranks", "P:top"]:
                bad = "left half receives %s" % la[1:]
            if off is not None and ra[1:] != ["(P:utilities+#%d)" % off, "(P:ranks+#%d)" % off, "P:top"]:
                bad = "right half receives %s, expected arrays advanced by the left half's width %d" % (ra[1:], off)
        ctx.instance("C12.compose", site, {"function": site, "loc": F.floc(fid)})
        if bad:
            ctx.violation("C12.compose", site, "%s (%s)" % (site, F.floc(fid)), "%s %s" % (site, bad), {})


def check_delegate(ctx, F):
    for spec in ("nonlast", "last"):
        for fid, b in insts(F, "OS_", {"wideReportChange", "wideReportUtilize", "wideReportRandomize"}, spec=spec):
            site = "OS_<%s>::%s" % (spec, b["name"])
            want = "deep" + b["name"][4:]
            got = set(F.fn(c)["name"] for c in b.get("calls", ()) if F.fn(c).get("cls") in ("S_", "C_", "O_") and F.fn(c)["name"].startswith("deepReport"))
            ctx.instance("C12.delegate", site, {"function": site, "loc": F.floc(fid), "delegate": sorted(got)})
            if got != {want}:
                ctx.violation("C12.delegate", site, "%s (%s)" % (site, F.floc(fid)), "%s delegates to Initial::%s, expected %s" % (site, sorted(got), want), {})
    # the recursion over the remaining siblings / the two halves stays in the same member
    for cls, spec in (("OS_", "nonlast"), ("CS_", "split")):
        for fid, b in insts(F, cls, None, spec=spec):
            if not b["name"].startswith("wideReport"):
                continue
            site = "%s<%s>::%s/recursion" % (cls, spec, b["name"])
            got = sorted(set(F.fn(c)["name"] for c in b.get("calls", ()) if F.fn(c).get("cls") == cls and F.fn(c)["name"].startswith("wideReport")))
            ctx.instance("C12.delegate", site, {"function": site, "loc": F.floc(fid), "recursion": got})
            if got != [b["name"]]:
                ctx.violation("C12.delegate", site, "%s (%s)" % (site, F.floc(fid)),
                              "%s<%s>::%s recurses into %s, expected %s of the remaining sub-states" % (cls, spec, b["name"], got, b["name"]), {})
    MAP = {"wideReportUtilize": "deepReportUtilize", "wideReportRank": "deepReportRank", "wideReportRandomize": "deepReportRandomize",
           "wideReportChangeComposite": "deepReportChange", "wideReportChangeResumable": "deepReportChange", "wideReportChangeSelectable": "deepReportChange",
           "wideReportChangeUtilitarian": "deepReportChange", "wideReportChangeRandom": "deepReportChange"}
    for fid, b in insts(F, "CS_", set(MAP), spec="single"):
        site = "CS_<single>::" + b["name"]
        got = set(F.fn(c)["name"] for c in b.get("calls", ()) if F.fn(c).get("cls") in ("S_", "C_", "O_") and F.fn(c)["name"].startswith("deepReport"))
        ctx.instance("C12.delegate", site, {"function": site, "loc": F.floc(fid), "delegate": sorted(got)})
        if got != {MAP[b["name"]]}:
            ctx.violation("C12.delegate", site, "%s (%s)" % (site, F.floc(fid)), "%s delegates to Single::%s, expected %s" % (site, sorted(got), MAP[b["name"]]), {})


def check_rank_mask(ctx, F):
    for fid, b in insts(F, "CS_", {"wideReportRandomize", "wideReportChangeRandom"}, spec="single"):
        site = "CS_<single>::" + b["name"]
        bad = None
        nw = 0
        for p in paths_of(ctx, F, fid):
            for ev in p:
                if ev[0] == "write" and ev[2] == "(*P:utilities)":
                    nw += 1
                    m = re.match(r"^\(\(\(\*P:ranks\)==P:top\)\?(.*):\{?#0(\.0)?\}?\)$", ev[3])
                    if not m:
                        bad = "*utilities := `%s`, expected (*ranks == top) ? sub-state utility : 0" % ev[3][:160]
                    elif "deepReport" not in m.group(1):
                        bad = "top-rank utility is `%s`, not the sub-state's report" % m.group(1)[:120]
        ctx.instance("C12.rank-mask", site, {"function": site, "loc": F.floc(fid)})
        if bad or not nw:
            ctx.violation("C12.rank-mask", site, "%s (%s)" % (site, F.floc(fid)), bad or "no write to *utilities", {})
    for fid, b in insts(F, "CS_", {"wideReportRank"}, spec="single"):
        site = "CS_<single>::wideReportRank"
        bad = None
        for p in paths_of(ctx, F, fid):
            wrote = False
            for ev in p:
                if ev[0] == "write" and ev[2] == "(*P:ranks)":
                    wrote = "deepReportRank" in ev[3]
                if ev[0] == "ret" and not (ev[2] in ("(*P:ranks)",) or "deepReportRank" in (ev[2] or "")):
                    bad = "returns `%s`" % ev[2]
            if not wrote:
                bad = bad or "does not store the sub-state's rank into *ranks"
        ctx.instance("C12.rank-mask", site, {"function": site, "loc": F.floc(fid)})
        if bad:
            ctx.violation("C12.rank-mask", site, "%s (%s)" % (site, F.floc(fid)), bad, {})


RANDOM_RESOLVERS = {"deepRequestChangeRandom": "wideReportChangeRandom", "deepRequestRandomize": "wideReportRandomize",
                    "deepReportChangeRandom": "wideReportChangeRandom", "deepReportRandomize": "wideReportRandomize"}


def check_walk(ctx, F):
    for fid, b in insts(F, "C_", {"resolveRandom"}):
        site = "C_::resolveRandom"
        bad = None
        nexts = set()
        for p in sym_paths(F, fid, 2):
            n = 0
            for i, ev in enumerate(p):
                if ev[0] == "call" and ev[2] is not None and F.fn(ev[2])["name"] == "next" and (ev[3] or "").endswith(".rng"):
                    n += 1
                elif ev[0] == "assume" and "L:cursor" not in ev[2] and re.search(r"utilities\[", ev[2]) and re.search(r"(>=|>|<=|<)", ev[2]):
                    pass
            nexts.add(n)
        # structural shape of the loop body (one instance per pattern: conditions are the same for every instantiation)
        loops = [x for x in walk(b["body"]) if x.get("k") == "for"]
        if len(loops) != 1:
            raise AnalysisBroken("resolveRandom: expected exactly one loop")
        loop = loops[0]
        ifs = [x for x in walk(loop["b"]) if x.get("k") == "if"]
        rank_if = None
        walk_if = None
        for x in ifs:
            c = strip(x["c"])
            if c.get("k") == "bin":
                txt = _expr_txt(c)
                if "ranks" in txt and "top" in txt:
                    rank_if = (x, txt)
                elif "cursor" in txt and "utilities" in txt:
                    walk_if = (x, txt)
        if rank_if is None or rank_if[1] not in ("ranks[i]==top", "top==ranks[i]"):
            bad = "rank filter is `%s`, expected ranks[i] == top" % (rank_if[1] if rank_if else None)
        if walk_if is None:
            bad = bad or "cumulative walk test not found"
        else:
            x, txt = walk_if
            then_txt = " ".join(_expr_txt(y) for y in walk(x["t"]) if y.get("k") == "asg")
            else_ret = [_expr_txt(strip(y["e"])) for y in walk(x.get("e") or {}) if y.get("k") == "ret" and y.get("e")]
            if txt == "cursor>=utilities[i]" and then_txt == "cursor-=utilities[i]" and else_ret == ["i"]:
                pass
            elif txt == "cursor<utilities[i]" and [_expr_txt(strip(y["e"])) for y in walk(x["t"]) if y.get("k") == "ret" and y.get("e")] == ["i"]:
                pass
            else:
                bad = bad or "walk step is `if (%s) {%s} else return %s`, expected `if (cursor >= utilities[i]) cursor -= utilities[i]; else return i`" % (
                    txt, then_txt, else_ret)
        # whatever is returned has passed the rank filter: `return i` and every update of a fallback local that is returned after the loop lie
        # inside the filtered branch (otherwise a lower-ranked sub-state can be chosen when the cursor overshoots)
        if rank_if is not None:
            inside = set(id(y) for y in walk(rank_if[0]["t"]))
            post = [strip(y["e"]) for y in walk(b["body"]) if y.get("k") == "ret" and y.get("e") and id(y) not in set(id(z) for z in walk(loop))]
            fallback = {e.get("n") for e in post if e.get("k") == "var" and e.get("d") == "local"}
            for y in walk(loop["b"]):
                if y.get("k") == "ret" and id(y) not in inside:
                    bad = bad or "a `return` inside the loop is not under the rank filter"
                if y.get("k") == "asg" and strip(y["lhs"]).get("k") == "var" and strip(y["lhs"]).get("n") in fallback and id(y) not in inside:
                    bad = bad or "the fallback `%s` (returned when the cursor overshoots) is updated outside the rank filter: it can name a sub-state of lower rank" % strip(y["lhs"]).get("n")
            # ... and only a candidate with a non-empty interval (utility > 0) may become the fallback: "never one with zero utility"
            def guards_of(node, target, acc):
                if id(node) == id(target):
                    return acc
                if isinstance(node, dict):
                    for k, v in node.items():
                        if isinstance(v, (dict, list)):
                            extra = []
                            if node.get("k") == "if" and k == "t":
                                extra = [(node["c"], True)]
                            elif node.get("k") == "if" and k == "e":
                                extra = [(node["c"], False)]
                            r = guards_of(v, target, acc + extra)
                            if r is not None:
                                return r
                elif isinstance(node, list):
                    for v in node:
                        r = guards_of(v, target, acc)
                        if r is not None:
                            return r
                return None
            for y in walk(loop["b"]):
                if y.get("k") == "asg" and strip(y["lhs"]).get("k") == "var" and strip(y["lhs"]).get("n") in fallback:
                    gs = guards_of(loop["b"], y, []) or []
                    pos = False
                    for c, pol in gs:
                        t = re.sub(r"\.0*f?\b|f\b", "", _expr_txt(strip(c)).replace(" ", ""))
                        if (pol and t in ("utilities[i]>0", "0<utilities[i]", "utilities[i]!=0")) or (not pol and t in ("utilities[i]<=0", "0>=utilities[i]", "utilities[i]==0")):
                            pos = True
                    if not pos:
                        bad = bad or "the fallback `%s` can be a candidate of utility 0 (its update is not guarded by utilities[i] > 0): when the cursor overshoots, a " \
                                     "sub-state with an empty interval is activated" % strip(y["lhs"]).get("n")
        # cursor = random * sum with random = rng.next()
        defs = {}
        for y in walk(b["body"]):
            if y.get("k") == "decl":
                for v in y["vars"]:
                    defs[v["n"]] = _expr_txt(strip(v.get("init") or {}))
        if defs.get("cursor") not in ("random*sum", "sum*random"):
            bad = bad or "cursor is initialised with `%s`, expected random * sum" % defs.get("cursor")
        if not re.match(r"^control\._core\.rng\.next\(\)$", defs.get("random") or ""):
            bad = bad or "random is `%s`, expected control._core.rng.next()" % defs.get("random")
        if nexts != {1}:
            bad = bad or "rng.next() is called %s times on some path" % sorted(nexts)
        ctx.instance("C12.walk", site, {"function": site, "loc": F.floc(fid)})
        if bad:
            ctx.violation("C12.walk", site, "%s (%s)" % (site, F.floc(fid)), bad, {})
    # who may call rng.next
    for fid, b in F.bodies.items():
        if not b["inst"]:
            continue
        for x in walk(b["body"]) if "rng" in b.get("mems", ()) else ():
            if x.get("k") == "call" and "f" in x and F.fn(x["f"])["name"] == "next" and x.get("obj") is not None and strip(x["obj"]).get("n") == "rng":
                site = "rng.next<-%s" % site_str(F, fid)
                ctx.instance("C12.walk", site, {"caller": site_str(F, fid)})
                if (b.get("cls"), b["name"]) != ("C_", "resolveRandom"):
                    ctx.violation("C12.walk", site, "%s (%s)" % (site_str(F, fid), F.floc(fid)), "rng.next() is called outside C_::resolveRandom", {})
    # resolvers: one resolveRandom with consistent arrays
    for fid, b in insts(F, "C_", set(RANDOM_RESOLVERS)):
        site = "C_::" + b["name"]
        bad = None
        for p in paths_of(ctx, F, fid):
            rr = [ev for ev in p if ev[0] == "call" and ev[2] is not None and F.fn(ev[2])["name"] == "resolveRandom"]
            rep = [ev for ev in p if ev[0] == "call" and ev[2] is not None and F.fn(ev[2])["name"] == RANDOM_RESOLVERS[b["name"]]]
            rk = [ev for ev in p if ev[0] == "call" and ev[2] is not None and F.fn(ev[2])["name"] == "wideReportRank"]
            if len(rr) != 1 or len(rep) != 1 or len(rk) != 1:
                bad = "calls resolveRandom %d, %s %d, wideReportRank %d times" % (len(rr), RANDOM_RESOLVERS[b["name"]], len(rep), len(rk))
                continue
            a = rr[0][4]
            # resolveRandom(control, utilities, sum, ranks, top)
            if len(a) != 5:
                bad = "resolveRandom receives %d arguments" % len(a)
                continue
            if rep[0][4][1:] != [a[1], a[3], a[4]] and rep[0][4][1:] != [a[1], a[3], "L:top"]:
                bad = "resolveRandom walks (%s, %s, %s) but %s filled (%s)" % (a[1], a[3], a[4], RANDOM_RESOLVERS[b["name"]], rep[0][4][1:])
            if rk[0][4][1:] != [a[3]]:
                bad = bad or "ranks array %s differs from the one wideReportRank filled %s" % (a[3], rk[0][4][1:])
            if not (RANDOM_RESOLVERS[b["name"]] in a[2] or a[2] in ("L:sum", "L:sum.utility")):
                bad = bad or "sum argument `%s` is not the value %s returned" % (a[2][:80], RANDOM_RESOLVERS[b["name"]])
            if "wideReportRank" not in a[4] and a[4] != "L:top":
                bad = bad or "top argument `%s` is not the value wideReportRank returned" % a[4][:80]
        ctx.instance("C12.walk", site, {"function": site, "loc": F.floc(fid)})
        if bad:
            ctx.violation("C12.walk", site, "%s (%s)" % (site, F.floc(fid)), "%s %s" % (site, bad), {})


def _expr_txt(e):
    """compact source-like text of a small expression (names only, casts dropped)"""
    e = strip(e)
    if not isinstance(e, dict):
        return "?"
    k = e.get("k")
    if k == "var":
        return e["n"]
    if k == "lit":
        return str(e.get("v"))
    if k == "mem":
        if not e.get("n"):          # anonymous struct / union member
            return _expr_txt(e.get("b"))
        bt = _expr_txt(e.get("b")) if e.get("b") is not None else ""
        if bt.endswith("->"):
            return bt + e["n"]
        return bt + "." + e["n"] if bt else e["n"]
    if k == "idx":
        return _expr_txt(e["b"]) + "[" + _expr_txt(e["i"]) + "]"
    if k in ("bin", "asg"):
        return _expr_txt(e["lhs"]) + e["op"] + _expr_txt(e["rhs"])
    if k == "un":
        return e["op"] + _expr_txt(e["e"])
    if k == "call":
        op = e.get("op")
        args = [_expr_txt(a) for a in e.get("a", [])]
        if op:
            if e.get("obj") is not None:
                o = _expr_txt(e["obj"])
                if op == "->":
                    return o + "->"
                if op == "*" and not args:
                    return "*" + o
                if op in ("++", "--"):
                    return op + o
                if op == "[]":
                    return o + "[" + ",".join(args) + "]"
                if op == "()":
                    return o + "(" + ",".join(args) + ")"
                return o + op + ",".join(args)
            if len(args) == 2:
                return args[0] + op + args[1]
            return op + ",".join(args)
        callee = ""
        if e.get("obj") is not None:
            o = _expr_txt(e["obj"])
            callee = "" if o == "this" else (o if o.endswith("->") else o + ".")
        name = _fname(e)
        if name == "operator bool":
            return callee.rstrip(".")
        return callee + name + "(" + ",".join(args) + ")"
    if k in ("ctor", "ilist"):
        a = e.get("a", [])
        return _expr_txt(a[0]) if len(a) == 1 else "T{" + ",".join(_expr_txt(x) for x in a) + "}"
    if k == "cond":
        return _expr_txt(e["c"]) + "?" + _expr_txt(e["t"]) + ":" + _expr_txt(e["f"])
    if k == "this":
        return "this"
    if k == "dep":
        bt = _expr_txt(e["b"]) if e.get("b") is not None else ""
        return (bt + "." if bt and bt != "this" else "") + e.get("n", "?")
    if k == "zero":
        return "0"
    return "<%s>" % k


def _fname(e):
    return _FN.get("F").fn(e["f"])["name"] if "F" in _FN and "f" in e else "f"


def check_never_none(ctx, F):
    _FN["F"] = F
    O = Origins(F)
    for fid, b in insts(F, "C_", {"resolveRandom"}):
        site = "C_::resolveRandom"
        atoms = O.ret_origins(fid, None, frozenset())
        ctx.instance("C12.never-none", site, {"function": site, "loc": F.floc(fid), "return_origins": sorted(set("%s:%s" % (a.kind, a.detail) for a in atoms))})
        for a in atoms:
            if a.kind in ("lit", "deflit") and int(a.detail) in (255, 65535):
                ctx.violation("C12.never-none", site, "%s (%s)" % (site, F.floc(fid)),
                              "resolveRandom can return INVALID_PRONG (the walk falls off the end): randomize would activate none", {"line": a.line})
