"""C08 — save then load reproduces active and resumable state.

Decided: writer and reader agree bit for bit on every path (same widths, same flag polarity, mirrored sub-calls into the same
sub-objects, reader stores into the field the writer read); all accesses stay inside the buffer (maximum bits written along any
path <= SERIAL_BITS; buffer bytes = ceil(bits/8)); save cannot modify the instance; load leaves the loaded resumable marks intact;
lifecycle callbacks come from the ordinary commit routine; the write stream starts from a cleared buffer.
Not decided: equality of configurations as values (follows from the above given C01-C03).
"""
import re

from ..effects import Effects
from ..engine import site_str
from ..ir import AnalysisBroken, walk, strip, sym_paths
from .common import insts, paths_of, regfield
from .C12 import _expr_txt, _FN

TEXT = {
    "C08.mirror": "for each pair (deepSaveActive, deepLoadRequested), (deepSaveResumable, deepLoadResumable), (wideSave*, wideLoad*) of C_, CS_x2, O_, OS_x2, S_x2 "
                  "and (RV_::save, RV_::load)x2: the per-path sequences of stream operations (width, flag value), mirrored sub-calls (same callee sub-object) and "
                  "fields are equal with write<->read; the reader stores into compoRequested what the writer read from compoActive, and into compoResumable "
                  "what it read from compoResumable",
    "C08.descent": "every Save*/Load* member visits all of its sub-objects on every path (C_: SubStates once; CS_<split>: both halves; OS_<nonlast>: Initial and "
                   "Remaining; O_: SubStates): a region's marks are saved whatever its ancestors' marks are (schedule() marks only the immediate parent)",
    "C08.budget": "for every machine of the zoo: the maximum over paths of the bits written by save() (1 + deepSaveActive call tree, with the evaluated "
                  "WIDTH_BITS) <= SERIAL_BITS of its Args; StreamBufferT::BYTE_COUNT == ceil(BIT_CAPACITY / 8); BitWriteStreamT's constructor clears the buffer",
    "C08.save-const": "save and every deep/wideSave* member are const and take the registry by const reference; their transitive may-write set is empty over machine state",
    "C08.load-keeps-resumable": "in R_::load and RV_<Manual>::loadEnter no call after the loader may write compoResumable (the commit's exits / enters rewrite the "
                                "freshly loaded resumable marks) unless they are snapshotted before and restored after",
    "C08.load-commit": "R_::load: clearRequests and compoResumable.clear before reading, requests cleared, commit through _apex.deepChangeToRequested; "
                       "loadEnter: commit through _apex.deepEnter; RV_::load dispatches on the activation bit and the instance's activity",
}
MIN_INSTANCES = {"C08.descent": 20, "C08.mirror": 10, "C08.budget": 3, "C08.save-const": 8, "C08.load-keeps-resumable": 1, "C08.load-commit": 1}

PAIR = {"deepSaveActive": "deepLoadRequested", "deepSaveResumable": "deepLoadResumable", "wideSaveActive": "wideLoadRequested",
        "wideSaveResumable": "wideLoadResumable"}
FIELD_MAP = {"compoActive": "compoRequested", "compoResumable": "compoResumable"}


def ptmpl(F, p):
    t = F.type(p.get("tid"))
    return (t or {}).get("tmpl") or (t or {}).get("name") or ""


def declare(ctx):
    for r, t in TEXT.items():
        ctx.rule(r, t)


def has_serial(F):
    return any(b["name"] == "deepSaveActive" and b["inst"] for b in F.bodies.values())


def check(ctx, F):
    _FN["F"] = F
    if not has_serial(F):
        ctx.note("unit %s compiled without SERIALIZATION" % F.label)
        return
    check_mirror(ctx, F)
    check_descent(ctx, F)
    check_budget(ctx, F)
    check_save_const(ctx, F)
    check_load(ctx, F)
    check_widths(ctx, F)


def check_widths(ctx, F):
    """the field that stores a region's prong is wide enough for every prong: 2^WIDTH_BITS >= WIDTH (and not wider than needed), read from the
    constants clang evaluated for every C_ instantiation"""
    for t in F.types:
        if t.get("tmpl") == "C_" and t.get("complete") and "WIDTH" in t.get("consts", {}) and "WIDTH_BITS" in t["consts"]:
            w, wb = t["consts"]["WIDTH"], t["consts"]["WIDTH_BITS"]
            need = max(1, (w - 1).bit_length()) if w > 1 else 0
            site = "C_/WIDTH_BITS(%d)" % w
            ctx.instance("C08.budget", site, {"WIDTH": w, "WIDTH_BITS": wb, "needed": need})
            if (1 << wb) < w or (w > 1 and wb != need):
                ctx.violation("C08.budget", "C_/WIDTH_BITS", "C_ of width %d (%s)" % (w, t.get("loc", "")),
                              "a region with %d sub-states stores its prong in WIDTH_BITS = %d bits, %d are needed: prongs >= %d do not survive save / load" % (
                                  w, wb, need, 1 << wb), {"WIDTH": w, "WIDTH_BITS": wb})


def width_of(F, fid):
    fta = F.fn(fid).get("ftargs") or []
    for a in fta:
        if isinstance(a, dict) and "v" in a:
            return a["v"]
    return None


def stream_tokens(F, fid, writer):
    """set of per-path token tuples"""
    out = set()
    for p in sym_paths(F, fid, 1):
        toks = []
        pending_read = None
        lastval = {}
        for i, ev in enumerate(p):
            if ev[0] == "call" and ev[2] is not None:
                cf = F.fn(ev[2])
                n = cf["name"]
                if n == "write" and cf.get("cls") == "BitWriteStreamT":
                    w = width_of(F, ev[2])
                    val = ev[4][0] if ev[4] else "?"
                    if w == 1 and val in ("#0", "#1"):
                        toks.append(("flag", val == "#1"))
                    else:
                        r = regfield(val)
                        toks.append(("bits", w, r[0] if r else val))
                elif n == "read" and cf.get("cls") == "BitReadStreamT":
                    w = width_of(F, ev[2])
                    pending_read = (i, w)
                    toks.append(["bits", w, None])
                elif n in PAIR or n in PAIR.values():
                    mapped = PAIR.get(n, n)
                    toks.append(("call", mapped if writer else n, cf.get("tid")))
                elif n in ("save", "load", "loadEnter", "finalExit") and cf.get("cls") in ("R_", "RV_"):
                    toks.append(("call", {"save": "load"}.get(n, n), None))
            elif ev[0] == "assume":
                s = ev[2]
                if "BitReadStreamT::read" in s and toks and isinstance(toks[-1], list) and toks[-1][1] == 1:
                    toks[-1] = ("flag", ev[3])
                elif writer and re.search(r"compoResumable.*!=#", s):
                    pass
                elif "isActive" in s:
                    toks.append(("active?", ev[3]))
            elif ev[0] == "write" and not writer:
                r = regfield(ev[2])
                if r and "BitReadStreamT::read" in ev[3]:
                    # attach the destination field to the most recent unresolved read
                    for t in reversed(toks):
                        if isinstance(t, list) and t[2] is None:
                            t[2] = r[0]
                            break
        out.add(tuple(tuple(t) if isinstance(t, list) else t for t in toks))
    return out


def check_mirror(ctx, F):
    for cls in ("C_", "CS_", "O_", "OS_", "S_"):
        groups = {}
        for fid, b in F.bodies.items():
            if b["inst"] and b.get("cls") == cls and (b["name"] in PAIR or b["name"] in PAIR.values()):
                groups.setdefault(b["tid"], {})[b["name"]] = fid
        for tid, fs in groups.items():
            for wname, rname in PAIR.items():
                if wname not in fs and rname not in fs:
                    continue
                spec = F.spec(tid)
                site = "%s%s::%s~%s" % (cls, "<" + spec + ">" if spec else "", wname, rname)
                if wname not in fs or rname not in fs:
                    continue
                wt = stream_tokens(F, fs[wname], True)
                rt = stream_tokens(F, fs[rname], False)
                # map writer fields to the reader's
                wt2 = set()
                for path in wt:
                    wt2.add(tuple(("bits", t[1], FIELD_MAP.get(t[2], t[2])) if t[0] == "bits" else t for t in path))
                ctx.instance("C08.mirror", site, {"pair": site, "loc": [F.floc(fs[wname]), F.floc(fs[rname])], "writer_paths": sorted(map(str, wt2))[:3]})
                if wt2 != rt:
                    ctx.violation("C08.mirror", site, "%s (%s | %s)" % (site, F.floc(fs[wname]), F.floc(fs[rname])),
                                  "writer and reader disagree: writer paths %s, reader paths %s" % (_show(F, wt2 - rt), _show(F, rt - wt2)), {})
    # RV_ save / load
    for spec in ("Automatic", "Manual"):
        sv = [(fid, b) for fid, b in insts(F, "RV_", {"save"}, spec=spec) if len(b.get("params", [])) == 1 and ptmpl(F, b["params"][0]) == "StreamBufferT"]
        ld = [(fid, b) for fid, b in insts(F, "RV_", {"load"}, spec=spec) if len(b.get("params", [])) == 1 and ptmpl(F, b["params"][0]) == "StreamBufferT"]
        if not sv or not ld:
            continue
        wt = stream_tokens(F, sv[0][0], True)
        rt = stream_tokens(F, ld[0][0], False)
        site = "RV_<%s>::save~load" % spec
        wflags = sorted(set(t for path in wt for t in path if t[0] == "flag"))
        rflags = sorted(set(t for path in rt for t in path if t[0] == "flag"))
        # shape: writer [flag True, call load] (+ [flag False] for Manual); reader: flag True -> load/loadEnter, flag False -> finalExit or nothing
        okw = wt == ({(("flag", True), ("call", "load", None))} if spec == "Automatic" else
                     {(("active?", True), ("flag", True), ("call", "load", None)), (("active?", False), ("flag", False))})
        okr = all((path[0] == ("flag", True) and any(t[0] == "call" and t[1] in ("load", "loadEnter") for t in path)) or
                  (path[0] == ("flag", False) and not any(t[0] == "call" and t[1] in ("load", "loadEnter") for t in path)) for path in rt)
        if spec == "Manual":
            want_r = {(("flag", True), ("active?", True), ("call", "load", None)), (("flag", True), ("active?", False), ("call", "loadEnter", None)),
                      (("flag", False), ("active?", True), ("call", "finalExit", None)), (("flag", False), ("active?", False))}
            okr = okr and rt == want_r
        ctx.instance("C08.mirror", site, {"pair": site, "loc": [F.floc(sv[0][0]), F.floc(ld[0][0])], "writer": sorted(map(str, wt)), "reader": sorted(map(str, rt))})
        if not okw or not okr:
            ctx.violation("C08.mirror", site, "%s (%s | %s)" % (site, F.floc(sv[0][0]), F.floc(ld[0][0])),
                          "activation-bit protocol differs: writer %s, reader %s" % (sorted(map(str, wt)), sorted(map(str, rt))), {})


EXPECT_SUBCALLS = {("C_", ""): 1, ("CS_", "split"): 2, ("CS_", "single"): 1, ("O_", ""): 1, ("OS_", "nonlast"): 2, ("OS_", "last"): 1,
                   ("S_", "headed"): 0, ("S_", "empty"): 0}


def check_descent(ctx, F):
    fam = set(PAIR) | set(PAIR.values())
    for fid, b in F.bodies.items():
        if not b["inst"] or b.get("cls") not in ("C_", "CS_", "O_", "OS_", "S_") or b["name"] not in fam:
            continue
        spec = F.spec(b["tid"])
        want = EXPECT_SUBCALLS.get((b["cls"], spec))
        if want is None:
            raise AnalysisBroken("unknown specialisation %s<%s>" % (b["cls"], spec))
        site = "%s%s::%s" % (b["cls"], "<" + spec + ">" if spec else "", b["name"])
        bad = None
        for p in sym_paths(F, fid, 1):
            n = sum(1 for ev in p if ev[0] == "call" and ev[2] is not None and F.fn(ev[2])["name"] in fam)
            if n != want:
                bad = "%d sub-object calls on a path, expected %d" % (n, want)
        ctx.instance("C08.descent", site, {"function": site, "loc": F.floc(fid), "sub_calls_per_path": want})
        if bad:
            ctx.violation("C08.descent", site, "%s (%s)" % (site, F.floc(fid)),
                          "%s: %s (some sub-region's marks are not transferred on that path)" % (site, bad), {})


def _show(F, paths):
    out = []
    for p in sorted(paths, key=str)[:2]:
        out.append([("call", t[1], F.tname(t[2], 0)) if t[0] == "call" and t[2] is not None else t for t in p])
    return out


def max_bits(F, fid, memo):
    if fid in memo:
        return memo[fid]
    memo[fid] = 0
    best = 0
    for p in sym_paths(F, fid, 1):
        n = 0
        for ev in p:
            if ev[0] == "call" and ev[2] is not None:
                cf = F.fn(ev[2])
                if cf["name"] == "write" and cf.get("cls") == "BitWriteStreamT":
                    n += width_of(F, ev[2]) or 0
                elif (cf["name"] in PAIR or cf["name"] == "save") and F.body(ev[2]) is not None:
                    n += max_bits(F, ev[2], memo)
        best = max(best, n)
    memo[fid] = best
    return best


def check_budget(ctx, F):
    memo = {}
    for fid, b in insts(F, "RV_", {"save"}):
        if not (len(b.get("params", [])) == 1 and ptmpl(F, b["params"][0]) == "StreamBufferT"):
            continue
        bits = max_bits(F, fid, memo)
        # SERIAL_BITS: BIT_CAPACITY of the stream the function constructs
        cap = None
        for x in walk(b["body"]):
            if x.get("k") == "decl":
                for v in x["vars"]:
                    t = F.type(v.get("tid"))
                    if t and t.get("tmpl") == "BitWriteStreamT":
                        cap = t["args"][0].get("v")
        site = "RV_::save/" + F.tname(b["tid"], 2)[-60:]
        ctx.instance("C08.budget", "RV_::save/%s" % cap, {"function": "RV_::save", "loc": F.floc(fid), "max_bits_written": bits, "SERIAL_BITS": cap,
                                                           "machine": F.tname(b["tid"], 1)[:120]})
        if cap is None:
            raise AnalysisBroken("RV_::save: BitWriteStreamT capacity not found")
        if bits > cap:
            ctx.violation("C08.budget", "RV_::save/overrun", "RV_::save (%s)" % F.floc(fid),
                          "save() can write %d bits on some path but the buffer holds SERIAL_BITS = %d: the write runs past the fixed-size buffer (machine %s)" % (
                              bits, cap, F.tname(b["tid"], 1)[:160]), {"max_bits": bits, "SERIAL_BITS": cap})
    for t in F.types:
        if t.get("tmpl") == "StreamBufferT" and t.get("complete") and "consts" in t and "BYTE_COUNT" in t["consts"]:
            bc, cap = t["consts"]["BYTE_COUNT"], t["consts"].get("BIT_CAPACITY")
            site = "StreamBufferT<%s>" % cap
            ctx.instance("C08.budget", "StreamBufferT/%s" % cap, {"type": site, "BYTE_COUNT": bc})
            data = [f for f in t.get("fields", []) if f["n"] == "_data"]
            ext = data[0].get("extent") if data else None
            if cap is not None and (bc != (cap + 7) // 8 or (ext is not None and ext != bc)):
                ctx.violation("C08.budget", "StreamBufferT/bytes", site, "BYTE_COUNT %s / data extent %s for %s bits, expected %d bytes" % (bc, ext, cap, (cap + 7) // 8), {})
    for fid, b in F.bodies.items():
        if b["inst"] and b.get("cls") == "BitWriteStreamT" and b.get("kind") == "ctor" and len(b.get("params", [])) == 2:
            site = "BitWriteStreamT::BitWriteStreamT"
            calls = [(F.fn(c)["name"], F.fn(c).get("cls")) for c in b.get("calls", ())]
            ctx.instance("C08.budget", site, {"function": site, "loc": F.floc(fid), "calls": calls})
            if not clears_on_every_path(F, fid, "_buffer"):
                ctx.violation("C08.budget", site + "/clear", "%s (%s)" % (site, F.floc(fid)),
                              "the write stream does not clear its buffer: write() ORs bits in, so a re-used buffer yields a different snapshot", {})


def clears_on_every_path(F, fid, member):
    """every path through the constructor `fid` calls clear() / reset() / fill() on this-><member> (a conditional clear does not count)"""
    ps = sym_paths(F, fid, 1)
    if not ps:
        return False
    for p in ps:
        if not any(ev[0] == "call" and ev[2] is not None and F.fn(ev[2])["name"] in ("clear", "reset", "fill") and (ev[3] or "").endswith("." + member) for ev in p):
            return False
    return True


def check_save_const(ctx, F):
    E = Effects(F)
    for fid, b in F.bodies.items():
        if not b["inst"]:
            continue
        if (b["name"] in PAIR and b.get("cls") in ("C_", "CS_", "O_", "OS_", "S_")) or (b["name"] == "save" and b.get("cls") in ("R_", "RV_")):
            site = "%s::%s" % (b["cls"], b["name"])
            ctx.instance("C08.save-const", site, {"function": site, "loc": F.floc(fid)})
            if not b.get("const"):
                ctx.violation("C08.save-const", site, "%s (%s)" % (site, F.floc(fid)), "%s is not const" % site, {})
            for p in b.get("params", []):
                t = F.type(p.get("tid"))
                if t and t.get("tmpl") == "RegistryT" and not p.get("const"):
                    ctx.violation("C08.save-const", site + "/registry", "%s (%s)" % (site, F.floc(fid)), "%s takes the registry by non-const reference" % site, {})
    for fid, b in insts(F, "R_", {"save"}):
        w = set(f for f in E.star(fid) if f in ("compoActive", "compoRequested", "compoResumable", "orthoRequested", "compoRemains", "requests"))
        if w:
            ctx.violation("C08.save-const", "R_::save/effects", "R_::save (%s)" % F.floc(fid), "save may write %s" % sorted(w), {})


def check_load(ctx, F):
    E = Effects(F)
    for cls, name, commit in (("R_", "load", "deepChangeToRequested"), ("RV_", "loadEnter", "deepEnter")):
        for fid, b in insts(F, cls, {name}):
            ps = b.get("params", [])
            if not (len(ps) == 1 and ptmpl(F, ps[0]) == "BitReadStreamT"):
                continue
            site = "%s::%s" % (cls, name)
            bad_keep = None
            bad_commit = None
            for p in paths_of(ctx, F, fid):
                seq = []
                loaded = False
                saved = False
                snapshot = None
                pending = None
                for ev in p:
                    if ev[0] == "decl" and loaded and ev[1].get("init") is not None and "compoResumable" in _expr_txt(ev[1]["init"]) and not ev[1].get("ref"):
                        snapshot = ev[1]["n"]          # a copy of the loaded marks taken before the commit
                    if ev[0] == "write" and ev[2].endswith(".compoResumable") and snapshot and ev[3] == "L:" + snapshot:
                        pending = None                 # ... and written back after it
                    if ev[0] == "call" and ev[2] is not None:
                        cf = F.fn(ev[2])
                        n, obj = cf["name"], ev[3] or ""
                        if n == "deepLoadRequested":
                            loaded = True
                            seq.append("read")
                        elif n == "clearRequests":
                            seq.append("clearRequests")
                        elif n == "clear" and obj.endswith(".compoResumable"):
                            seq.append("clearResumable")
                        elif n == "clear" and obj.endswith("._core.requests"):
                            seq.append("clearQueue")
                        elif n == commit and obj.endswith("._apex"):
                            seq.append("commit")
                            if loaded and "compoResumable" in E.star(ev[2]) and snapshot:
                                pending = "%s rewrites compoResumable and the snapshot `%s` is not written back afterwards" % (F.fdisp(ev[2]), snapshot)
                            elif loaded and "compoResumable" in E.star(ev[2]) and not saved:
                                bad_keep = "%s is called after the resumable marks were loaded and may write compoResumable (exits record the sub-state " \
                                           "they leave, enters clear a mark equal to the entered prong): the loaded marks are clobbered" % F.fdisp(ev[2])
                        elif n in ("overwriteWith",) and any("compoResumable" in a for a in ev[4]):
                            saved = True
                        elif loaded and F.body(ev[2]) is not None and "compoResumable" in E.star(ev[2]) and n not in (commit,):
                            bad_keep = bad_keep or "%s may write compoResumable after the load" % F.fdisp(ev[2])
                if pending:
                    bad_keep = pending
                want = ["clearRequests", "clearResumable", "read", "clearQueue", "commit"] if name == "load" else ["read", "commit"]
                if seq != want:
                    bad_commit = "sequence %s, expected %s" % (seq, want)
            ctx.instance("C08.load-keeps-resumable", site, {"function": site, "loc": F.floc(fid)})
            ctx.instance("C08.load-commit", site, {"function": site, "loc": F.floc(fid)})
            if bad_keep:
                ctx.violation("C08.load-keeps-resumable", site, "%s (%s)" % (site, F.floc(fid)), bad_keep, {})
            if bad_commit:
                ctx.violation("C08.load-commit", site, "%s (%s)" % (site, F.floc(fid)), bad_commit, {})


def final(ctx):
    # the field width of a region's prong is bitContain(WIDTH): the helper itself is decided by a static_assert witness (shared with C18.helpers)
    from . import helpwit
    helpwit.run(ctx, "C08.budget", only={"bitContain", "contain"})
    # ... and the buffer the budget is measured against really has SERIAL_BITS bits (also for machines beyond 255 bits)
    from . import sizewit
    sizewit.run(ctx, "C08.budget")

