"""Helpers shared by the rule modules."""
import re

from ..ir import AnalysisBroken, sym_paths, walk, strip

REG_FIELDS = ("compoActive", "compoRequested", "compoResumable", "compoRemains", "orthoRequested", "compoParents", "orthoParents",
              "orthoUnits", "stateParents", "regionHeads", "regionSizes")

_REG = re.compile(r"^(?P<base>.*?)(?:\.|^)(?P<f>%s)(?:\._items)?\[(?P<i>[^\]]*)\]$" % "|".join(REG_FIELDS))


def regfield(sym):
    """'P:control._core.registry.compoActive._items[#2]' -> ('compoActive', '#2', base)"""
    if not sym:
        return None
    m = _REG.match(sym)
    if not m:
        return None
    return m.group("f"), m.group("i"), m.group("base")


def is_regfield(sym, field, index=None):
    r = regfield(sym)
    if not r or r[0] != field:
        return False
    return index is None or r[1] == "#%d" % index


def paths_of(ctx, F, fid):
    ps = sym_paths(F, fid)
    ctx.paths += len(ps)
    return ps


def callee_name(F, ev):
    return F.fn(ev[2])["name"] if ev[0] == "call" and ev[2] is not None else None


def callee_cls(F, ev):
    return F.fn(ev[2]).get("cls") if ev[0] == "call" and ev[2] is not None else None


def insts(F, cls, names=None, spec=None):
    for fid, b in F.bodies.items():
        if not b["inst"] or b.get("cls") != cls:
            continue
        if names is not None and b["name"] not in names:
            continue
        if spec is not None and F.spec(b.get("tid")) != spec:
            continue
        yield fid, b


ACCESSORS = ("compoActive", "compoRequested", "compoResumable", "compoRemain", "operator[]", "headStatus", "subStatus")


def prong_origin(ctx, F, rule, table):
    """table: {C_ method name: ('compoActive'|'compoRequested', [callee names that receive the prong])}.
    Every call, on every path of C_::<method>, to one of the named sub-state dispatchers / wrappers must pass as its prong
    argument (the last argument) the region's own registry field with index COMPO_INDEX."""
    for fid, b in insts(F, "C_", set(table)):
        field, callees = table[b["name"]]
        ci = F.const(b["tid"], "COMPO_INDEX")
        if ci is None:
            raise AnalysisBroken("COMPO_INDEX not evaluated for %s" % F.fdisp(fid))
        site = "C_::" + b["name"]
        n = 0
        for p in paths_of(ctx, F, fid):
            for ev in p:
                if ev[0] != "call" or ev[2] is None:
                    continue
                cn = F.fn(ev[2])["name"]
                if cn not in callees or not ev[4]:
                    continue
                n += 1
                arg = ev[4][-1]
                if not is_regfield(arg, field, ci):
                    ctx.violation(rule, site + "/" + cn, "%s (%s)" % (site, F.floc(fid)),
                                  "prong passed to %s is `%s`, expected this region's %s[COMPO_INDEX=%d]" % (cn, arg, field, ci),
                                  {"line": ev[1].get("l"), "found": arg, "expected_field": field, "COMPO_INDEX": ci})
        if n:
            ctx.instance(rule, site, {"function": site, "loc": F.floc(fid), "prong_field": field, "calls_checked": n, "COMPO_INDEX": ci})


# ------------------------------------------------------------------------------------------------ propositional normal form of conditions
# A condition is read as a boolean function of its comparison atoms (&&, ||, !, ?: and a ?: operand of a comparison are structure;
# everything else is an atom, printed with const / reference locals replaced by their initialisers).  Two conditions are the same iff
# they have the same relevant atoms and the same truth table - so a De Morgan rewrite, a named temporary or swapped operands do not
# differ, while `b ? a : c` and `(a && b) || c` do.

def _subst_txt(F, e, defs, depth=0):
    from .C12 import _expr_txt
    e = strip(e)
    if isinstance(e, dict) and e.get("k") == "var" and e.get("d") == "local" and e.get("n") in defs and depth < 8:
        return _subst_txt(F, defs[e["n"]], defs, depth + 1)
    if isinstance(e, dict) and e.get("k") in ("bin", "idx", "mem", "un", "call", "cond") and depth < 8:
        # print children with substitution
        k = e["k"]
        if k == "bin":
            return "(%s%s%s)" % (_subst_txt(F, e["lhs"], defs, depth + 1), e["op"], _subst_txt(F, e["rhs"], defs, depth + 1))
        if k == "idx":
            return "%s[%s]" % (_subst_txt(F, e.get("b") or e.get("base") or {}, defs, depth + 1), _subst_txt(F, e.get("i") or e.get("idx") or {}, defs, depth + 1))
        if k == "mem":
            b = strip(e.get("b") or {})
            if b.get("k") == "this" or not b:
                return e["n"]
            return "%s.%s" % (_subst_txt(F, b, defs, depth + 1), e["n"])
        if k == "un":
            return "%s%s" % (e.get("op"), _subst_txt(F, e["e"], defs, depth + 1))
        if k == "call" and e.get("op") == "[]" and e.get("obj") is not None and len(e.get("a", [])) == 1:
            return "%s[%s]" % (_subst_txt(F, e["obj"], defs, depth + 1), _subst_txt(F, e["a"][0], defs, depth + 1))
        if k == "call" and "f" in e and F is not None:
            args = ",".join(_subst_txt(F, a, defs, depth + 1) for a in e.get("a", []))
            obj = (_subst_txt(F, e["obj"], defs, depth + 1) + ".") if e.get("obj") is not None and strip(e["obj"]).get("k") != "this" else ""
            return "%s%s(%s)" % (obj, F.fn(e["f"])["name"], args)
    return re.sub(r"\bthis[.>-]+", "", _expr_txt(e))


def local_defs(body):
    """const / reference locals with an initialiser, declared once"""
    defs, seen = {}, set()
    for x in walk(body):
        vs = [x["cvar"]] if x.get("k") == "if" and x.get("cvar") else (x.get("vars", []) if x.get("k") == "decl" else [])
        for v in vs:
            n = v.get("n")
            if not n:
                continue
            if n in seen:
                defs.pop(n, None)
                continue
            seen.add(n)
            if v.get("init") is not None and (v.get("const") or v.get("ref")):
                defs[n] = v["init"]
    return defs


def bexp(F, e, defs):
    e = strip(e)
    if not isinstance(e, dict):
        return ("atom", "?")
    k = e.get("k")
    if k == "lit" or (k != "asg" and "cv" in e and e.get("cv") in (0, 1, True, False)):
        v = e.get("cv", e.get("v"))
        if v in (0, 1, True, False, "true", "false"):
            return ("const", v in (1, True, "true"))
    if k == "var" and e.get("d") == "local" and e.get("n") in defs and e.get("ty") == "bool":
        return bexp(F, defs[e["n"]], defs)
    if k == "bin" and e.get("op") in ("&&", "||"):
        return ("and" if e["op"] == "&&" else "or", bexp(F, e["lhs"], defs), bexp(F, e["rhs"], defs))
    if k == "un" and e.get("op") == "!":
        return ("not", bexp(F, e["e"], defs))
    if k == "cond":
        return ("ite", bexp(F, e["c"], defs), bexp(F, e["t"], defs), bexp(F, e["f"], defs))
    if k == "bin" and e.get("op") in ("==", "!=", "<", ">", "<=", ">="):
        l, r = strip(e["lhs"]), strip(e["rhs"])
        for side, other, left in ((l, r, True), (r, l, False)):
            s = side
            if isinstance(s, dict) and s.get("k") == "var" and s.get("d") == "local" and s.get("n") in defs:
                s = strip(defs[s["n"]])
            if isinstance(s, dict) and s.get("k") == "cond":
                mk = (lambda x: {"k": "bin", "op": e["op"], "lhs": x, "rhs": other}) if left else (lambda x: {"k": "bin", "op": e["op"], "lhs": other, "rhs": x})
                return ("ite", bexp(F, s["c"], defs), bexp(F, mk(s["t"]), defs), bexp(F, mk(s["f"]), defs))
        a, b = _subst_txt(F, l, defs), _subst_txt(F, r, defs)
        op = e["op"]
        if op in ("==", "!="):
            a, b = sorted((a, b))
            at = ("atom", "%s==%s" % (a, b))
            return at if op == "==" else ("not", at)
        if op in (">", ">="):                 # a > b == b < a ; a >= b == !(a < b)
            a, b, op = b, a, {">": "<", ">=": "<="}[op]
        if op == "<=":                        # a <= b == !(b < a)
            return ("not", ("atom", "%s<%s" % (b, a)))
        return ("atom", "%s<%s" % (a, b))
    txt = _subst_txt(F, e, defs)
    if e.get("ty") not in (None, "bool") and k not in ("call",):
        return ("not", ("atom", "0==" + txt))        # an integer used as a condition: x  ==  !(0 == x)
    return ("atom", txt)


def _atoms(b, out):
    if b[0] == "atom":
        out.add(b[1])
    elif b[0] == "const":
        pass
    else:
        for x in b[1:]:
            _atoms(x, out)


def _ev(b, env):
    t = b[0]
    if t == "atom":
        return env[b[1]]
    if t == "const":
        return b[1]
    if t == "not":
        return not _ev(b[1], env)
    if t == "and":
        return _ev(b[1], env) and _ev(b[2], env)
    if t == "or":
        return _ev(b[1], env) or _ev(b[2], env)
    if t == "ite":
        return _ev(b[2], env) if _ev(b[1], env) else _ev(b[3], env)
    raise AnalysisBroken("bexp node %s" % t)


def truth_table(b):
    """canonical (relevant atoms, table) of a boolean expression; atoms the value does not depend on are dropped"""
    at = set()
    _atoms(b, at)
    at = sorted(at)
    if len(at) > 10:
        raise AnalysisBroken("condition with %d atoms" % len(at))
    import itertools

    def table(names):
        return tuple(_ev(b, dict(zip(names, vals), **{n: False for n in at if n not in names})) for vals in itertools.product((False, True), repeat=len(names)))
    # drop irrelevant atoms
    rel = []
    for n in at:
        dep = False
        others = [m for m in at if m != n]
        for vals in itertools.product((False, True), repeat=len(others)):
            env = dict(zip(others, vals))
            if _ev(b, dict(env, **{n: False})) != _ev(b, dict(env, **{n: True})):
                dep = True
                break
        if dep:
            rel.append(n)
    return tuple(rel), table(rel)


def _scoped_conditions(node, env, out):
    """(condition, defs visible at that point) for every if / loop condition and every ?: of a statement tree; block scoped"""
    if isinstance(node, list):
        for x in node:
            _scoped_conditions(x, env, out)
        return
    if not isinstance(node, dict):
        return
    k = node.get("k")
    if k == "seq":
        env = dict(env)
        for c in node.get("s", []):
            _scoped_conditions(c, env, out)      # declarations extend env for the following siblings
        return
    if k == "decl":
        for v in node.get("vars", []):
            n = v.get("n")
            if not n:
                continue
            if v.get("init") is not None:
                for x in walk(v["init"]):
                    if x.get("k") == "cond":
                        out.append((x["c"], dict(env)))
            if v.get("init") is not None and (v.get("const") or v.get("ref")):
                env[n] = v["init"]
            else:
                env.pop(n, None)
        return
    if k in ("if", "for", "while", "do", "rfor", "switch"):
        env = dict(env)
        if node.get("init") is not None:
            _scoped_conditions(node["init"], env, out)
        if k == "if" and node.get("cvar"):
            v = node["cvar"]
            if v.get("init") is not None and (v.get("const") or v.get("ref")):
                env[v["n"]] = v["init"]
        if node.get("c") is not None and k != "switch":
            out.append((node["c"], dict(env)))
        for key in ("t", "e", "b"):
            if isinstance(node.get(key), dict) and node[key].get("k") in ("seq", "if", "for", "while", "do", "rfor", "switch", "decl", "case", "default", "ret", "expr", "label"):
                _scoped_conditions(node[key], env, out)
            elif isinstance(node.get(key), dict):
                for x in walk(node[key]):
                    if x.get("k") == "cond":
                        out.append((x["c"], dict(env)))
        return
    if k in ("case", "default", "label"):
        _scoped_conditions(node.get("s"), env, out)
        return
    # expression statements, returns: only ?: inside
    for x in walk(node):
        if x.get("k") == "cond":
            out.append((x["c"], dict(env)))


def cond_tables(F, fid, mention):
    """canonical truth tables of every if / loop / ?: condition of `fid` whose atoms mention `mention` (regex)"""
    b = F.body(fid)
    conds = []
    _scoped_conditions(b["body"], {}, conds)
    out = set()
    for c, defs in conds:
        tt = truth_table(bexp(F, c, defs))
        if any(re.search(mention, a) for a in tt[0]):
            out.add(tt)
    return out


# ------------------------------------------------------------------------------------------------ accessor families
# C_ / O_ reach their own slots of the registry / plan data through small static accessors that exist in several overloads (Control&,
# const Control&, Registry&, const Registry&).  Every overload must address the same slot: the field named like the accessor, at the
# region's own index constant.

ACCESSOR_SLOT = {  # accessor -> (field, index constant)
    "compoRequested": ("compoRequested", "COMPO_INDEX"), "compoActive": ("compoActive", "COMPO_INDEX"), "compoResumable": ("compoResumable", "COMPO_INDEX"),
    "compoRemain": ("compoRemains", "COMPO_INDEX"), "headStatus": ("headStatuses", "REGION_ID"), "subStatus": ("subStatuses", "REGION_ID"),
}


def check_accessors(ctx, F, rule):
    for fid, b in F.bodies.items():
        if not b["inst"] or b.get("cls") not in ("C_", "O_"):
            continue
        name = b["name"]
        if b["cls"] == "C_" and name in ACCESSOR_SLOT:
            field, cname = ACCESSOR_SLOT[name]
            want = [F.const(b["tid"], cname)]
        elif b["cls"] == "O_" and name == "orthoRequested":
            field, cname = "orthoRequested", "ORTHO_UNIT, WIDTH"
            want = [F.const(b["tid"], "ORTHO_UNIT"), F.const(b["tid"], "WIDTH")]
        else:
            continue
        ptype = (b.get("params") or [{}])[0].get("n", "?")
        const = "const " if (b.get("params") or [{}])[0].get("const") else ""
        site = "%s::%s(%s%s)" % (b["cls"], name, const, ptype)
        rets = [x for x in walk(b["body"]) if x.get("k") == "ret" and x.get("e") is not None]
        got_field, got_idx = None, None
        if len(rets) == 1:
            e = strip(rets[0]["e"])
            if e.get("k") == "call" and e.get("obj") is not None:
                o = strip(e["obj"])
                got_field = o.get("n") if o.get("k") == "mem" else None
                if e.get("op") == "[]" and e.get("a"):
                    a = strip(e["a"][0])
                    got_idx = [a.get("cv", a.get("v"))]
                elif "f" in e:
                    got_idx = [x.get("v") for x in (F.fn(e["f"]).get("ftargs") or []) if isinstance(x, dict)]
        ctx.instance(rule, site, {"function": site, "loc": F.floc(fid), "field": got_field, "index": got_idx, "expected_index": "%s = %s" % (cname, want)})
        if None in want:
            raise AnalysisBroken("%s: constant %s not evaluated" % (site, cname))
        if got_field != field or got_idx != want:
            ctx.violation(rule, site, "%s (%s)" % (site, F.floc(fid)),
                          "%s addresses %s[%s], expected %s[%s = %s]: this overload reads / writes another region's slot" % (
                              site, got_field, got_idx, field, cname, want), {})


# ------------------------------------------------------------------------------------------------ finite-domain evaluation of a statement tree
class NotEvaluable(Exception):
    pass


_WRAP = {"signed char": (8, True), "unsigned char": (8, False), "short": (16, True), "unsigned short": (16, False), "int": (32, True),
         "unsigned int": (32, False), "long": (64, True), "unsigned long": (64, False), "bool": (1, False)}


def _wrap(v, ty):
    if ty == "bool":
        return 1 if v else 0
    w = _WRAP.get(ty)
    if not w or not isinstance(v, int):
        return v
    bits, signed = w
    v &= (1 << bits) - 1
    if signed and v >= 1 << (bits - 1):
        v -= 1 << bits
    return v


def eval_expr(e, env, leaf):
    """value of expression `e` (ints / bools) with locals from `env`; `leaf(node)` supplies the value of anything that is not arithmetic
    (a member read, a call) or raises NotEvaluable.  Integer conversions wrap to the width of the node's type (the abstract machine's rule
    for the library's fixed-width typedefs); used to evaluate small pure update functions over their whole (finite) input domain."""
    if e is None:
        raise NotEvaluable("empty expression")
    k = e.get("k")
    if "cv" in e and k != "asg":
        return e["cv"]
    if k == "lit":
        return e.get("v")
    if k in ("cast", "paren"):
        return _wrap(eval_expr(e.get("e"), env, leaf), e.get("ty"))
    if k == "var":
        if e.get("d") in ("local", "param") and e.get("n") in env:
            return env[e["n"]]
        return leaf(e)
    if k == "cond":
        return eval_expr(e["t"] if eval_expr(e["c"], env, leaf) else e["f"], env, leaf)
    if k == "un":
        op = e.get("op")
        if op in ("++", "--"):
            raise NotEvaluable("increment inside an expression")
        v = eval_expr(e.get("e"), env, leaf)
        r = {"-": lambda: -v, "+": lambda: v, "!": lambda: 0 if v else 1, "~": lambda: ~v}.get(op)
        if r is None:
            raise NotEvaluable("unary %s" % op)
        return _wrap(r(), e.get("ty"))
    if k == "bin":
        op = e.get("op")
        if op == "&&":
            return 1 if (eval_expr(e["lhs"], env, leaf) and eval_expr(e["rhs"], env, leaf)) else 0
        if op == "||":
            return 1 if (eval_expr(e["lhs"], env, leaf) or eval_expr(e["rhs"], env, leaf)) else 0
        a, b = eval_expr(e["lhs"], env, leaf), eval_expr(e["rhs"], env, leaf)
        f = {"+": lambda: a + b, "-": lambda: a - b, "*": lambda: a * b, "&": lambda: a & b, "|": lambda: a | b, "^": lambda: a ^ b,
             "<<": lambda: a << b, ">>": lambda: a >> b, "<": lambda: int(a < b), "<=": lambda: int(a <= b), ">": lambda: int(a > b),
             ">=": lambda: int(a >= b), "==": lambda: int(a == b), "!=": lambda: int(a != b)}.get(op)
        if f is None:
            raise NotEvaluable("binary %s" % op)
        return _wrap(f(), e.get("ty"))
    return leaf(e)


def exec_stmt(st, env, leaf, store):
    """run statement tree `st`: assignments to locals update `env`; an assignment to anything else goes to store(lhs_node, value)"""
    if st is None:
        return
    k = st.get("k")
    if k == "seq":
        for x in st.get("s", []):
            exec_stmt(x, env, leaf, store)
    elif k == "expr":
        exec_stmt(st.get("e"), env, leaf, store)
    elif k == "if":
        if st.get("init") is not None or st.get("cvar") is not None:
            raise NotEvaluable("if with initialiser")
        exec_stmt(st.get("t") if eval_expr(st["c"], env, leaf) else st.get("e"), env, leaf, store)
    elif k == "decl":
        for v in st.get("vars", []):
            if v.get("ref"):
                continue            # a reference local is an alias: reads / writes go through leaf / store under its own name
            if v.get("init") is not None:
                env[v["n"]] = _wrap(eval_expr(v["init"], env, leaf), v.get("ty"))
    elif k == "asg":
        lhs = strip(st["lhs"])
        if st.get("op") == "=":
            val = eval_expr(st["rhs"], env, leaf)
        else:
            op = st["op"][:-1]
            val = eval_expr({"k": "bin", "op": op, "lhs": st["lhs"], "rhs": st["rhs"], "ty": st.get("ty")}, env, leaf)
        val = _wrap(val, st.get("ty") or lhs.get("ty"))
        if lhs.get("k") == "var" and lhs.get("d") == "local" and lhs.get("n") in env:
            env[lhs["n"]] = val
        else:
            store(lhs, val)
    elif k == "un" and st.get("op") in ("++", "--"):
        lhs = strip(st["e"])
        d = 1 if st["op"] == "++" else -1
        if lhs.get("k") == "var" and lhs.get("n") in env:
            env[lhs["n"]] = _wrap(env[lhs["n"]] + d, lhs.get("ty"))
        else:
            store(lhs, _wrap(leaf(lhs) + d, lhs.get("ty")))
    elif k in ("null", "noop") or (k == "call" and False):
        return
    else:
        from ..ir import is_noop
        if is_noop(st):
            return
        raise NotEvaluable("statement kind %s" % k)


# ------------------------------------------------------------------------------------------------ origin scope of the state wrappers
WRAPPER_CALLBACK = {"deepEntryGuard": "entryGuard", "deepEnter": "enter", "deepReenter": "reenter", "deepPreUpdate": "preUpdate", "deepUpdate": "update",
                    "deepPostUpdate": "postUpdate", "deepPreReact": "preReact", "deepReact": "react", "deepPostReact": "postReact", "deepQuery": "query",
                    "deepExitGuard": "exitGuard", "deepExit": "exit", "wrapPlanSucceeded": "planSucceeded", "wrapPlanFailed": "planFailed",
                    "wrapSelect": "select", "wrapRank": "rank", "wrapUtility": "utility"}


def check_origin_scope(ctx, F, rule):
    """control.stateId() (and everything keyed on the origin: requests' origin field, activeSubState(), plan status attribution) inside a callback
    is the state whose callback runs: every S_<headed> wrapper opens an origin scope naming its own STATE_ID before it invokes the user's method
    (directly or through the injection chain) on every path"""
    for fid, b in insts(F, "S_", set(WRAPPER_CALLBACK), spec="headed"):
        site = "S_<headed>::" + b["name"]
        cb = WRAPPER_CALLBACK[b["name"]]
        wide = "wide" + cb[0].upper() + cb[1:]
        sid = F.const(b["tid"], "STATE_ID")
        bad = None
        seen_cb = False
        for p in sym_paths(F, fid, 1):
            opened = None
            for ev in p:
                if ev[0] == "call" and ev[2] is not None:
                    cf = F.fn(ev[2])
                    if cf.get("cls") == "Origin" and cf.get("kind") == "ctor":
                        opened = (ev[4] or [None, None])[1] if len(ev[4] or []) > 1 else None
                    elif cf["name"] in (cb, wide):
                        seen_cb = True
                        if opened is None:
                            bad = "%s() runs without an origin scope: control.stateId() inside it is whatever was current before (INVALID or another state)" % cf["name"]
                        elif opened != "#%s" % sid:
                            bad = "%s() runs under an origin scope naming `%s`, not the wrapper's own STATE_ID" % (cf["name"], opened)
                elif ev[0] == "icall" and opened is None:
                    seen_cb = True
                    bad = "the callback runs without an origin scope"
                elif ev[0] == "icall":
                    seen_cb = True
        if not seen_cb:
            continue
        ctx.instance(rule, site + "/origin", {"function": site, "loc": F.floc(fid), "callback": cb})
        if bad:
            ctx.violation(rule, site + "/origin", "%s (%s)" % (site, F.floc(fid)), "%s: %s" % (site, bad), {})
