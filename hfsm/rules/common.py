"""Helpers shared by the rule modules."""
import re

from ..ir import AnalysisBroken, sym_paths

REG_FIELDS = ("compoActive", "compoRequested", "compoResumable", "compoRemains", "orthoRequested", "compoParents", "orthoParents",
              "orthoUnits", "stateParents", "regionHeads", "regionSizes")

_REG = re.compile(r"^(?P<base>.*?)(?:\.|^)(?P<f>%s)(?:\._items)?\[(?P<i>[^\]]*)\]$" % "|".join(REG_FIELDS))


def regfield(sym):
    """'P:control._core.registry.compoActive._items[#2]' -> ('compoActive', '#2', base)"""
    if not sym:
        return None
    m = _REG.match(sym)
    if not m:
        return None
    return m.group("f"), m.group("i"), m.group("base")


def is_regfield(sym, field, index=None):
    r = regfield(sym)
    if not r or r[0] != field:
        return False
    return index is None or r[1] == "#%d" % index


def paths_of(ctx, F, fid):
    ps = sym_paths(F, fid)
    ctx.paths += len(ps)
    return ps


def callee_name(F, ev):
    return F.fn(ev[2])["name"] if ev[0] == "call" and ev[2] is not None else None


def callee_cls(F, ev):
    return F.fn(ev[2]).get("cls") if ev[0] == "call" and ev[2] is not None else None


def insts(F, cls, names=None, spec=None):
    for fid, b in F.bodies.items():
        if not b["inst"] or b.get("cls") != cls:
            continue
        if names is not None and b["name"] not in names:
            continue
        if spec is not None and F.spec(b.get("tid")) != spec:
            continue
        yield fid, b


ACCESSORS = ("compoActive", "compoRequested", "compoResumable", "compoRemain", "operator[]", "headStatus", "subStatus")


def prong_origin(ctx, F, rule, table):
    """table: {C_ method name: ('compoActive'|'compoRequested', [callee names that receive the prong])}.
    Every call, on every path of C_::<method>, to one of the named sub-state dispatchers / wrappers must pass as its prong
    argument (the last argument) the region's own registry field with index COMPO_INDEX."""
    for fid, b in insts(F, "C_", set(table)):
        field, callees = table[b["name"]]
        ci = F.const(b["tid"], "COMPO_INDEX")
        if ci is None:
            raise AnalysisBroken("COMPO_INDEX not evaluated for %s" % F.fdisp(fid))
        site = "C_::" + b["name"]
        n = 0
        for p in paths_of(ctx, F, fid):
            for ev in p:
                if ev[0] != "call" or ev[2] is None:
                    continue
                cn = F.fn(ev[2])["name"]
                if cn not in callees or not ev[4]:
                    continue
                n += 1
                arg = ev[4][-1]
                if not is_regfield(arg, field, ci):
                    ctx.violation(rule, site + "/" + cn, "%s (%s)" % (site, F.floc(fid)),
                                  "prong passed to %s is `%s`, expected this region's %s[COMPO_INDEX=%d]" % (cn, arg, field, ci),
                                  {"line": ev[1].get("l"), "found": arg, "expected_field": field, "COMPO_INDEX": ci})
        if n:
            ctx.instance(rule, site, {"function": site, "loc": F.floc(fid), "prong_field": field, "calls_checked": n, "COMPO_INDEX": ci})
