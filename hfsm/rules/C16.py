"""C16 — logger and structure report faithfully mirror what the machine does.

Decided: every invocation of a user callback, every queued request, every cancellation, status and resolution is paired with exactly
one logger call carrying the same identifiers; logging is guarded by the logger pointer and has no effect on machine state; the
structure report is refreshed after the last lifecycle call of every operation that can change the active set, in identifier order.
Not decided: the saturation arithmetic of activityHistory beyond its branch structure.
"""
import re

from ..effects import Effects
from ..engine import site_str
from ..ir import AnalysisBroken, walk, strip, sym_paths
from .common import insts, paths_of
from .C12 import _expr_txt, _FN

TEXT = {
    "C16.methods": "(LOG configurations) each S_ wrapper contains exactly one logging action, before the user callback, with STATE_ID and the Method constant its "
                   "name denotes; in interface mode the member pointer handed to log() is the callback the wrapper invokes",
    "C16.requests": "every function that queues a Transition{origin, dest, TYPE} logs recordTransition(context, origin, TYPE, dest) with the same constant and "
                    "destination; cancelPendingTransitions logs every cancellation (unconditionally, with the origin); succeed/fail log the task status; "
                    "updatePlan logs the plan status; select / utility / random resolutions log the chosen prong, directly after the requested prong is written (no structural walk in between)",
    "C16.logger-identity": "the user's logger is reached through a pointer or reference everywhere: no library function takes, holds or returns a "
                           "LoggerInterfaceT by value (a by-value copy is sliced to the interface class, whose record* members are the empty defaults, so the "
                           "report never reaches the user's object); the interface-mode S_::log overloads either record exactly "
                           "recordMethod(context, STATE_ID, method) on the logger they were handed, or (Empty::* overloads) nothing",
    "C16.activity": "(STRUCTURE_REPORT) the per-state update of udpateActivity, evaluated over its whole input domain (isActive x every int8 counter value): "
                    "active -> counter > 0 ? min(counter + 1, INT8_MAX) : +1; inactive -> counter < 0 ? max(counter - 1, INT8_MIN) : -1 "
                    "(sign says active / inactive, magnitude counts consecutive updates and saturates)",
    "C16.detach": "every logger call is guarded by the logger pointer being non-null, and the logging statements write no machine state (attaching or "
                  "detaching a logger cannot change behaviour)",
    "C16.report": "(STRUCTURE_REPORT) every R_/RV_ member that may reach apex deepEnter / deepExit / deepChangeToRequested calls udpateActivity() after the last "
                  "such call on every path; udpateActivity visits all STATE_COUNT ids writing _structure[i].isActive := isActive(s) with i == s; getStateNames "
                  "runs in both constructors",
}
MIN_INSTANCES = {"C16.activity": 1, "C16.logger-identity": 1, "C16.methods": 17, "C16.requests": 20, "C16.detach": 20, "C16.report": 5}

METHOD_OF = {"deepEntryGuard": "ENTRY_GUARD", "deepEnter": "ENTER", "deepReenter": "REENTER", "deepPreUpdate": "PRE_UPDATE", "deepUpdate": "UPDATE",
             "deepPostUpdate": "POST_UPDATE", "deepPreReact": "PRE_REACT", "deepReact": "REACT", "deepPostReact": "POST_REACT", "deepQuery": "QUERY",
             "deepExitGuard": "EXIT_GUARD", "deepExit": "EXIT", "wrapPlanSucceeded": "PLAN_SUCCEEDED", "wrapPlanFailed": "PLAN_FAILED",
             "wrapSelect": "SELECT", "wrapRank": "RANK", "wrapUtility": "UTILITY"}
CALLBACK_OF = {"deepEntryGuard": "entryGuard", "deepEnter": "enter", "deepReenter": "reenter", "deepPreUpdate": "preUpdate", "deepUpdate": "update",
               "deepPostUpdate": "postUpdate", "deepPreReact": "preReact", "deepReact": "react", "deepPostReact": "postReact", "deepQuery": "query",
               "deepExitGuard": "exitGuard", "deepExit": "exit", "wrapPlanSucceeded": "planSucceeded", "wrapPlanFailed": "planFailed",
               "wrapSelect": "select", "wrapRank": "rank", "wrapUtility": "utility"}
LOGGER_METHODS = {"recordMethod", "recordTransition", "recordTaskStatus", "recordPlanStatus", "recordCancelledPending", "recordSelectResolution",
                  "recordUtilityResolution", "recordRandomResolution"}


def declare(ctx):
    for r, t in TEXT.items():
        ctx.rule(r, t)


def has_log(F):
    return any(fn["name"] == "recordMethod" for fn in F.fns)


def has_report(F):
    return any(b["name"] == "udpateActivity" for b in F.bodies.values())


def check(ctx, F):
    _FN["F"] = F
    if has_log(F):
        check_methods(ctx, F)
        check_requests(ctx, F)
        check_detach(ctx, F)
        check_logger_identity(ctx, F)
        check_interface_overridden(ctx, F)
    else:
        ctx.note("unit %s compiled without the log interface" % F.label)
    if has_report(F):
        check_report(ctx, F)
        check_activity(ctx, F)


REACTION_WRAPPERS = {"deepPreReact", "deepReact", "deepPostReact", "deepQuery"}


def check_interface_overridden(ctx, F):
    """interface mode reports a callback iff the state defines it: in every S_<headed> wrapper the log() overload the call resolves to records
    when the callback invoked next to it is user code, and is one of the silent (Empty::*) overloads when the callback is the library's inherited
    default.  (The reaction / query wrappers cast the member pointer to Head::* first and are always reported: DESIGN 12.4, relied on by
    test_react_order - not judged here.)"""
    from .. import facts as factsmod
    lib = factsmod.REPO.rstrip("/") + "/"
    if any(bb.get("cls") == "S_" and bb["name"] == "log" for bb in F.bodies.values()) is False:
        return
    records = {}
    for fid, b in F.bodies.items():
        if b.get("cls") == "S_" and b["name"] == "log":
            records[fid] = any(x.get("k") == "call" and "f" in x and F.fn(x["f"])["name"] == "recordMethod" for x in walk(b.get("body") or {}))
    if not records:
        return
    for fid, b in insts(F, "S_", set(METHOD_OF) - REACTION_WRAPPERS, spec="headed"):
        cb = CALLBACK_OF[b["name"]]
        logs = [x["f"] for x in walk(b["body"]) if x.get("k") == "call" and "f" in x and F.fn(x["f"])["name"] == "log" and F.fn(x["f"]).get("cls") == "S_"]
        cbs = [x["f"] for x in walk(b["body"]) if x.get("k") == "call" and "f" in x and F.fn(x["f"])["name"] == cb]
        if len(logs) != 1 or len(cbs) != 1 or logs[0] not in records:
            continue
        cfn = F.fn(cbs[0])
        user = not (cfn.get("loc") or "").startswith(lib)
        if not user:
            # the library's own default is the one declared in Empty = A_<B_<Args>>; a state built with injections (FSM::StateT<Inj...>) finds the
            # member in A_<Inj, ...>, whose wide* twin does run the injections' user code: reported, and rightly so
            ct = F.type(cfn.get("tid")) if cfn.get("tid") is not None else None
            pack = ((ct or {}).get("args") or [{}])[0].get("pack") if ct and ct.get("args") and isinstance(ct["args"][0], dict) else None
            first = F.type(pack[0].get("t")) if pack and len(pack) == 1 and isinstance(pack[0], dict) and "t" in pack[0] else None
            if not ct or ct.get("name") != "A_" or not first or first.get("name") != "B_":
                continue
        site = "S_<headed>::%s/interface/%s" % (b["name"], "defined" if user else "inherited")
        ctx.instance("C16.methods", site, {"function": "S_<headed>::" + b["name"], "callback_defined_by_the_state": user, "log_overload_records": records[logs[0]]})
        if records[logs[0]] != user:
            ctx.violation("C16.methods", site, "S_<headed>::%s (%s)" % (b["name"], F.floc(fid)),
                          "interface logging: %s() is %s, but the log() overload the wrapper resolves to %s" % (
                              cb, "defined by the state" if user else "the library's inherited default (never written by the user)",
                              "records it" if records[logs[0]] else "is a silent one"), {})


def check_logger_identity(ctx, F):
    from .. import facts as factsmod
    lib = factsmod.REPO.rstrip("/") + "/"

    def is_logger(tid):
        t = F.type(tid) if tid is not None else None
        return bool(t) and (t.get("name") == "LoggerInterfaceT" or t.get("tmpl") == "LoggerInterfaceT")

    scanned = 0
    for fid, b in F.bodies.items():
        if not b["inst"] or not (F.fn(fid).get("loc") or "").startswith(lib) or b.get("cls") == "LoggerInterfaceT":
            continue
        scanned += 1
        where = "%s::%s" % (b.get("cls"), b["name"])
        for p in b.get("params", []):
            if is_logger(p.get("tid")) and not p.get("ref") and not p.get("ptr"):
                ctx.violation("C16.logger-identity", "byvalue/%s/%d" % (where, len(b.get("params", []))), "%s (%s)" % (where, F.floc(fid)),
                              "%s takes the logger by value: the copy is sliced to LoggerInterfaceT, whose record* members do nothing - the report "
                              "never reaches the user's logger" % where, {})
        for x in walk(b.get("body") or {}):
            if x.get("k") == "decl":
                for v in x.get("vars", []):
                    if is_logger(v.get("tid")) and not v.get("ref") and not v.get("ptr"):
                        ctx.violation("C16.logger-identity", "local/%s/%s" % (where, v.get("n")), "%s (%s)" % (where, F.floc(fid)),
                                      "local `%s` is a by-value (sliced) copy of the logger" % v.get("n"), {})
    ctx.instance("C16.logger-identity", "by-value scan", {"library_functions_scanned": scanned})
    # interface mode: the S_::log overloads
    for fid, b in insts(F, "S_", {"log"}):
        sid = F.const(b["tid"], "STATE_ID")
        site = "S_::log/%s" % ("const" if "const" in (b.get("params") or [{}])[0].get("t", "")[-12:] else "nonconst")
        recs = []
        others = []
        for x in walk(b.get("body") or {}):
            if x.get("k") == "call":
                if "f" in x and F.fn(x["f"])["name"] == "recordMethod":
                    o = strip(x.get("obj") or {})
                    recs.append((o.get("n") if o.get("k") == "var" and o.get("d") == "param" else None,
                                 [(strip(a).get("n"), strip(a).get("cv")) for a in x.get("a", [])]))
                else:
                    others.append(x)
        ctx.instance("C16.logger-identity", site + ("/records" if recs else "/silent"), {"function": site, "loc": F.floc(fid)})
        if recs:
            ok = len(recs) == 1 and recs[0][0] == "logger" and len(recs[0][1]) == 3 and recs[0][1][0][0] == "context" and \
                recs[0][1][1] == ("STATE_ID", sid) and recs[0][1][2][0] == "method"
            if not ok or others:
                ctx.violation("C16.logger-identity", site, "%s (%s)" % (site, F.floc(fid)),
                              "log() records %s, expected exactly logger.recordMethod(context, STATE_ID, method)" % (recs,), {})


def check_activity(ctx, F):
    from .common import eval_expr, exec_stmt, NotEvaluable
    for fid, b in insts(F, "R_", {"udpateActivity"}):
        site = "R_::udpateActivity/counter"
        loops = [x for x in walk(b["body"]) if x.get("k") == "for"]
        if len(loops) != 1:
            raise AnalysisBroken("%s: expected one loop over the states, found %d" % (site, len(loops)))
        body = loops[0]["b"]
        # the counter: a reference local bound to _activityHistory[...]
        alias = None
        for x in walk(body):
            if x.get("k") == "decl":
                for v in x["vars"]:
                    if v.get("ref") and any(m.get("k") == "mem" and m.get("n") == "_activityHistory" for m in walk(v.get("init") or {})):
                        alias = v["n"]

        def is_counter(n):
            n = strip(n)
            if n.get("k") == "var" and n.get("n") == alias:
                return True
            return n.get("k") == "call" and n.get("op") == "[]" and any(m.get("k") == "mem" and m.get("n") == "_activityHistory" for m in walk(n))

        def is_flag(n):
            n = strip(n)
            return n.get("k") == "mem" and n.get("n") == "isActive"

        bad = None
        try:
            for active in (0, 1):
                for a in range(-128, 128):
                    cell = {"a": a}

                    def leaf(n):
                        if is_counter(n):
                            return cell["a"]
                        if is_flag(n):
                            return active
                        if strip(n).get("k") == "call" and "f" in strip(n) and F.fn(strip(n)["f"])["name"] == "isActive":
                            return active
                        raise NotEvaluable("`%s`" % _expr_txt(n))

                    def store(lhs, val):
                        if is_counter(lhs):
                            cell["a"] = val
                        elif is_flag(lhs):
                            pass
                        else:
                            raise NotEvaluable("write to `%s`" % _expr_txt(lhs))
                    env = {}
                    for v in (loops[0].get("init") or {}).get("vars", []):
                        env[v["n"]] = 0
                    exec_stmt(body, env, leaf, store)
                    want = (min(a + 1, 127) if a > 0 else 1) if active else (max(a - 1, -128) if a < 0 else -1)
                    if cell["a"] != want and bad is None:
                        bad = "isActive=%d, counter %d -> %d, expected %d" % (active, a, cell["a"], want)
        except NotEvaluable as e:
            raise AnalysisBroken("%s: the update is not a pure function of (isActive, counter): %s" % (site, e))
        ctx.instance("C16.activity", site, {"function": site, "loc": F.floc(fid), "inputs_evaluated": 512})
        if bad:
            ctx.violation("C16.activity", site, "R_::udpateActivity (%s)" % F.floc(fid),
                          "the counter update is wrong for %s (sign = active / inactive, magnitude counts consecutive updates up to saturation)" % bad, {})


def enum_name(e):
    e = strip(e)
    return e.get("n") if isinstance(e, dict) and e.get("k") == "var" and e.get("d") == "enum" else None


def check_methods(ctx, F):
    for spec in ("headed", "empty"):
        for fid, b in insts(F, "S_", set(METHOD_OF), spec=spec):
            site = "S_<%s>::%s" % (spec, b["name"])
            want = METHOD_OF[b["name"]]
            sid = F.const(b["tid"], "STATE_ID")
            logs = []
            order = []
            for x in walk(b["body"]):
                pass
            # ordered scan by statement position
            for p in paths_of(ctx, F, fid):
                seq = []
                for ev in p:
                    if ev[0] == "call" and ev[2] is not None:
                        cf = F.fn(ev[2])
                        if cf["name"] == "recordMethod":
                            m = enum_name(ev[1]["a"][2]) if len(ev[1].get("a", [])) > 2 else None
                            seq.append(("log", m, ev[4][1] if len(ev[4]) > 1 else None, None))
                        elif cf["name"] == "log" and cf.get("cls") == "S_":
                            a = ev[1].get("a", [])
                            m = enum_name(a[3]) if len(a) > 3 else None
                            mp = ev[4][0] if ev[4] else None
                            seq.append(("log", m, "#%s" % sid, mp))
                        elif cf["name"] == CALLBACK_OF[b["name"]] and not cf.get("inroots", True):
                            seq.append(("user",))
                        elif cf["name"] == CALLBACK_OF[b["name"]] and cf.get("cls") in ("A_", "B_"):
                            seq.append(("user",))
                    elif ev[0] == "icall" and CALLBACK_OF[b["name"]] in ev[2]:
                        seq.append(("user",))
                logs.append(seq)
            bad = None
            for seq in logs:
                lg = [s for s in seq if s[0] == "log"]
                if not any(True for ev in p for p in [[]]):
                    pass
                # a path with the logger attached has exactly one log; paths with logger == nullptr have none
                if len(lg) > 1:
                    bad = "%d logging actions on a path" % len(lg)
                for s in lg:
                    if s[1] != want:
                        bad = "logs Method::%s, the wrapper is %s (expected Method::%s)" % (s[1], b["name"], want)
                    if s[2] is not None and s[2] != "#%s" % sid:
                        bad = bad or "logs state id %s, expected STATE_ID=%s" % (s[2], sid)
                    if s[3] is not None and spec == "headed" and not re.search(r"::%s\b" % CALLBACK_OF[b["name"]], s[3]) and not s[3].startswith("L:method") and \
                            "method" not in s[3]:
                        bad = bad or "interface-mode log() is handed `%s`, not the callback %s the wrapper invokes" % (s[3], CALLBACK_OF[b["name"]])
                if lg and ("user",) in seq and seq.index(lg[0]) > seq.index(("user",)):
                    bad = bad or "the callback runs before it is logged"
            if not any(any(s[0] == "log" for s in seq) for seq in logs):
                bad = bad or "no path logs the callback"
            ctx.instance("C16.methods", site, {"function": site, "loc": F.floc(fid), "method": want})
            if bad:
                ctx.violation("C16.methods", site, "%s (%s)" % (site, F.floc(fid)), "%s %s" % (site, bad), {})
            # interface mode with a local `method` pointer: its initialiser must name the same callback
            if spec == "headed":
                for x in walk(b["body"]):
                    if x.get("k") == "decl":
                        for v in x["vars"]:
                            if v["n"] == "method":
                                t = _expr_txt(v.get("init") or {})
                                if CALLBACK_OF[b["name"]] not in t:
                                    ctx.violation("C16.methods", site + "/method", "%s (%s)" % (site, F.floc(fid)),
                                                  "member pointer `method` is `%s`, expected &Head::%s" % (t, CALLBACK_OF[b["name"]]), {})


def check_requests(ctx, F):
    # (1) request entry points
    for fid, b in F.bodies.items():
        if not b["inst"] or b.get("cls") not in ("R_", "RP_", "FullControlBaseT", "FullControlT"):
            continue
        emits = []
        logs = []
        for x in walk(b["body"]):
            if x.get("k") == "call" and "f" in x:
                n = F.fn(x["f"])["name"]
                if n == "emplace" and _expr_txt(x.get("obj") or {}).endswith("requests"):
                    a = strip((x.get("a") or [{}])[0])
                    while a.get("k") == "ctor" and (a.get("copy") or a.get("move")) and len(a.get("a", [])) == 1:
                        a = strip(a["a"][0])
                    args = a.get("a", []) if a.get("k") in ("ctor", "ilist") else []
                    kinds = [enum_name(y) for y in args if enum_name(y)]
                    txt = [_expr_txt(y) for y in args]
                    emits.append((kinds[0] if kinds else None, txt))
                elif n == "recordTransition":
                    a = x.get("a", [])
                    logs.append((enum_name(a[2]) if len(a) > 2 else None, [_expr_txt(y) for y in a]))
        if not emits:
            continue
        site = "%s::%s/%d" % (b["cls"], b["name"], len(b.get("params", [])))
        ctx.instance("C16.requests", site, {"function": site, "loc": F.floc(fid), "queued": emits[:2], "logged": logs[:2]})
        if len(logs) != len(emits):
            ctx.violation("C16.requests", site, "%s (%s)" % (site, F.floc(fid)), "%s queues %d request(s) but logs %d" % (site, len(emits), len(logs)), {})
            continue
        for (ek, et), (lk, lt) in zip(emits, logs):
            if ek != lk:
                ctx.violation("C16.requests", site + "/kind", "%s (%s)" % (site, F.floc(fid)), "%s queues TransitionType::%s but logs %s" % (site, ek, lk), {})
            # destination: the argument before the kind in the Transition ctor; 4th argument of recordTransition
            dest = et[et.index("TransitionType::" + ek) - 1] if ek and ("TransitionType::" + ek) in et else (et[-2] if len(et) >= 2 else None)
            if ek and len(lt) >= 4:
                kpos = [i for i, y in enumerate(et) if y.endswith(ek)]
                if kpos:
                    dest = et[kpos[0] - 1]
                if lt[3] != dest:
                    ctx.violation("C16.requests", site + "/dest", "%s (%s)" % (site, F.floc(fid)),
                                  "%s queues a transition to `%s` but logs target `%s`" % (site, dest, lt[3]), {})
                origin = et[0] if kpos and kpos[0] >= 2 else "INVALID_STATE_ID"
                if lt[1] not in (origin,) and not (origin == "INVALID_STATE_ID" and lt[1] in ("INVALID_STATE_ID", "65535")):
                    ctx.violation("C16.requests", site + "/origin", "%s (%s)" % (site, F.floc(fid)),
                                  "%s queues a transition from `%s` but logs origin `%s`" % (site, origin, lt[1]), {})
    # (2) cancellation: every path that sets _cancelled logs it (when a logger is attached), with the origin
    for fid, b in insts(F, "GuardControlT", {"cancelPendingTransitions"}):
        site = "GuardControlT::cancelPendingTransitions"
        bad = None
        seen_log = False
        for p in paths_of(ctx, F, fid):
            sets = False
            logged = None
            conds = []
            for ev in p:
                if ev[0] == "assume":
                    conds.append((ev[2], ev[3]))
                if ev[0] == "write" and ev[2].endswith("._cancelled"):
                    sets = True
                    if ev[3] not in ("#True", "#1"):
                        bad = "_cancelled := %s" % ev[3]
                    if any("_cancelled" in c for c, _ in conds):
                        bad = "the cancellation (and its log) is conditional on the previous value of _cancelled: a second cancellation in the same pass is not reported"
                if ev[0] == "call" and ev[2] is not None and F.fn(ev[2])["name"] == "recordCancelledPending":
                    logged = ev[4]
                    seen_log = True
                    if any("_cancelled" in c for c, _ in conds):
                        bad = "the cancellation log is conditional on _cancelled: only the first cancellation of a pass is reported"
            if logged is not None and (len(logged) < 2 or not logged[1].endswith("._originId")):
                bad = bad or "cancellation logged with origin `%s`, expected _originId" % (logged[1] if len(logged) > 1 else None)
            if not sets:
                bad = bad or "a path does not set _cancelled"
        if not seen_log:
            bad = bad or "no path logs the cancellation"
        ctx.instance("C16.requests", site, {"function": site, "loc": F.floc(fid)})
        if bad:
            ctx.violation("C16.requests", site, "%s (%s)" % (site, F.floc(fid)), bad, {})
    # (3) task / plan status and resolutions
    for cls, names, rec in ((("R_", "FullControlBaseT"), {"succeed", "fail"}, "recordTaskStatus"), (("FullControlT",), {"updatePlan"}, "recordPlanStatus")):
        for c in cls:
            for fid, b in insts(F, c, names):
                if b["name"] in ("succeed", "fail") and not b.get("params"):
                    continue
                if not any(x.get("k") == "call" for x in walk(b["body"])):
                    continue
                site = "%s::%s" % (c, b["name"])
                evs = []
                for x in walk(b["body"]):
                    if x.get("k") == "call" and "f" in x and F.fn(x["f"])["name"] == rec:
                        evs.append(enum_name(x["a"][-1]))
                want = {"succeed": ["SUCCEEDED"], "fail": ["FAILED"], "updatePlan": ["FAILED", "SUCCEEDED"]}[b["name"]]
                ctx.instance("C16.requests", site, {"function": site, "loc": F.floc(fid), "status_events": evs})
                if sorted(evs) != sorted(want):
                    ctx.violation("C16.requests", site, "%s (%s)" % (site, F.floc(fid)), "%s logs status events %s, expected %s" % (site, evs, want), {})
    RES = {"deepRequestChangeSelectable": "recordSelectResolution", "deepRequestSelect": "recordSelectResolution", "deepReportChangeSelectable": "recordSelectResolution",
           "deepRequestChangeUtilitarian": "recordUtilityResolution", "deepRequestUtilize": "recordUtilityResolution",
           "deepReportChangeUtilitarian": "recordUtilityResolution", "deepReportUtilize": "recordUtilityResolution", "resolveRandom": "recordRandomResolution"}
    for fid, b in insts(F, "C_", set(RES)):
        site = "C_::" + b["name"]
        calls = [(F.fn(x["f"])["name"], [_expr_txt(y) for y in x.get("a", [])]) for x in walk(b["body"]) if x.get("k") == "call" and "f" in x
                 and F.fn(x["f"])["name"] in LOGGER_METHODS]
        ctx.instance("C16.requests", site, {"function": site, "loc": F.floc(fid), "logs": calls})
        # exactly one resolution event of the function's kind on every path (several sites are fine when they lie on different paths)
        bad = None
        bad_arg = None
        bad_order = None
        for p in sym_paths(F, fid, 2):
            ctx.paths += 1
            if any(ev[0] == "assume" and "logger" in ev[2] and not ev[3] for ev in p):
                continue      # no logger attached on this path: nothing can be logged
            logs = [F.fn(ev[2])["name"] for ev in p if ev[0] == "call" and ev[2] is not None and F.fn(ev[2])["name"] in LOGGER_METHODS]
            if logs != [RES[b["name"]]]:
                bad = logs
            # "in the order it happens": the resolution happens where the region's requested prong is written; nothing that can reach a user
            # callback or the logger (a structural deep* / wide* / wrap* walk) runs between that write and its report
            if b["name"] != "resolveRandom":
                wi = [i for i, ev in enumerate(p) if ev[0] == "write" and "compoRequested" in str(ev[2])]
                li = [i for i, ev in enumerate(p) if ev[0] == "call" and ev[2] is not None and F.fn(ev[2])["name"] == RES[b["name"]]]
                if wi and li:
                    between = [F.fn(ev[2]) for ev in p[wi[-1] + 1:li[0]] if ev[0] == "call" and ev[2] is not None]
                    late = ["%s::%s" % (f.get("cls"), f["name"]) for f in between if f.get("cls") in ("S_", "C_", "O_", "CS_", "OS_", "A_")
                            and f["name"] not in ("compoRequested", "compoActive", "compoResumable", "compoRemain", "orthoRequested")]
                    if li[0] < wi[-1]:
                        bad_order = "reports the resolution before the requested prong is written"
                    elif late:
                        bad_order = "reports the resolution only after %s ran: the callbacks and resolutions of the walk below it are logged first" % late
            # what is reported is what was resolved: the prong argument is the region's requested prong (resolveRandom: the value it returns)
            for ev in p:
                if ev[0] == "call" and ev[2] is not None and F.fn(ev[2])["name"] == RES[b["name"]]:
                    a = ev[4] or []
                    prong = a[2] if len(a) > 2 else None
                    if b["name"] == "resolveRandom":
                        rets = [e2[2] for e2 in p if e2[0] == "ret"]
                        if prong is None or not rets or rets[-1] != prong:
                            bad_arg = "logs prong `%s` but returns `%s`" % (prong, rets[-1] if rets else None)
                    elif prong is None or "compoRequested" not in prong:
                        bad_arg = "logs prong `%s`, not the region's requested prong (compoRequested[COMPO_INDEX])" % prong
        if bad is not None or not calls:
            ctx.violation("C16.requests", site, "%s (%s)" % (site, F.floc(fid)), "%s logs %s on a path, expected one %s" % (site, bad, RES[b["name"]]), {})
        if bad_order:
            ctx.violation("C16.requests", site + "/order", "%s (%s)" % (site, F.floc(fid)), "%s %s (the log no longer mirrors the order of events)" % (site, bad_order), {})
        if bad_arg:
            ctx.violation("C16.requests", site + "/prong", "%s (%s)" % (site, F.floc(fid)), "%s %s: the logger is told a resolution that did not happen" % (site, bad_arg), {})
        elif len(calls[0][1]) >= 3:
            head, prong = calls[0][1][1], calls[0][1][2]
            if head != "HEAD_ID" or prong not in ("requested", "i"):
                ctx.violation("C16.requests", site + "/ids", "%s (%s)" % (site, F.floc(fid)), "%s logs (head=%s, prong=%s), expected (HEAD_ID, chosen prong)" % (site, head, prong), {})


def check_detach(ctx, F):
    E = Effects(F)
    for fid, b in F.bodies.items():
        if not b["inst"] or not b.get("cls"):
            continue
        calls = [c for c in b.get("calls", ()) if F.fn(c)["name"] in LOGGER_METHODS or (F.fn(c)["name"] == "log" and F.fn(c).get("cls") == "S_")]
        if not calls or b["cls"] in ("LoggerInterfaceT",) or (b["cls"] == "S_" and b["name"] == "log"):
            continue
        site = "%s::%s" % (b["cls"], b["name"])
        bad = None
        for p in paths_of(ctx, F, fid):
            guards = []
            for ev in p:
                if ev[0] == "assume":
                    guards.append((ev[2], ev[3]))
                if ev[0] == "call" and ev[2] in calls:
                    ok = any(("logger" in g) and t for g, t in guards)
                    if not ok:
                        bad = "logger call %s is not guarded by the logger pointer" % F.fn(ev[2])["name"]
        ctx.instance("C16.detach", site, {"function": site, "loc": F.floc(fid)})
        if bad:
            ctx.violation("C16.detach", site, "%s (%s)" % (site, F.floc(fid)), bad, {})
    for fid, b in insts(F, "S_", {"log"}):
        w = E.direct(fid)
        if w:
            ctx.violation("C16.detach", "S_::log/effects", "S_::log (%s)" % F.floc(fid), "S_::log writes %s" % sorted(w), {})


APEX_LIFECYCLE = ("deepEnter", "deepExit", "deepChangeToRequested", "deepReenter")


def check_report(ctx, F):
    for cls in ("R_", "RV_"):
        for fid, b in F.bodies.items():
            if not b["inst"] or b.get("cls") != cls:
                continue
            direct = False
            for x in walk(b["body"]):
                if x.get("k") == "call" and "f" in x and x.get("obj") is not None and strip(x["obj"]).get("n") == "_apex" and F.fn(x["f"])["name"] in APEX_LIFECYCLE:
                    direct = True
            via = [c for c in b.get("calls", ()) if F.fn(c)["name"] in ("processTransitions",)]
            if not direct and not via:
                continue
            if b["name"] in ("processTransitions",):
                continue   # its only caller, processRequest, refreshes the report
            site = "%s::%s" % (cls, b["name"])
            bad = None
            for p in sym_paths(F, fid, 1):
                last_life = -1
                last_upd = -1
                for i, ev in enumerate(p):
                    if ev[0] == "call" and ev[2] is not None:
                        n = F.fn(ev[2])["name"]
                        if (n in APEX_LIFECYCLE and (ev[3] or "").endswith("._apex")) or n == "processTransitions":
                            last_life = i
                        elif n == "udpateActivity":
                            last_upd = i
                if last_life >= 0 and last_upd < last_life:
                    bad = "a path changes the active set (%s) and does not refresh the structure report afterwards" % F.fn(p[last_life][2])["name"]
            ctx.instance("C16.report", site, {"function": site, "loc": F.floc(fid)})
            if bad:
                ctx.violation("C16.report", site, "%s (%s)" % (site, F.floc(fid)), "%s: %s" % (site, bad), {})
    for fid, b in insts(F, "R_", {"udpateActivity"}):
        site = "R_::udpateActivity"
        loops = [x for x in walk(b["body"]) if x.get("k") == "for"]
        bad = None
        if len(loops) != 1:
            bad = "expected one loop over the states"
        else:
            l = loops[0]
            cond = _expr_txt(l.get("c") or {})
            if cond not in ("s<STATE_COUNT",):
                bad = "loop condition `%s`, expected s < STATE_COUNT" % cond
            asg = [_expr_txt(x) for x in walk(l["b"]) if x.get("k") == "asg" and "isActive" in _expr_txt(x["lhs"])]
            if asg != ["_structure[i].isActive=isActive(s)"] and [a.replace("this.", "") for a in asg] != ["_structure[i].isActive=isActive(s)"]:
                bad = bad or "activity assignment is %s, expected _structure[i].isActive = isActive(s)" % asg
            # i and s advance together from 0
            inits = {v["n"]: _expr_txt(v.get("init") or {}) for v in (l.get("init") or {}).get("vars", [])}
            incs = sorted(_expr_txt(x) for x in walk(l) if x.get("k") == "un" and x.get("op") == "++")
            if inits != {"s": "0", "i": "0"} or incs != ["++i", "++s"]:
                bad = bad or "report index and state id do not advance together from 0 (inits %s, increments %s)" % (inits, incs)
        ctx.instance("C16.report", site, {"function": site, "loc": F.floc(fid)})
        if bad:
            ctx.violation("C16.report", site, "%s (%s)" % (site, F.floc(fid)), bad, {})
    for fid, b in F.bodies.items():
        if b["inst"] and b.get("cls") == "R_" and b.get("kind") == "ctor" and len(b.get("params", [])) >= 1 and not (
                len(b["params"]) == 1 and b["params"][0].get("tid") == b.get("tid")):
            site = "R_::R_/%s" % ("rvalue-context" if "&&" in b["params"][0]["t"] else "context")
            names = [F.fn(c)["name"] for c in b.get("calls", ())]
            ctx.instance("C16.report", site, {"function": site, "loc": F.floc(fid)})
            if "getStateNames" not in names:
                ctx.violation("C16.report", site, "%s (%s)" % (site, F.floc(fid)), "constructor does not call getStateNames()", {})


def final(ctx):
    """the structure report's prefix buffer is sized by the type-level REVERSE_DEPTH (levels of the hierarchy): decided by the shape witness of
    C17 on a small family of deep / orthogonal shapes, under the structure-report configuration (static_asserts, clang -fsyntax-only)"""
    import os, shutil
    from .. import shapes as S
    from .. import facts as factsmod
    fam = [r for r in S.enumerate_shapes(6)][::7][:60] + S.mixed_shapes()[:24:3]
    gen = os.path.join(factsmod.CACHE, "c16wit", str(os.getpid()))
    os.makedirs(gen, exist_ok=True)
    try:
        body = []
        for i, root in enumerate(fam):
            txt, ex = S.emit_shape(i, root, ("STRUCTURE_REPORT",), strategy_seed=i)
            body.append(txt)
        path = os.path.join(gen, "c16_reverse_depth.cpp")
        with open(path, "w") as f:
            f.write("// generated - compiled with -fsyntax-only, never linked or run\n#include <hfsm2/machine.hpp>\n" + "\n".join(body) + "\n")
        r = S.compile_unit(path, factsmod.CONFIGS["report"])
        fails, other = S.parse_failures(r if isinstance(r, str) else r[1] if isinstance(r, tuple) else str(r))
        if other:
            raise AnalysisBroken("structure-report shape witness does not compile: %s" % other[0])
        bad = [x for x in fails if "REVERSE_DEPTH" in x["assertion"]]
        site = "Info::REVERSE_DEPTH"
        ctx.instance("C16.report", site, {"shapes": len(fam), "assertion": "Apex::REVERSE_DEPTH == levels of the hierarchy (sizes R_::Prefix)"})
        if bad:
            sm = sorted(bad, key=lambda x: len(x["shape"]))[0]
            ctx.violation("C16.report", site, "Info::REVERSE_DEPTH (structure/forward.hpp)",
                          "%d of %d shapes publish a wrong REVERSE_DEPTH (smallest: %s - %s): R_::Prefix is sized from it and getStateNames() writes "
                          "one prefix character per level" % (len(set(x["shape_id"] for x in bad)), len(fam), sm["shape"], sm["assertion"]), {})
    finally:
        shutil.rmtree(gen, ignore_errors=True)

