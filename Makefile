# builds the fact extractor (offline; clang 14 libTooling as installed)
LLVM_CXXFLAGS := $(shell llvm-config-14 --cxxflags)
build/hfx: tools/hfx/hfx.cc
	mkdir -p build
	clang++ $(LLVM_CXXFLAGS) -fno-rtti -O1 tools/hfx/hfx.cc -o build/hfx.new /usr/lib/llvm-14/lib/libclang-cpp.so.14 /usr/lib/llvm-14/lib/libLLVM-14.so
	mv -f build/hfx.new build/hfx
all: build/hfx
.PHONY: all
