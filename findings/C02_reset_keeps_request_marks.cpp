// C02, clauses "change: whichever of these the region was declared with (utilize: the highest
// utility)" and "reset() re-activates the machine exactly as its first activation would".
//
// After reset(), the first transition into a Utilitarian sub-region that LOST the evaluation done by
// reset() is not evaluated at all: the region enters the sub-state that had the highest utility at
// the time of the reset(). The same sequence without reset() (first activation) evaluates it.
//
// build: g++ -std=gnu++17 -I include found/3/demo.cpp -o demo

#define HFSM2_ENABLE_UTILITY_THEORY
#include <hfsm2/machine.hpp>
#include <cstdio>

struct Context {
	float uB1 = 0.1f;
	float uB2 = 0.9f;
};

using Config = hfsm2::Config::ContextT<Context&>;
using M = hfsm2::MachineT<Config>;

struct R; struct U; struct A; struct B; struct B1; struct B2; struct Other;

using FSM = M::Root<R,
				M::Utilitarian<U,
					A,
					M::Utilitarian<B,
						B1,
						B2
					>
				>,
				Other
			>;

struct R	 : FSM::State {};
struct U	 : FSM::State {};
struct A	 : FSM::State { float utility(const Control&  ) { return 0.9f; } };
struct B	 : FSM::State { float utility(const Control&  ) { return 0.1f; } };
struct B1	 : FSM::State { float utility(const Control& c) { return c.context().uB1; } };
struct B2	 : FSM::State { float utility(const Control& c) { return c.context().uB2; } };
struct Other : FSM::State {};

static void dump(const FSM::Instance& m, const char* what) {
	std::printf("%-34s U=%d A=%d B=%d B1=%d B2=%d\n", what,
				m.isActive<U>(), m.isActive<A>(), m.isActive<B>(), m.isActive<B1>(), m.isActive<B2>());
}

static bool run(const bool withReset) {
	Context context;				// B2 (0.9) beats B1 (0.1)
	FSM::Instance m{context};		// first activation: U picks A (0.9) over B (0.1 * 0.9)

	if (withReset)
		m.reset();					// same evaluation again

	dump(m, withReset ? "after reset()" : "after first activation");

	context.uB1 = 0.9f;				// now B1 beats B2
	context.uB2 = 0.1f;

	m.immediateChangeTo<B>();		// B is declared Utilitarian -> must pick the highest utility: B1
	dump(m, "  utilities swapped, changeTo<B>()");

	return m.isActive<B1>();
}

int main() {
	const bool okFirst = run(false);
	const bool okReset = run(true);

	std::printf("property demands: B (Utilitarian) enters B1, the sub-state with the highest utility (0.9 vs 0.1),\n"
				"                  after reset() exactly as after the first activation\n");
	std::printf("observed        : first activation -> %s, after reset() -> %s\n",
				okFirst ? "B1" : "B2", okReset ? "B1" : "B2 (choice made during reset(), utilities not consulted)");

	return okFirst && okReset ? 0 : 1;
}
