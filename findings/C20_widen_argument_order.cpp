// C20: "the bundled generators are fully determined by their seed".
// FloatRandomT<4>::uint64() / IntRandomT<4>::uint64() are `widen(uint32(), uint32())`: both arguments advance the generator and the order in
// which a function's arguments are evaluated is unspecified (g++ evaluates right to left, clang++ left to right), so the 64-bit output - and
// float64() built on it - of the 32-bit generators depends on the compiler, not only on the seed.
// Oracle: the first two 32-bit outputs of an identically seeded twin, combined in the order the expression spells: widen(first, second).
#define HFSM2_ENABLE_UTILITY_THEORY
#include <hfsm2/machine.hpp>
#include <cstdio>
#include <cstdint>

template <typename G>
int probe(const char* name) {
	G a{12345u}, b{12345u};
	const uint32_t first  = b.uint32();
	const uint32_t second = b.uint32();
	const uint64_t expect = (uint64_t{first} << 32) | second;		// = widen(first, second)
	const uint64_t got    = a.uint64();
	std::printf("%s: uint64() = %016llx, widen(first, second) = %016llx%s\n", name, (unsigned long long) got, (unsigned long long) expect,
				got == expect ? "" : "   <-- the two draws were combined in the other order");
	return got != expect;
}

int main() {
	int bad = 0;
	bad += probe<hfsm2::detail::FloatRandomT<4>>("FloatRandomT<4>");
	bad += probe<hfsm2::detail::IntRandomT  <4>>("IntRandomT<4>  ");
	return bad ? 1 : 0;
}
