// Replay: a Selectable region that is resolved through a utilitarian parent (C_::deepReportChangeSelectable) ignores its select():
// it resolves like a Resumable region (resumable, else first).   exit 1 = defect present
#define HFSM2_ENABLE_UTILITY_THEORY
#include <hfsm2/machine.hpp>
#include <cstdio>
using M = hfsm2::Machine;
#define S(s) struct s
using FSM = M::PeerRoot<S(I), M::Utilitarian<S(U), M::Selectable<S(Sel), S(S1), S(S2)>, S(L)>>;
#undef S
struct I : FSM::State {};
struct U : FSM::State {};
struct Sel : FSM::State {
	hfsm2::Prong select(const Control&) { return 1; }           // always S2
	Utility utility(const Control&) { return 2.0f; }
};
struct S1 : FSM::State {};
struct S2 : FSM::State {};
struct L : FSM::State { Utility utility(const Control&) { return 0.5f; } };
int main() {
	int bad = 0;
	{
		FSM::Instance m;
		m.immediateChangeTo<Sel>();        // direct: request flavour
		std::printf("changeTo<Sel>: S1=%d S2=%d\n", (int)m.isActive<S1>(), (int)m.isActive<S2>());
		if (!m.isActive<S2>()) ++bad;
	}
	{
		FSM::Instance m;
		m.immediateChangeTo<U>();          // through the utilitarian parent: report flavour
		std::printf("changeTo<U>  : Sel=%d S1=%d S2=%d\n", (int)m.isActive<Sel>(), (int)m.isActive<S1>(), (int)m.isActive<S2>());
		if (m.isActive<Sel>() && !m.isActive<S2>()) ++bad;
	}
	if (bad) std::printf("DEFECT: Selectable region did not pick the index returned by select()\n");
	return bad ? 1 : 0;
}
