// C06: "In a step in which a sub-state of a plan-owning region succeeds and none fails, while the head neither succeeds nor fails itself ...
// every such task is executed".
// ControlT::_taskStatus is one value per region scope and is only cleared when the scope is left.  C_::deepPostUpdate() runs the sub-states first
// and the head afterwards; S_::deepPostUpdate() of the head returns `control._taskStatus`, which still holds the sub-state's SUCCESS, and the
// region records it as the *head's* status.  deepUpdatePlans() then returns early (`if (h) return h;`): the plan is not advanced, although the
// head did nothing.  The same origin succeeding in update() (head first, subs second) advances the plan.
#define HFSM2_ENABLE_PLANS
#include <hfsm2/machine.hpp>
#include <cstdio>

using M = hfsm2::Machine;
struct R; struct A; struct B;
using FSM = M::Root<R, A, B>;

static bool g_in_post = false;

struct R : FSM::State {
	void enter(PlanControl& control) noexcept { control.plan().change<A, B>(); }
};
struct A : FSM::State {
	void update    (FullControl& control) noexcept { if (!g_in_post) control.succeed(); }
	void postUpdate(FullControl& control) noexcept { if ( g_in_post) control.succeed(); }
};
struct B : FSM::State {};

static bool run(const bool inPost) {
	g_in_post = inPost;
	FSM::Instance machine;
	machine.update();
	const bool advanced = machine.isActive<B>();
	std::printf("A succeeds in %s: plan task A -> B %s\n", inPost ? "postUpdate()" : "update()    ", advanced ? "executed" : "NOT executed");
	return advanced;
}

// the same value also leaks from a leaf of an orthogonal region into the head of the composite sibling that runs after it
namespace ortho {
struct O; struct L; struct H; struct X; struct Y;
using FSM = M::OrthogonalRoot<O, L, M::Composite<H, X, Y>>;
static bool g_leaf_succeeds = false;
struct O : FSM::State {};
struct L : FSM::State { void update(FullControl& control) noexcept { if (g_leaf_succeeds) control.succeed(); } };
struct H : FSM::State { void enter(PlanControl& control) noexcept { control.plan().change<X, Y>(); } };
struct X : FSM::State { void update(FullControl& control) noexcept { control.succeed(); } };
struct Y : FSM::State {};
static bool run(const bool leafSucceeds) {
	g_leaf_succeeds = leafSucceeds;
	FSM::Instance machine;
	machine.update();
	const bool advanced = machine.isActive<Y>();
	std::printf("X succeeds, orthogonal sibling leaf %s: plan task X -> Y %s\n", leafSucceeds ? "succeeds too" : "is silent    ", advanced ? "executed" : "NOT executed");
	return advanced;
}
}

int main() {
	const bool a = run(false);
	const bool b = run(true);
	const bool c = ortho::run(false);
	const bool d = ortho::run(true);
	return a && b && c && d ? 0 : 1;
}
