// C18: BitArrayT::operator & is not a set operation once the array spans more than one byte.
// Build: g++ -std=gnu++17 -I include found/1/demo.cpp -o demo
#include <hfsm2/machine.hpp>
#include <cstdio>

using hfsm2::detail::BitArrayT;

template <unsigned N>
static bool intersects(const BitArrayT<N>& a, const BitArrayT<N>& b) {
	for (unsigned i = 0; i < N; ++i)
		if (a.get(i) && b.get(i))
			return true;
	return false;
}

int main() {
	int violations = 0;

	// one byte: behaves as "the two sets intersect"
	{
		BitArrayT<8> a, b;
		a.set(0); b.set(0);
		printf("capacity  8: {0} & {0}         -> %d (model: %d)\n", int(a & b), int(intersects(a, b)));
		if ((a & b) != intersects(a, b)) ++violations;
	}

	// two bytes, identical non-empty sets
	{
		BitArrayT<16> a, b;
		a.set(0); b.set(0);
		printf("capacity 16: {0} & {0}         -> %d (model: %d)\n", int(a & b), int(intersects(a, b)));
		if ((a & b) != intersects(a, b)) ++violations;
	}

	// two bytes, a is a subset of b and they share index 3
	{
		BitArrayT<16> a, b;
		a.set(3);
		b.set(3); b.set(12);
		printf("capacity 16: {3} & {3,12}      -> %d (model: %d)\n", int(a & b), int(intersects(a, b)));
		if ((a & b) != intersects(a, b)) ++violations;
	}

	// exhaustive over all pairs of single-index sets {i}, {i}: a set always intersects itself
	{
		int wrong = 0;
		for (unsigned i = 0; i < 24; ++i) {
			BitArrayT<24> a, b;
			a.set(i); b.set(i);
			if (!(a & b)) ++wrong;
		}
		printf("capacity 24: {i} & {i} false for %d of 24 indices (model: 0)\n", wrong);
		violations += wrong;
	}

	printf("property C18 demands: whole-array 'and' is the set operation (true iff the sets share an index)\n");
	printf("violations: %d\n", violations);
	return violations ? 1 : 0;
}
