// Replay: a success mark set on the anonymous head of a head-less region survives the exit of that region.
// S_<EmptyT>::deepExit does not call planData.clearTaskStatus(STATE_ID) (the headed S_::deepExit does): after leaving and re-entering the
// region the stale mark makes the enclosing plan execute a task although nothing succeeded in that step.       exit 1 = defect present
#define HFSM2_ENABLE_PLANS
#include <hfsm2/machine.hpp>
#include <cstdio>
using M = hfsm2::Machine;

namespace headed {
#define S(s) struct s
using FSM = M::PeerRoot<M::Composite<S(Work), M::Composite<S(Inner), S(I1), S(I2)>, S(Other)>, S(Done)>;
#undef S
struct Work : FSM::State { void enter(PlanControl& c) { c.plan().change<Inner, Done>(); } };
struct Inner : FSM::State {};
struct I1 : FSM::State {}; struct I2 : FSM::State {}; struct Other : FSM::State {}; struct Done : FSM::State {};
int run() {
	FSM::Instance m;
	m.succeed<Inner>();                 // reported from outside ...
	m.immediateChangeTo<Other>();       // ... but the region is left before any update: the mark must go with it
	m.immediateChangeTo<Inner>();
	m.update();
	return m.isActive<Done>() ? 1 : 0;
}
}
namespace headless {
#define S(s) struct s
using FSM = M::PeerRoot<M::Composite<S(Work), M::CompositePeers<S(I1), S(I2)>, S(Other)>, S(Done)>;
#undef S
static const hfsm2::StateID INNER = 2;
struct Work : FSM::State { void enter(PlanControl& c) { c.plan().change(INNER, FSM::stateId<Done>()); } };
struct I1 : FSM::State {}; struct I2 : FSM::State {}; struct Other : FSM::State {}; struct Done : FSM::State {};
int run() {
	FSM::Instance m;
	m.succeed(INNER);
	m.immediateChangeTo<Other>();
	m.immediateChangeTo<I1>();
	m.update();
	return m.isActive<Done>() ? 1 : 0;
}
}
int main() {
	const int a = headed::run(), b = headless::run();
	std::printf("task executed from a mark set before the region was left and re-entered:  headed: %d   head-less: %d\n", a, b);
	if (a == 0 && b == 1) { std::printf("DEFECT: the mark of a head-less region's head survives the exit of the region\n"); return 1; }
	return 0;
}
