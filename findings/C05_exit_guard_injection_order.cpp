// C05: "Handlers injected through StateT<...> run before the state's own handler on the way down and after it on the way up."
// The exit guards are asked on the way up (sub-states before their head, like exit()): the state's own exitGuard() should run before the
// injected one.  S_::deepExitGuard() calls the injected chain first - unlike deepExit / deepPostUpdate / deepPostReact.
#include <hfsm2/machine.hpp>
#include <cstdio>
#include <string>

using M = hfsm2::Machine;
static std::string g_trace;
struct R; struct A; struct B;
using FSM = M::Root<R, A, B>;
struct Inj : FSM::State {
	void exitGuard(GuardControl&) noexcept { g_trace += "injected.exitGuard "; }
	void exit     (PlanControl& ) noexcept { g_trace += "injected.exit "; }
};
struct R : FSM::State {};
struct A : FSM::StateT<Inj> {
	void exitGuard(GuardControl&) noexcept { g_trace += "own.exitGuard "; }
	void exit     (PlanControl& ) noexcept { g_trace += "own.exit "; }
};
struct B : FSM::State {};

int main() {
	FSM::Instance m;
	m.changeTo<B>();
	m.update();
	std::printf("leaving A: %s\n", g_trace.c_str());
	const bool ok = g_trace == "own.exitGuard injected.exitGuard own.exit injected.exit ";
	if (!ok) std::printf("demanded : own.exitGuard injected.exitGuard own.exit injected.exit   (own handler first on the way up)\n");
	return ok ? 0 : 1;
}
