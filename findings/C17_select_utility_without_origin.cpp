// C17 (run-time clause): Control::stateId() seen by a callback must be the
// identifier of the state the callback belongs to ("Get current state's identifier").
// It is not inside select(), rank() and utility().
#define HFSM2_ENABLE_UTILITY_THEORY
#include <hfsm2/machine.hpp>
#include <cstdio>

using M = hfsm2::MachineT<hfsm2::Config>;

#define S(s) struct s
using FSM = M::PeerRoot<
				S(Idle),
				M::Utilitarian<S(U), S(U1), S(U2)>,
				M::Selectable <S(P), S(P1), S(P2)>,
				M::Random     <S(R), S(R1), S(R2)>
			>;
#undef S

static int checked = 0, wrong = 0;

static void report(const char* who, const char* what, hfsm2::StateID own, hfsm2::StateID seen) {
	++checked;
	if (own != seen) ++wrong;
	std::printf("  %-2s::%-7s own id %u, control.stateId() = %u%s\n",
				who, what, unsigned(own), unsigned(seen), own == seen ? "" : "   <-- WRONG");
}

#define ID(T) FSM::stateId<T>()

struct Idle : FSM::State {
	void enter (PlanControl& c) { report("Idle", "enter" , ID(Idle), c.stateId()); }
	void update(FullControl& c) {
		report("Idle", "update", ID(Idle), c.stateId());
		if (go == 1) c.utilize <U>();
		if (go == 2) c.select  <P>();
		if (go == 3) c.randomize<R>();
		go = 0;
	}
	static int go;
};
int Idle::go = 0;

struct U  : FSM::State {
	Rank	rank   (const Control& c) { report("U" , "rank"   , ID(U ), c.stateId()); return 0;	   }
	Utility utility(const Control& c) { report("U" , "utility", ID(U ), c.stateId()); return 1.0f; }
	void	enter  (PlanControl&   c) { report("U" , "enter"  , ID(U ), c.stateId()); }
};
struct U1 : FSM::State {
	Rank	rank   (const Control& c) { report("U1", "rank"   , ID(U1), c.stateId()); return 0;	   }
	Utility utility(const Control& c) { report("U1", "utility", ID(U1), c.stateId()); return 0.3f; }
};
struct U2 : FSM::State {
	Rank	rank   (const Control& c) { report("U2", "rank"   , ID(U2), c.stateId()); return 0;	   }
	Utility utility(const Control& c) { report("U2", "utility", ID(U2), c.stateId()); return 0.7f; }
	void	enter  (PlanControl&   c) { report("U2", "enter"  , ID(U2), c.stateId()); }
};
struct P  : FSM::State {
	hfsm2::Short select(const Control& c) { report("P" , "select" , ID(P ), c.stateId()); return 1; }
};
struct P1 : FSM::State {};
struct P2 : FSM::State {
	void	enter  (PlanControl&   c) { report("P2", "enter"  , ID(P2), c.stateId()); }
};

struct R  : FSM::State {};
struct R1 : FSM::State {
	Rank	rank   (const Control& c) { report("R1", "rank"   , ID(R1), c.stateId()); return 1;	   }
	Utility utility(const Control& c) { report("R1", "utility", ID(R1), c.stateId()); return 1.0f; }
};
struct R2 : FSM::State {
	Rank	rank   (const Control& c) { report("R2", "rank"   , ID(R2), c.stateId()); return 0;	   }
	Utility utility(const Control& c) { report("R2", "utility", ID(R2), c.stateId()); return 1.0f; }
};

int main() {
	FSM::Instance fsm;

	std::printf("utilize<U>() requested from Idle::update():\n");
	Idle::go = 1; fsm.update();
	fsm.immediateChangeTo<Idle>();

	std::printf("select<P>() requested from Idle::update():\n");
	Idle::go = 2; fsm.update();
	fsm.immediateChangeTo<Idle>();

	std::printf("randomize<R>() requested from Idle::update():\n");
	Idle::go = 3; fsm.update();
	fsm.immediateChangeTo<Idle>();

	std::printf("utilize<U>() requested from outside:\n");
	fsm.immediateUtilize<U>();

	std::printf("%d callbacks checked, %d saw a foreign identifier (property C17 demands 0)\n", checked, wrong);
	return wrong ? 1 : 0;
}
