// Replay: DynamicArrayT::emplace has no capacity test (HFSM2_ASSERT expands to nothing) and none of the request entry points tests
// capacity: queuing more transitions than the queue holds (COMPO_COUNT entries) writes past the instance.   exit 1 = defect present
#include <hfsm2/machine.hpp>
#include <cstdio>
#include <cstring>
#include <new>
using M = hfsm2::Machine;
#define S(s) struct s
using FSM = M::PeerRoot<S(A), S(B)>;       // one composite region: the request queue holds 1 transition
#undef S
struct A : FSM::State {};
struct B : FSM::State {};
struct Arena {
	alignas(FSM::Instance) unsigned char instance[sizeof(FSM::Instance)];
	unsigned char guard[4096];
};
int main() {
	static Arena arena;
	std::memset(arena.guard, 0xA5, sizeof(arena.guard));
	FSM::Instance* m = new (arena.instance) FSM::Instance{};
	for (int i = 0; i < 64; ++i)
		m->changeTo<B>();                   // documented use: requests are queued until update(); excess must be rejected
	unsigned damaged = 0;
	for (unsigned char c : arena.guard) damaged += c != 0xA5;
	std::printf("sizeof(Instance)=%zu, bytes overwritten *outside* the instance: %u\n", sizeof(FSM::Instance), damaged);
	if (damaged) std::printf("DEFECT: queuing 64 requests on a machine whose queue holds 1 wrote outside the instance\n");
	return damaged ? 1 : 0;
}
