// Replay: FullControlT::updatePlan ignores TaskBase::type: every plan task is executed as `changeTo` whatever kind it was created
// with.  A task created with plan.restart(origin, R) into a Resumable region R must restart R (first sub-state); it resumes instead.
// exit 1 = defect present
#define HFSM2_ENABLE_PLANS
#include <hfsm2/machine.hpp>
#include <cstdio>
using M = hfsm2::Machine;
#define S(s) struct s
using FSM = M::PeerRoot<M::Composite<S(P), S(T1), S(T2)>, M::Resumable<S(R), S(R1), S(R2)>>;
#undef S
struct P : FSM::State {};
struct T1 : FSM::State { void update(FullControl& c) { c.succeed(); } };
struct T2 : FSM::State {};
struct R : FSM::State {};
struct R1 : FSM::State {};
struct R2 : FSM::State {};
int main() {
	FSM::Instance m;
	m.immediateChangeTo<R2>();          // R/R2
	m.immediateChangeTo<T1>();          // leave R: R2 becomes resumable;  P/T1 active
	m.plan<P>().restart<T1, R>();       // task: when T1 succeeds, RESTART R
	m.update();                         // T1 succeeds -> task executes
	std::printf("R=%d R1=%d R2=%d\n", (int)m.isActive<R>(), (int)m.isActive<R1>(), (int)m.isActive<R2>());
	const bool bad = m.isActive<R>() && !m.isActive<R1>();
	if (bad) std::printf("DEFECT: a `restart` task into a resumable region resumed it (executed as changeTo)\n");
	return bad ? 1 : 0;
}
