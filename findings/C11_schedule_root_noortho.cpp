// C11: "no sequence of public API calls with valid state identifiers makes the library write outside the instance".
// The no-orthogonal registry's requestScheduled() indexes compoResumable[parent.forkId - 1] without checking that the state has a parent
// (only an assert, compiled out): scheduling the root (state 0, a valid identifier; the general registry ignores such a request)
// writes through an index derived from INVALID_FORK_ID - outside the array, for a small machine outside the instance.
#include <hfsm2/machine.hpp>
#include <cstdio>
#include <cstring>
#include <new>

using M = hfsm2::Machine;
struct R; struct A; struct B;
using FSM = M::Root<R, A, B>;                    // no orthogonal region: the compact registry
struct R : FSM::State {}; struct A : FSM::State {}; struct B : FSM::State {};

int main() {
	constexpr size_t GUARD = 70000;
	static unsigned char arena[GUARD + sizeof(FSM::Instance) + GUARD];
	std::memset(arena, 0xA5, sizeof(arena));
	FSM::Instance* m = new (arena + GUARD) FSM::Instance{};
	m->schedule<R>();                            // valid identifier (0)
	m->update();
	long first = -1; int touched = 0;
	for (size_t i = 0; i < sizeof(arena); ++i) {
		if (i >= GUARD && i < GUARD + sizeof(FSM::Instance)) continue;
		if (arena[i] != 0xA5) { ++touched; if (first < 0) first = (long) i - (long) GUARD; }
	}
	std::printf("sizeof(Instance) = %u; bytes changed outside the instance by schedule<Root>(): %d (first at offset %ld from its start)\n",
				(unsigned) sizeof(FSM::Instance), touched, first);
	m->~InstanceT();
	return touched ? 1 : 0;
}
