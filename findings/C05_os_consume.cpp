// Replay for finding C05.consume @ OS_<nonlast>::wide{PreReact,React,PostReact,Query}:
// an event consumed by the first leaf of an orthogonal region is still delivered to the next leaf sibling.
// Build: g++ -std=gnu++17 -I/repo/include C05_os_consume.cpp -o /tmp/c05 && /tmp/c05   (exit 1 = defect present)
#include <hfsm2/machine.hpp>
#include <cstdio>
struct Ev {};
struct Qy {};
static int delivered[2][4];
using M = hfsm2::Machine;
#define S(s) struct s
using FSM = M::PeerRoot<M::Orthogonal<S(O), S(L1), S(L2)>, S(X)>;
#undef S
struct O : FSM::State {};
struct L1 : FSM::State {
	void preReact(const Ev&, EventControl& c) { ++delivered[0][0]; c.consumeEvent(); }
	void react(const Ev&, EventControl& c) { ++delivered[0][1]; c.consumeEvent(); }
	void postReact(const Ev&, EventControl& c) { ++delivered[0][2]; c.consumeEvent(); }
	void query(Qy&, ConstControl& c) const { ++delivered[0][3]; c.consumeQuery(); }
};
struct L2 : FSM::State {
	void preReact(const Ev&, EventControl&) { ++delivered[1][0]; }
	void react(const Ev&, EventControl&) { ++delivered[1][1]; }
	void postReact(const Ev&, EventControl&) { ++delivered[1][2]; }
	void query(Qy&, ConstControl&) const { ++delivered[1][3]; }
};
struct X : FSM::State {};
int main() {
	FSM::Instance m;
	m.react(Ev{});
	Qy q;
	m.query(q);
	int bad = 0;
	const char* names[] = {"preReact", "react", "postReact", "query"};
	for (int i = 0; i < 4; ++i) {
		std::printf("%s: L1=%d L2=%d\n", names[i], delivered[0][i], delivered[1][i]);
		if (delivered[0][i] == 1 && delivered[1][i] != 0) ++bad;
	}
	if (bad) std::printf("DEFECT: %d phases delivered to L2 after L1 consumed\n", bad);
	return bad ? 1 : 0;
}
