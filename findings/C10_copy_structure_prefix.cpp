// Replay: with the structure report, R_::getStateNames stores &_prefixes[s][...] into _structure[s].prefix; the defaulted copy
// constructor copies those pointers, so a copy's structure() points into the original instance.    exit 1 = defect present
#define HFSM2_ENABLE_STRUCTURE_REPORT
#include <hfsm2/machine.hpp>
#include <cstdio>
#include <cstdint>
using M = hfsm2::Machine;
#define S(s) struct s
using FSM = M::Root<S(T), S(A), S(B)>;
#undef S
struct T : FSM::State {};
struct A : FSM::State {};
struct B : FSM::State {};
int main() {
	FSM::Instance* o = new FSM::Instance{};
	FSM::Instance c{*o};
	const auto& st = c.structure();
	int inside_original = 0, inside_copy = 0;
	for (unsigned i = 0; i < st.count(); ++i) {
		const std::uintptr_t p = reinterpret_cast<std::uintptr_t>(st[i].prefix);
		const std::uintptr_t ob = reinterpret_cast<std::uintptr_t>(o), cb = reinterpret_cast<std::uintptr_t>(&c);
		if (p >= ob && p < ob + sizeof(FSM::Instance)) ++inside_original;
		if (p >= cb && p < cb + sizeof(FSM::Instance)) ++inside_copy;
	}
	std::printf("copy's structure(): %d prefix pointers into the original, %d into the copy itself\n", inside_original, inside_copy);
	delete o;
	if (inside_original) std::printf("DEFECT: the copy's structure report points into the (now destroyed) original\n");
	return inside_original ? 1 : 0;
}
