// Replay: a headless region's anonymous head reports utility 0 (S_<empty>::wrapUtility / deepReportUtilize / deepReportChange return
// Utility{} where a headed state overriding nothing reports 1), so a headless nested region's utility is 0 * sub = 0.
// utilize<U>() with sub-regions {headless{0.9 leaf}, leaf 0.5} must pick the headless region (0.9 > 0.5).   exit 1 = defect present
#define HFSM2_ENABLE_UTILITY_THEORY
#include <hfsm2/machine.hpp>
#include <cstdio>
using M = hfsm2::Machine;
#define S(s) struct s
using FSM  = M::PeerRoot<S(I), M::Utilitarian<S(U), M::CompositePeers<S(H1), S(H2)>, S(L)>>;          // headless nested region
using FSM2 = M::PeerRoot<S(J), M::Utilitarian<S(V), M::Composite<S(K), S(K1), S(K2)>, S(N)>>;         // same, headed (head overrides nothing)
#undef S
struct I : FSM::State {};
struct U : FSM::State {};
struct H1 : FSM::State { Utility utility(const Control&) { return 0.9f; } };
struct H2 : FSM::State { Utility utility(const Control&) { return 0.1f; } };
struct L : FSM::State { Utility utility(const Control&) { return 0.5f; } };
struct J : FSM2::State {};
struct V : FSM2::State {};
struct K : FSM2::State {};
struct K1 : FSM2::State { Utility utility(const Control&) { return 0.9f; } };
struct K2 : FSM2::State { Utility utility(const Control&) { return 0.1f; } };
struct N : FSM2::State { Utility utility(const Control&) { return 0.5f; } };
int main() {
	FSM::Instance m;
	m.immediateUtilize<U>();
	FSM2::Instance n;
	n.immediateUtilize<V>();
	std::printf("headless: H1=%d L=%d   headed: K1=%d N=%d\n", (int)m.isActive<H1>(), (int)m.isActive<L>(), (int)n.isActive<K1>(), (int)n.isActive<N>());
	const bool bad = !(m.isActive<H1>()) && n.isActive<K1>();
	if (bad) std::printf("DEFECT: the headless region (best sub-state 0.9) lost against the 0.5 leaf; the headed twin wins\n");
	return bad ? 1 : 0;
}
