// Replay: a head-less plan-owning region does not pass its plan result on to the enclosing region.
// S_<EmptyT>::wrapPlanSucceeded / wrapPlanFailed are empty, while the default planSucceeded() / planFailed() of a head that overrides
// nothing call control.succeed() / control.fail() ("unless overridden these pass the result on to the enclosing region").
// The same machine is built twice: inner region headed by a state that overrides nothing (reference) and head-less.  exit 1 = defect present
#define HFSM2_ENABLE_PLANS
#include <hfsm2/machine.hpp>
#include <cstdio>
using M = hfsm2::Machine;

template <bool HEADLESS> struct Case;

// ---- reference: headed inner region -------------------------------------------------------------------------------------
namespace headed {
#define S(s) struct s
using FSM = M::PeerRoot<M::Composite<S(Work), M::Composite<S(Inner), S(I1), S(I2)>, S(Other)>, S(Done)>;
#undef S
struct Work : FSM::State {
	void enter(PlanControl& c) { c.plan().change<Inner, Done>(); }
};
struct Inner : FSM::State {                       // overrides nothing but enter (plan set-up)
	void enter(PlanControl& c) { c.plan().change<I1, I2>(); }
};
struct I1 : FSM::State { void update(FullControl& c) { c.succeed(); } };
struct I2 : FSM::State { void update(FullControl& c) { c.succeed(); } };
struct Other : FSM::State {};
struct Done : FSM::State {};
int run() {
	FSM::Instance m;
	for (int i = 0; i < 6 && !m.isActive<Done>(); ++i) m.update();
	return m.isActive<Done>() ? 1 : 0;
}
}
// ---- head-less inner region ---------------------------------------------------------------------------------------------
namespace headless {
#define S(s) struct s
using FSM = M::PeerRoot<M::Composite<S(Work), M::CompositePeers<S(I1), S(I2)>, S(Other)>, S(Done)>;
#undef S
static const hfsm2::StateID INNER = 2;            // the anonymous head of the inner region (Work = 1, inner head = 2, I1 = 3, I2 = 4)
struct Work : FSM::State {
	void enter(PlanControl& c) { c.plan().change(INNER, FSM::stateId<Done>()); }
};
struct I1 : FSM::State {
	void enter(PlanControl& c) { c.plan().change<I1, I2>(); }   // control.plan() is the plan of the region I1 lives in: the head-less one
	void update(FullControl& c) { c.succeed(); }
};
struct I2 : FSM::State { void update(FullControl& c) { c.succeed(); } };
struct Other : FSM::State {};
struct Done : FSM::State {};
int run() {
	FSM::Instance m;
	static_assert(FSM::stateId<I1>() == 3, "");
	for (int i = 0; i < 6 && !m.isActive<Done>(); ++i) m.update();
	return m.isActive<Done>() ? 1 : 0;
}
}
int main() {
	const int a = headed::run(), b = headless::run();
	std::printf("inner plan completed -> enclosing task executed:  headed inner region: %d   head-less inner region: %d\n", a, b);
	if (a == 1 && b == 0) { std::printf("DEFECT: the head-less region never reports its plan's success to the enclosing region\n"); return 1; }
	return 0;
}
