// C02: "... every requested destination and all its ancestors are active ..., later requests of a batch overriding earlier conflicting ones."
// RegistryT::requestImmediate() climbs from the destination towards the root; at the first composite ancestor that is already active on the
// right prong *and has nothing requested* it stops re-targeting (`break` out of the second loop) and only marks the remaining ancestors.
// An earlier request of the same batch that re-targeted a region further up (here: the root, towards Y) is therefore not overridden by a
// later request whose destination lies inside the currently active branch: the earlier request wins.
// The symmetric batch (the later request leaves the active branch) does override - shown for contrast.
#include <hfsm2/machine.hpp>
#include <cstdio>

using M = hfsm2::Machine;
struct R; struct X; struct A; struct A1; struct A2; struct B; struct Y;
using FSM = M::Root<R,
				M::Composite<X,
					M::Composite<A, A1, A2>,
					B
				>,
				Y
			>;
struct R : FSM::State {}; struct X : FSM::State {}; struct A : FSM::State {}; struct A1 : FSM::State {}; struct A2 : FSM::State {};
struct B : FSM::State {}; struct Y : FSM::State {};

int main() {
	int bad = 0;
	{
		FSM::Instance m;                         // X / A / A1
		m.changeTo<Y >();                        // earlier request: leave X
		m.changeTo<A2>();                        // later, conflicting request: stay in X, go to A2
		m.update();
		std::printf("batch [changeTo<Y>, changeTo<A2>]: A2 %d, Y %d   (expected A2 1, Y 0)\n", m.isActive<A2>(), m.isActive<Y>());
		bad += !m.isActive<A2>() || m.isActive<Y>();
	}
	{
		FSM::Instance m;
		m.changeTo<A2>();
		m.changeTo<Y >();                        // later request leaves the active branch: overrides
		m.update();
		std::printf("batch [changeTo<A2>, changeTo<Y>]: A2 %d, Y %d   (expected A2 0, Y 1)\n", m.isActive<A2>(), m.isActive<Y>());
		bad += m.isActive<A2>() || !m.isActive<Y>();
	}
	return bad ? 1 : 0;
}
