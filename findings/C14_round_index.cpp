// Replay: a step with two approved rounds (a guard approves and issues a follow-up request).  The follow-up request is recorded as
// previousTransitions()[1], but the states it activates are pinned with its index *within its own round* (0): lastTransitionTo<C>() then
// yields the first round's transition and payload.     exit 1 = defect present
#define HFSM2_ENABLE_TRANSITION_HISTORY
#include <hfsm2/machine.hpp>
#include <cstdio>
using Config = hfsm2::Config::PayloadT<int>;
using M = hfsm2::MachineT<Config>;
#define S(s) struct s
using FSM = M::PeerRoot<S(A), S(B), S(C)>;
#undef S
struct A : FSM::State {};
struct B : FSM::State { void entryGuard(GuardControl& c) { c.changeWith<C>(22); } };   // approves, and asks for more
struct C : FSM::State {};
int main() {
	FSM::Instance m;
	m.changeWith<B>(11);
	m.update();
	const auto& prev = m.previousTransitions();
	std::printf("active: A=%d B=%d C=%d; recorded %u transition(s):", (int)m.isActive<A>(), (int)m.isActive<B>(), (int)m.isActive<C>(), (unsigned)prev.count());
	for (unsigned i = 0; i < prev.count(); ++i) std::printf(" [->%u payload %d]", (unsigned)prev[i].destination, prev[i].payload() ? *prev[i].payload() : -1);
	const auto* t = m.lastTransitionTo<C>();
	const int p = t && t->payload() ? *t->payload() : -2;
	std::printf("\nlastTransitionTo<C>(): payload %d, destination %d\n", p, t ? (int)t->destination : -1);
	const bool bad = m.isActive<C>() && t && p != 22;
	if (bad) std::printf("DEFECT: the state activated by the follow-up request reports the first request's payload\n");
	return bad ? 1 : 0;
}
