// Replay: isPendingExit / isPendingChange answer true on an idle machine (nothing pending): the comparison with compoRequested does not
// exclude compoRequested == INVALID_PRONG.   exit 1 = defect present
#include <hfsm2/machine.hpp>
#include <cstdio>
using M = hfsm2::Machine;
#define S(s) struct s
using FSM  = M::PeerRoot<S(A), S(B)>;                                   // no orthogonal region: second RegistryT
using FSM2 = M::PeerRoot<S(C), M::Orthogonal<S(O), S(O1), S(O2)>>;      // general RegistryT
#undef S
struct A : FSM::State {};
struct B : FSM::State {};
struct C : FSM2::State {};
struct O : FSM2::State {};
struct O1 : FSM2::State {};
struct O2 : FSM2::State {};
int main() {
	FSM::Instance m;
	FSM2::Instance n;
	int bad = 0;
	std::printf("no-ortho: isPendingExit<A>=%d isPendingChange<A>=%d isPendingEnter<A>=%d\n", (int)m.isPendingExit<A>(), (int)m.isPendingChange<A>(), (int)m.isPendingEnter<A>());
	std::printf("general : isPendingExit<C>=%d isPendingChange<C>=%d isPendingEnter<C>=%d\n", (int)n.isPendingExit<C>(), (int)n.isPendingChange<C>(), (int)n.isPendingEnter<C>());
	bad += m.isPendingExit<A>() + m.isPendingChange<A>() + m.isPendingEnter<A>();
	bad += n.isPendingExit<C>() + n.isPendingChange<C>() + n.isPendingEnter<C>();
	if (bad) std::printf("DEFECT: %d pending queries are true while nothing is pending\n", bad);
	return bad ? 1 : 0;
}
