// C05: handlers injected through StateT<...> must run BEFORE the state's own handler
// on the way down (update / react / query) - query() runs them AFTER it.
//
// build: g++ -std=gnu++17 -I include found/1/demo.cpp -o demo

#include <hfsm2/machine.hpp>

#include <cstdio>
#include <string>

using M = hfsm2::Machine;

struct Ping {};							// event for react()
struct Ask { const char* answer = "nobody"; };	// query: the last writer wins

static std::string trace;

#define S(s) struct s
using FSM = M::PeerRoot<S(A), S(B)>;
#undef S

// shared behaviour injected into a state: gives the default answer
struct Defaults
	: FSM::State
{
	void update(FullControl&)					{ trace += "Defaults.update ";	}
	void react (const Ping&, EventControl&)		{ trace += "Defaults.react ";	}
	void query (Ask& ask, ConstControl&) const	{ trace += "Defaults.query ";	ask.answer = "Defaults"; }
};

// the state itself refines what the injected base does
struct A
	: FSM::StateT<Defaults>
{
	void update(FullControl&)					{ trace += "A.update ";			}
	void react (const Ping&, EventControl&)		{ trace += "A.react ";			}
	void query (Ask& ask, ConstControl&) const	{ trace += "A.query ";			ask.answer = "A"; }
};

struct B : FSM::State {};

int main() {
	FSM::Instance machine;

	trace.clear();
	machine.update();
	const std::string update = trace;

	trace.clear();
	machine.react(Ping{});
	const std::string react = trace;

	trace.clear();
	Ask ask;
	machine.query(ask);
	const std::string query = trace;

	printf("update(): %s\n", update.c_str());
	printf("react() : %s\n", react .c_str());
	printf("query() : %s   -> answer given by '%s'\n", query.c_str(), ask.answer);

	const bool updateOk = update == "Defaults.update A.update ";
	const bool reactOk  = react  == "Defaults.react A.react ";
	const bool queryOk  = query  == "Defaults.query A.query ";

	printf("property demands: injected handler first, the state's own handler second, for all three\n");

	if (updateOk && reactOk && !queryOk) {
		printf("VIOLATION: query() ran the state's own handler before the injected one "
			   "(the injected default overwrote the state's answer)\n");
		return 1;
	}

	return 0;
}
