// C09: "lastTransitionTo(s) ... after a single approved request, [points] at that request for every state it activated".
// Candidate: the sub-state a utilitarian / random / selectable region picks while resolving a changeTo<Region>() is activated by the request
// but may not be pinned to it.
#define HFSM2_ENABLE_UTILITY_THEORY
#define HFSM2_ENABLE_TRANSITION_HISTORY
#include <hfsm2/machine.hpp>
#include <cstdio>

using M = hfsm2::Machine;
struct R; struct A; struct U; struct S1; struct S2; struct C; struct C1; struct C2; struct Sel; struct T1; struct T2; struct Rnd; struct N1; struct N2;
using FSM = M::Root<R, A,
				M::Utilitarian<U, S1, S2>,
				M::Composite<C, C1, C2>,
				M::Selectable<Sel, T1, T2>,
				M::Random<Rnd, N1, N2>
			>;
struct R : FSM::State {}; struct A : FSM::State {};
struct U : FSM::State {}; struct S1 : FSM::State { Utility utility(const Control&) noexcept { return 0.1f; } }; struct S2 : FSM::State { Utility utility(const Control&) noexcept { return 0.9f; } };
struct C : FSM::State {}; struct C1 : FSM::State {}; struct C2 : FSM::State {};
struct Sel : FSM::State { hfsm2::Prong select(const Control&) noexcept { return 1; } }; struct T1 : FSM::State {}; struct T2 : FSM::State {};
struct Rnd : FSM::State {}; struct N1 : FSM::State {}; struct N2 : FSM::State {};

template <typename TRegion, typename TSub1, typename TSub2>
int probe(const char* name) {
	FSM::Instance m;
	m.changeTo<TRegion>();
	m.update();
	const bool one = m.isActive<TSub1>();
	const auto* head = m.lastTransitionTo<TRegion>();
	const auto* sub  = one ? m.lastTransitionTo<TSub1>() : m.lastTransitionTo<TSub2>();
	std::printf("%-12s: region pinned %d, activated sub-state (%s) pinned %d\n", name, head != nullptr, one ? "first" : "second", sub != nullptr);
	return !(head && sub);
}

int main() {
	int bad = 0;
	bad += probe<C,   C1, C2>("Composite");
	bad += probe<U,   S1, S2>("Utilitarian");
	bad += probe<Sel, T1, T2>("Selectable");
	bad += probe<Rnd, N1, N2>("Random");
	return bad ? 1 : 0;
}
