// C13, first clause: "isActive, activeSubState ... are mutually consistent at all times: for a
// composite-style region r, activeSubState(r) is the index of r's active sub-state".
//
// A composite region with exactly 256 sub-states compiles without any diagnostic, but its last
// sub-state gets prong 255 == INVALID_PRONG:
//   * isActive<Last>() answers true from construction on, together with the really active
//     sub-state (two "active" sub-states in one composite region, activeSubState() names the other);
//   * changeTo<Last>() is silently dropped - Last can never be entered.
// The neighbouring size 255 works.
//
// build: g++ -std=gnu++17 -I include found/4/demo.cpp -o demo      (takes ~30 s, ~2 GB)
#include <hfsm2/machine.hpp>
#include <cstdio>

using M = hfsm2::Machine;

template <int N> struct A;		// sub-states of the 256-wide region
template <int N> struct B;		// sub-states of the 255-wide region

#define X4(T, n)   T<n>, T<n + 1>, T<n + 2>, T<n + 3>
#define X16(T, n)  X4(T, n), X4(T, n + 4), X4(T, n + 8), X4(T, n + 12)
#define X64(T, n)  X16(T, n), X16(T, n + 16), X16(T, n + 32), X16(T, n + 48)

using FSM256 = M::Root<struct Top256, X64(A, 0), X64(A, 64), X64(A, 128), X64(A, 192)>;							// A<0> .. A<255>
using FSM255 = M::Root<struct Top255, X64(B, 0), X64(B, 64), X64(B, 128), X16(B, 192), X16(B, 208), X16(B, 224),
									  X4(B, 240), X4(B, 244), X4(B, 248), B<252>, B<253>, B<254>>;				// B<0> .. B<254>

static int enteredA = -1, enteredB = -1;

struct Top256 : FSM256::State {};
struct Top255 : FSM255::State {};
template <int N> struct A : FSM256::State { void enter(PlanControl&) { enteredA = N; } };
template <int N> struct B : FSM255::State { void enter(PlanControl&) { enteredB = N; } };

int main() {
	bool violated = false;

	{
		FSM255::Instance m;
		m.immediateChangeTo<B<254>>();
		printf("255 sub-states: changeTo<last>: entered B<%d>, isActive<last>=%d isActive<first>=%d activeSubState=%d\n",
			   enteredB, m.isActive<B<254>>(), m.isActive<B<0>>(), (int) m.activeSubState<Top255>());
	}
	{
		FSM256::Instance m;
		const bool lastActive0  = m.isActive<A<255>>();
		const bool firstActive0 = m.isActive<A<0>>();
		printf("256 sub-states: initially     : entered A<%d>, isActive<last>=%d isActive<first>=%d activeSubState=%d\n",
			   enteredA, lastActive0, firstActive0, (int) m.activeSubState<Top256>());

		m.immediateChangeTo<A<255>>();
		printf("256 sub-states: changeTo<last>: entered A<%d>, isActive<last>=%d isActive<first>=%d activeSubState=%d\n",
			   enteredA, m.isActive<A<255>>(), m.isActive<A<0>>(), (int) m.activeSubState<Top256>());

		printf("property demands: exactly one sub-state of a composite region is active, it is the one enter() was called for and activeSubState() names it\n");

		if (lastActive0 && firstActive0) {
			printf("VIOLATION: isActive<A<255>>() and isActive<A<0>>() are both true while activeSubState() == 0 and only A<0> was entered\n");
			violated = true;
		}
		if (enteredA != 255) {
			printf("VIOLATION: changeTo<A<255>>() was dropped (last enter() was for A<%d>) although isActive<A<255>>() == %d\n",
				   enteredA, m.isActive<A<255>>());
			violated = true;
		}
	}

	return violated ? 1 : 0;
}
