// Replay: R_::reset() never calls udpateActivity(): after reset() the structure report still shows the configuration from before.
// exit 1 = defect present
#define HFSM2_ENABLE_STRUCTURE_REPORT
#include <hfsm2/machine.hpp>
#include <cstdio>
using M = hfsm2::Machine;
#define S(s) struct s
using FSM = M::PeerRoot<S(A), S(B)>;
#undef S
struct A : FSM::State {};
struct B : FSM::State {};
int main() {
	FSM::Instance m;
	m.immediateChangeTo<B>();
	m.reset();                                  // back to A
	int bad = 0;
	const auto& st = m.structure();
	for (unsigned i = 0; i < st.count(); ++i) {
		const bool rep = st[i].isActive, act = m.isActive(static_cast<hfsm2::StateID>(i));
		std::printf("state %u: structure().isActive=%d isActive(id)=%d\n", i, (int)rep, (int)act);
		bad += rep != act;
	}
	if (bad) std::printf("DEFECT: structure() disagrees with isActive(id) for %d states after reset()\n", bad);
	return bad ? 1 : 0;
}
