// C06: a region head that OVERRIDES planFailed() / planSucceeded() (and neither calls fail() nor succeed())
// still has the result passed on to the enclosing plan owner: the enclosing head's
// planFailed() / planSucceeded() is called as if the default implementation had run.
//
// build: g++ -std=gnu++17 -I include found/5/demo.cpp -o demo

#define HFSM2_ENABLE_PLANS
#include <hfsm2/machine.hpp>

#include <cstdio>

using M = hfsm2::Machine;

struct Apex; struct P; struct R; struct X; struct Y; struct Q;

using FSM = M::Root<Apex,
				M::Composite<P,
					M::Composite<R, X, Y>,
					Q
				>
			>;

static bool xFails = false;
static int pSucceeded = 0, pFailed = 0, rSucceeded = 0, rFailed = 0;

struct Apex : FSM::State {};

struct P : FSM::State {
	// P owns a plan that has already run dry: one task, removed again
	void enter(PlanControl& control) {
		auto plan = control.plan();
		plan.change<Q, Q>();

		for (auto it = plan.begin(); it; ++it)
			it.remove();
	}

	void planSucceeded(FullControl&)	{ ++pSucceeded;	}
	void planFailed	  (FullControl&)	{ ++pFailed;	}
};

struct R : FSM::State {
	void enter(PlanControl& control)	{ control.plan().change<X, Y>();	}

	// R deals with the outcome of its plan itself:
	void planSucceeded(FullControl&) {
		++rSucceeded;						// keeps quiet about it
	}

	void planFailed(FullControl& control) {
		++rFailed;
		control.changeTo<X>();				// local recovery: start over
	}
};

struct X : FSM::State {
	void update(FullControl& control) {
		if (xFails)
			control.fail();
		else
			control.succeed();
	}
};

struct Y : FSM::State {
	void update(FullControl& control)	{ control.succeed();	}
};

struct Q : FSM::State {};

static void run(const bool xFails_) {
	xFails = xFails_;
	pSucceeded = pFailed = rSucceeded = rFailed = 0;

	FSM::Instance fsm;
	fsm.update();		// X fails				| X succeeds, task X->Y
	fsm.update();		// X fails again		| Y succeeds, R's plan is empty -> R::planSucceeded()

	std::printf("%-32s: R::planSucceeded=%d R::planFailed=%d | P::planSucceeded=%d P::planFailed=%d\n",
				xFails_ ? "X fails (2 steps)" : "X, then Y succeed (2 steps)",
				rSucceeded, rFailed, pSucceeded, pFailed);
}

int main() {
	run(true);
	const int pFailedSeen	 = pFailed;
	const int rFailedSeen	 = rFailed;

	run(false);
	const int pSucceededSeen = pSucceeded;
	const int rSucceededSeen = rSucceeded;

	std::printf("property C06: \"Unless overridden these [planSucceeded/planFailed] pass the result on to the enclosing region\" -\n"
				"              R overrides both and never calls succeed()/fail(), so P's head must not hear about R's plan\n");

	if ((rFailedSeen && pFailedSeen) || (rSucceededSeen && pSucceededSeen)) {
		std::printf("VIOLATION: P::planFailed() called %d time(s), P::planSucceeded() called %d time(s) for results R's overrides had absorbed\n",
					pFailedSeen, pSucceededSeen);
		return 1;
	}

	std::printf("no violation observed\n");
	return 0;
}
