// Replay: a headless selectable region (SelectablePeers) activates no sub-state.
// S_<empty>::wrapSelect returns INVALID_PRONG, which C_::deepRequestSelect / deepRequestChangeSelectable store as the
// requested prong; the region is entered with compoActive == INVALID (activeSubState == 255).
// exit 1 = defect present
#include <hfsm2/machine.hpp>
#include <cstdio>
using M = hfsm2::Machine;
#define S(s) struct s
using FSM = M::PeerRoot<S(A), M::SelectablePeers<S(B1), S(B2)>>;
#undef S
struct A : FSM::State {};
struct B1 : FSM::State {};
struct B2 : FSM::State {};
int main() {
	FSM::Instance m;
	m.immediateChangeTo<B1>();   // into B1: fine
	m.immediateChangeTo<A>();
	m.immediateChangeTo(FSM::stateId<B1>() - 1);   // into the headless region itself (its anonymous head)
	const auto region = static_cast<hfsm2::StateID>(FSM::stateId<B1>() - 1);
	const unsigned sub = m.activeSubState(region);
	std::printf("region active=%d activeSubState=%u B1=%d B2=%d\n", (int)m.isActive(region), sub, (int)m.isActive<B1>(), (int)m.isActive<B2>());
	const bool bad = m.isActive(region) && !(m.isActive<B1>() ^ m.isActive<B2>());
	if (bad) std::printf("DEFECT: active composite region without exactly one active sub-state\n");
	return bad ? 1 : 0;
}
