// C04: a round is vetoed only when a guard cancels it.
// S_::deepForwardExitGuard() of a leaf returns false (its entry twin returns true).  It is reached when an orthogonal region forwards the exit
// walk to all its prongs because none is marked - which is what a request aimed at an orthogonal *root* itself does (apex.deepRequest() sets the
// sub-regions' requested prongs but no orthogonal bit).  With a plain leaf among the root's sub-states the walk ends in that `false`:
// the round is vetoed although no guard exists, let alone cancels.
#include <hfsm2/machine.hpp>
#include <cstdio>

using M = hfsm2::Machine;

namespace with_leaf {
struct Apex; struct A; struct A1; struct A2; struct Leaf;
using FSM = M::OrthogonalRoot<Apex, M::Composite<A, A1, A2>, Leaf>;
struct Apex : FSM::State {}; struct A : FSM::State {}; struct A1 : FSM::State {}; struct A2 : FSM::State {}; struct Leaf : FSM::State {};
bool run() {
	FSM::Instance m;
	m.immediateChangeTo<A2>();
	m.immediateRestart<Apex>();                  // every region back to its first sub-state; nobody defines a guard
	std::printf("orthogonal root with a leaf sub-state   : after restart<Apex>() A1 is %s\n", m.isActive<A1>() ? "active" : "NOT active (round vetoed)");
	return m.isActive<A1>();
}
}
namespace regions_only {
struct Apex; struct A; struct A1; struct A2; struct B; struct B1; struct B2;
using FSM = M::OrthogonalRoot<Apex, M::Composite<A, A1, A2>, M::Composite<B, B1, B2>>;
struct Apex : FSM::State {}; struct A : FSM::State {}; struct A1 : FSM::State {}; struct A2 : FSM::State {}; struct B : FSM::State {}; struct B1 : FSM::State {}; struct B2 : FSM::State {};
bool run() {
	FSM::Instance m;
	m.immediateChangeTo<A2>();
	m.immediateRestart<Apex>();
	std::printf("orthogonal root with region sub-states  : after restart<Apex>() A1 is %s\n", m.isActive<A1>() ? "active" : "NOT active (round vetoed)");
	return m.isActive<A1>();
}
}
int main() {
	const bool a = regions_only::run();
	const bool b = with_leaf::run();
	return a && b ? 0 : 1;
}
