// Replay: replayEnter() refuses (returns false, replica stays inactive) when the recorded initial activation nets out to the default
// configuration: the authority's entry guards redirect Splash -> Loading -> Splash (two approved substitution rounds, both recorded);
// R_::applyRequests compares the registry with a back-up taken after the default requests, finds no difference and gives up.
// exit 1 = defect present
#define HFSM2_ENABLE_TRANSITION_HISTORY
#include <hfsm2/machine.hpp>
#include <cstdio>
using Config = hfsm2::Config::ManualActivation;
using M = hfsm2::MachineT<Config>;
#define S(s) struct s
using FSM = M::PeerRoot<S(Splash), S(Loading)>;
#undef S
static int redirects = 0;
struct Splash : FSM::State {
	void entryGuard(GuardControl& c) { if (redirects == 0) { ++redirects; c.changeTo<Loading>(); } }
};
struct Loading : FSM::State {
	void entryGuard(GuardControl& c) { if (redirects == 1) { ++redirects; c.changeTo<Splash>(); } }
};
int main() {
	FSM::Instance authority;
	authority.enter();
	const auto& rec = authority.previousTransitions();
	std::printf("authority: active=%d Splash=%d Loading=%d, recorded %u transition(s)\n", (int)authority.isActive(), (int)authority.isActive<Splash>(),
				(int)authority.isActive<Loading>(), (unsigned)rec.count());
	redirects = 99;                           // the replica's guards must not matter (replay does not consult guards)
	FSM::Instance replica;
	const bool ok = replica.replayEnter(rec);
	std::printf("replica: replayEnter returned %d, active=%d Splash=%d\n", (int)ok, (int)replica.isActive(), (int)replica.isActive<Splash>());
	const bool bad = rec.count() > 0 && authority.isActive<Splash>() && !replica.isActive<Splash>();
	if (bad) std::printf("DEFECT: the replica is not activated by the authority's own record\n");
	return bad ? 1 : 0;
}
