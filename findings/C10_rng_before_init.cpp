// Replay: InstanceT<..., RNGT<TUtility>, ...> lists its base RC_ (whose constructor performs the first activation, which may draw a
// random number) before the RNGT base it hands to it: the generator is used before it is constructed, so the first activation depends
// on what the storage held before.     exit 1 = defect present
#define HFSM2_ENABLE_UTILITY_THEORY
#include <hfsm2/machine.hpp>
#include <cstdio>
#include <cstring>
#include <new>
using M = hfsm2::Machine;                    // built-in RNGT<float>, automatic activation
#define S(s) struct s
using FSM = M::RandomPeerRoot<S(A), S(B), S(C), S(D)>;
#undef S
struct A : FSM::State {};
struct B : FSM::State {};
struct C : FSM::State {};
struct D : FSM::State {};
static unsigned activeAfterConstruction(unsigned char fill) {
	alignas(FSM::Instance) static unsigned char storage[sizeof(FSM::Instance)];
	std::memset(storage, fill, sizeof(storage));
	FSM::Instance* m = new (storage) FSM::Instance{};
	const unsigned sub = m->activeSubState(0);
	m->~InstanceT();
	return sub;
}
int main() {
	const unsigned fills[] = {0x00, 0xFF, 0x5A, 0x13, 0xC7};
	unsigned first = activeAfterConstruction(fills[0]);
	bool differ = false;
	for (unsigned f : fills) {
		const unsigned s = activeAfterConstruction((unsigned char)f);
		std::printf("storage pre-filled with 0x%02X -> initial sub-state %u\n", f, s);
		differ |= s != first;
	}
	if (differ) std::printf("DEFECT: the first activation depends on the previous content of the instance's storage\n");
	return differ ? 1 : 0;
}
