// Replay: select into a region whose selected sub-state is itself a region: C_::deepRequestSelect /
// deepRequestChangeSelectable never descend, so the nested region is entered without a requested prong.
// exit 1 = defect present
#include <hfsm2/machine.hpp>
#include <cstdio>
using M = hfsm2::Machine;
#define S(s) struct s
using FSM = M::PeerRoot<S(A), M::Selectable<S(Sel), S(X), M::Composite<S(N), S(N1), S(N2)>>>;
#undef S
struct A : FSM::State {};
struct Sel : FSM::State { hfsm2::Prong select(const Control&) { return 1; } };
struct X : FSM::State {};
struct N : FSM::State {};
struct N1 : FSM::State {};
struct N2 : FSM::State {};
int main() {
	int bad = 0;
	{
		FSM::Instance m;
		m.immediateSelect<Sel>();
		std::printf("select:  Sel=%d N=%d N1=%d N2=%d sub(N)=%u\n", (int)m.isActive<Sel>(), (int)m.isActive<N>(), (int)m.isActive<N1>(), (int)m.isActive<N2>(), (unsigned)m.activeSubState<N>());
		if (m.isActive<N>() && !(m.isActive<N1>() ^ m.isActive<N2>())) ++bad;
	}
	{
		FSM::Instance m;
		m.immediateChangeTo<Sel>();
		std::printf("change:  Sel=%d N=%d N1=%d N2=%d sub(N)=%u\n", (int)m.isActive<Sel>(), (int)m.isActive<N>(), (int)m.isActive<N1>(), (int)m.isActive<N2>(), (unsigned)m.activeSubState<N>());
		if (m.isActive<N>() && !(m.isActive<N1>() ^ m.isActive<N2>())) ++bad;
	}
	if (bad) std::printf("DEFECT: nested region active with no active sub-state (%d cases)\n", bad);
	return bad ? 1 : 0;
}
