// C17 (run-time clause, "plan/region bounds" seen by each callback):
// the region a callback's control is scoped to must be the region the state
// was declared in. control.plan() ("access plan for the current region")
// resolves to the right region in enter()/update(), but to an ENCLOSING
// region in exit().
#define HFSM2_ENABLE_PLANS
#include <hfsm2/machine.hpp>
#include <cstdio>

using M = hfsm2::MachineT<hfsm2::Config>;

#define S(s) struct s
using FSM = M::Root<S(Apex),
				M::Composite<S(A),
					M::Composite<S(AA), S(AA1), S(AA2)>,
					S(AB)
				>,
				S(B), S(C)
			>;
#undef S

static_assert(FSM::regionId<Apex>() == 0, "");
static_assert(FSM::regionId<A   >() == 1, "");
static_assert(FSM::regionId<AA  >() == 2, "");

struct Apex : FSM::State {};
struct A    : FSM::State {};
struct AA   : FSM::State {};
struct AA1  : FSM::State {
	void enter(PlanControl& control) {
		// the leaf lives in region AA: this lands in AA's plan
		control.plan().change<AA1, AA2>();
	}
	void exit(PlanControl& control) {
		// "tidy up my region's plan when I leave" - clears some other region's plan
		control.plan().clear();
	}
};
struct AA2  : FSM::State {};
struct AB   : FSM::State {};
struct B    : FSM::State {};
struct C    : FSM::State {};

static const char* yn(bool b) { return b ? "has tasks" : "empty"; }

int main() {
	FSM::Instance fsm;					// Apex, A, AA, AA1 active; AA1::enter() planned AA1 -> AA2

	fsm.plan<Apex>().change<B, C>();	// the root's own plan, none of AA1's business

	const bool rootBefore = !!fsm.plan<Apex>();
	const bool aaBefore	  = !!fsm.plan<AA  >();

	std::printf("before: plan<Apex> %s, plan<AA> %s\n", yn(rootBefore), yn(aaBefore));

	fsm.immediateChangeTo<B>();			// Apex switches prong: A, AA, AA1 exit; AA1::exit() calls control.plan().clear()

	const bool rootAfter = !!fsm.plan<Apex>();
	const bool aaAfter	 = !!fsm.plan<AA  >();

	std::printf("after AA1::exit() { control.plan().clear(); }: plan<Apex> %s, plan<AA> %s\n", yn(rootAfter), yn(aaAfter));
	std::printf("demanded: control.plan() in AA1::exit() is region AA's plan (id %u), as in AA1::enter(): "
				"plan<Apex> keeps its task, plan<AA> is emptied\n", unsigned(FSM::regionId<AA>()));

	const bool violated = rootBefore && aaBefore && (!rootAfter || aaAfter);
	std::printf(violated ? "VIOLATION: exit() ran scoped to an enclosing region\n" : "ok\n");

	return violated ? 1 : 0;
}
