// C09: "lastTransitionTo(s) ... after a single approved request, [points] at that request for every state it activated".
// Pins (transitionTargets) are written when a request is *applied*, before its round is judged:
//  (i)  a later round that is vetoed clears the whole pin table (processTransitions: transitionTargets.clear()), including the pins of the round
//       that was approved before it;
//  (ii) a later round that changes nothing (the same request issued again by a guard) is dropped, but has already re-pinned the states with an
//       index past the end of the record.
// In both steps exactly one request is approved and recorded, and the state it activates ends up with lastTransitionTo() == nullptr.
#define HFSM2_ENABLE_TRANSITION_HISTORY
#include <hfsm2/machine.hpp>
#include <cstdio>

using M = hfsm2::Machine;
static int g_mode = 0;          // 1: B's entry guard requests C, C's entry guard cancels;  2: B's entry guard re-issues changeTo<B>()
struct R; struct A; struct B; struct C;
using FSM = M::Root<R, A, B, C>;
struct R : FSM::State {};
struct A : FSM::State {};
struct B : FSM::State {
	void entryGuard(GuardControl& control) noexcept {
		static int reissued = 0;
		if (g_mode == 1) control.changeTo<C>();
		if (g_mode == 2 && reissued++ == 0) control.changeTo<B>();
	}
};
struct C : FSM::State { void entryGuard(GuardControl& control) noexcept { control.cancelPendingTransitions(); } };

static int run(const int mode, const char* what) {
	g_mode = mode;
	FSM::Instance m;
	m.changeTo<B>();
	m.update();
	const bool inB = m.isActive<B>();
	const unsigned recorded = m.previousTransitions().count();
	const bool pinned = m.lastTransitionTo<B>() != nullptr;
	std::printf("%-44s: B active %d, recorded requests %u, lastTransitionTo<B>() %s\n", what, inB, recorded, pinned ? "set" : "NULL");
	return inB && recorded == 1 && !pinned;
}

int main() {
	int bad = 0;
	bad += run(0, "single round");
	bad += run(1, "approved round, then a vetoed round");
	bad += run(2, "approved round, then a round changing nothing");
	return bad ? 1 : 0;
}
