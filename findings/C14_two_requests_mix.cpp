// Replay: two payload requests into different orthogonal sub-regions in one step; each activated state must see the payload of
// the request that activated it (lastTransitionTo<>(), and currentTransitions()/lastTransition() while being entered).   exit 1 = mixing
#define HFSM2_ENABLE_TRANSITION_HISTORY
#include <hfsm2/machine.hpp>
#include <cstdio>
using Config = hfsm2::Config::PayloadT<int>;
using M = hfsm2::MachineT<Config>;
#define S(s) struct s
using FSM = M::OrthogonalPeerRoot<M::CompositePeers<S(A1), S(A2)>, M::CompositePeers<S(B1), S(B2)>>;
#undef S
static int seenA2 = -1, seenB2 = -1;
struct A1 : FSM::State {}; struct B1 : FSM::State {};
struct A2 : FSM::State { void enter(PlanControl& c) { const auto* t = c.lastTransition(); seenA2 = t && t->payload() ? *t->payload() : -2; } };
struct B2 : FSM::State { void enter(PlanControl& c) { const auto* t = c.lastTransition(); seenB2 = t && t->payload() ? *t->payload() : -2; } };
int main() {
	FSM::Instance m;
	m.changeWith<A2>(11);
	m.changeWith<B2>(22);
	m.update();
	const auto* ta = m.lastTransitionTo<A2>();
	const auto* tb = m.lastTransitionTo<B2>();
	const int pa = ta && ta->payload() ? *ta->payload() : -2, pb = tb && tb->payload() ? *tb->payload() : -2;
	std::printf("A2 active=%d B2 active=%d | during enter: A2 saw %d, B2 saw %d | afterwards lastTransitionTo: A2 %d, B2 %d\n", (int)m.isActive<A2>(), (int)m.isActive<B2>(), seenA2, seenB2, pa, pb);
	const bool bad = m.isActive<A2>() && m.isActive<B2>() && (pa != 11 || pb != 22 || seenA2 != 11 || seenB2 != 22);
	if (bad) std::printf("DEFECT: payloads of two requests of one step are mixed up\n");
	return bad ? 1 : 0;
}
