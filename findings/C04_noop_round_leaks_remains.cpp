// C04: a request issued by a guard that is never shown to any guard as pending (its round is dropped as
// "changes nothing") still decides which lifecycle callbacks run and wipes a resumable sub-state.
//
// build: g++ -std=gnu++17 -I include found/2/demo.cpp -o demo

#define HFSM2_ENABLE_TRANSITION_HISTORY
#include <hfsm2/machine.hpp>

#include <cstdio>
#include <cstring>

struct Trace {
	bool redundantRequest = false;		// does A::entryGuard() issue the extra request?
	bool sawA1Pending	  = false;		// was changeTo<A1>() ever visible to a guard as pending?
	char text[512] = "";

	void add(const char* s) { std::strcat(text, s); std::strcat(text, " "); }
};

using M = hfsm2::MachineT<hfsm2::Config::ContextT<Trace&>>;

#define S(s) struct s
using FSM = M::Root<S(Root),
				M::Composite<S(A),
					S(A1),
					S(A3)
				>,
				S(B)
			>;
#undef S

template <typename TControl>
void lookForA1(TControl& control);

struct Root : FSM::State {};
struct B	: FSM::State {};

struct A : FSM::State {
	void entryGuard(GuardControl& control);
	void exitGuard (GuardControl& control)	{ lookForA1(control);				}
	void enter	   (PlanControl&  control)	{ control.context().add("A.enter");	}
	void reenter   (PlanControl&  control)	{ control.context().add("A.reenter");	}
	void exit	   (PlanControl&  control)	{ control.context().add("A.exit");	}
};

struct A1 : FSM::State {
	void entryGuard(GuardControl& control)	{ lookForA1(control);					}
	void exitGuard (GuardControl& control)	{ lookForA1(control);					}
	void enter	   (PlanControl&  control)	{ control.context().add("A1.enter");	}
	void reenter   (PlanControl&  control)	{ control.context().add("A1.reenter");	}
	void exit	   (PlanControl&  control)	{ control.context().add("A1.exit");		}
};

struct A3 : FSM::State {};

template <typename TControl>
void lookForA1(TControl& control) {
	const auto& pending = control.pendingTransitions();

	for (unsigned i = 0; i < pending.count(); ++i)
		if (pending[i].destination == FSM::stateId<A1>())
			control.context().sawA1Pending = true;
}

void A::entryGuard(GuardControl& control) {
	lookForA1(control);

	// A1 is where the pending changeTo<A>() goes anyway - this request "changes nothing"
	if (control.context().redundantRequest)
		control.changeTo<A1>();
}

struct Outcome {
	char text[512];
	bool resumableA3;
	unsigned recorded;
	bool sawA1Pending;
};

Outcome run(const bool redundantRequest) {
	Trace trace;
	FSM::Instance fsm{trace};

	fsm.immediateChangeTo<A3>();
	fsm.immediateChangeTo<A1>();		// A1 active, A3 resumable

	trace = Trace{};
	trace.redundantRequest = redundantRequest;

	fsm.changeTo<A>();					// self-transition of the active region A
	fsm.update();

	Outcome o;
	std::strcpy(o.text, trace.text);
	o.resumableA3  = fsm.isResumable<A3>();
	o.recorded	   = fsm.previousTransitions().count();
	o.sawA1Pending = trace.sawA1Pending;

	return o;
}

int main() {
	const Outcome plain = run(false);
	const Outcome extra = run(true);

	std::printf("changeTo<A>() alone                          : %s| A3 resumable: %d | recorded transitions: %u\n",
				plain.text, plain.resumableA3, plain.recorded);
	std::printf("+ changeTo<A1>() issued by A::entryGuard()    : %s| A3 resumable: %d | recorded transitions: %u | a guard saw it pending: %d\n",
				extra.text, extra.resumableA3, extra.recorded, extra.sawA1Pending);

	const bool sameOutcome = std::strcmp(plain.text, extra.text) == 0 && plain.resumableA3 == extra.resumableA3;

	if (!extra.sawA1Pending && extra.recorded == plain.recorded && !sameOutcome) {
		std::printf("VIOLATION (C04): the guard's request never went through a guard round (no guard saw it pending, it is not in\n"
					"  previousTransitions()), yet because of it A and A1 were exited and entered instead of re-entered and the\n"
					"  resumable sub-state A3 was forgotten; the property demands that a request either passes the guards as a\n"
					"  pending transition or has no effect\n");
		return 1;
	}

	std::printf("ok: the dropped request had no effect\n");
	return 0;
}
