// C12 - randomize must never activate a sub-state whose utility is zero.
//
// Random region R { A (0.09), B (0.6), Z (0.0) }, all of the same rank.
// The generator is the bundled hfsm2::FloatRandom, seeded so that its first output is
// 1 - 2^-23 (the largest value uniform(uint32_t) can produce - a legal output in [0,1)).
//
// build: g++ -std=gnu++17 -I include found/1/demo.cpp -o demo

#define HFSM2_ENABLE_UTILITY_THEORY
#include <hfsm2/machine.hpp>

#include <cstdio>

using Config = hfsm2::Config::RandomT<hfsm2::FloatRandom>;
using M = hfsm2::MachineT<Config>;

#define S(s) struct s
using FSM = M::Root<S(Apex),
				S(Idle),
				M::Random<S(R),
					S(A),
					S(B),
					S(Z)
				>
			>;
#undef S

struct Apex : FSM::State {};
struct Idle : FSM::State {};
struct R    : FSM::State {};
struct A    : FSM::State { Utility utility(const Control&) { return 0.09f; } };
struct B    : FSM::State { Utility utility(const Control&) { return 0.6f;  } };
struct Z    : FSM::State { Utility utility(const Control&) { return 0.0f;  } };	// must never be picked

int main() {
	const uint64_t seed = 2984700;

	{
		hfsm2::FloatRandom probe{seed};
		const float r = probe.next();
		std::printf("generator output used for the choice: %.9g (%a), in [0,1): %s\n",
					r, r, (0.0f <= r && r < 1.0f) ? "yes" : "no");
	}

	hfsm2::FloatRandom generator{seed};
	FSM::Instance machine{generator};			// Idle is active, no random number consumed yet

	machine.immediateRandomize<R>();

	const char* const active =
		machine.isActive<A>() ? "A (utility 0.09)" :
		machine.isActive<B>() ? "B (utility 0.6)"  :
		machine.isActive<Z>() ? "Z (utility 0)"    : "none";

	std::printf("observed: randomize<R>() activated %s\n", active);
	std::printf("demanded: r * (0.09 + 0.6) = 0.68999.. lies in B's interval [0.09, 0.69); "
				"a zero-utility sub-state is never chosen\n");

	if (machine.isActive<Z>()) {
		std::printf("VIOLATION: the zero-utility sub-state was activated\n");
		return 1;
	}

	return 0;
}
