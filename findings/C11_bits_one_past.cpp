// Replay (needs AddressSanitizer): BitArrayT::Bits/CBits::operator bool reads _storage[_width / 8] even when _width is a multiple
// of 8, i.e. one byte past a view that ends at the end of the array.
// Build: clang++ -std=gnu++17 -fsanitize=address -g -I/repo/include C11_bits_one_past.cpp ; exit != 0 (ASan report) = defect present
#include <hfsm2/machine.hpp>
#include <cstdio>
int main() {
	using Array = hfsm2::detail::BitArrayT<8>;                 // exactly one storage unit
	Array* a = new Array{};                                    // heap: the byte after it is not ours
	const Array& ca = *a;
	const bool any = static_cast<bool>(ca.cbits<0, 8>());      // view over the whole array, width 8
	std::printf("any=%d\n", (int)any);
	delete a;
	return 0;
}
