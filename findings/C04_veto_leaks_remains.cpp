// Replay: a vetoed round leaks RegistryT::compoRemains (it is in none of BackUp / backup() / restore() / operator!=).
// Scenario: region A{A1,A2} active in A1.  Request changeTo<A2>; A2's entry guard cancels it and substitutes changeTo<A>.
// A stand-alone changeTo<A> re-enters A (reenter()).  After the vetoed round the same substituted request instead exits
// and enters A: the cancelled round took effect on how the next one is applied.      exit 1 = defect present
#include <hfsm2/machine.hpp>
#include <cstdio>
#include <cstring>
static char trace[256];
static void log(const char* s) { std::strcat(trace, s); std::strcat(trace, " "); }
static bool veto = false;
using M = hfsm2::Machine;
#define S(s) struct s
using FSM = M::PeerRoot<M::Composite<S(A), S(A1), S(A2)>, S(B)>;
#undef S
struct A : FSM::State {
	void enter(PlanControl&) { log("A.enter"); }
	void reenter(PlanControl&) { log("A.reenter"); }
	void exit(PlanControl&) { log("A.exit"); }
};
struct A1 : FSM::State {
	void enter(PlanControl&) { log("A1.enter"); }
	void reenter(PlanControl&) { log("A1.reenter"); }
	void exit(PlanControl&) { log("A1.exit"); }
};
struct A2 : FSM::State {
	void entryGuard(GuardControl& c) {
		if (veto) { c.cancelPendingTransitions(); c.changeTo<A>(); }
	}
	void enter(PlanControl&) { log("A2.enter"); }
};
struct B : FSM::State {};
int main() {
	char plain[256], afterVeto[256];
	{
		FSM::Instance m;
		trace[0] = 0;
		m.immediateChangeTo<A>();                 // stand-alone request
		std::strcpy(plain, trace);
	}
	{
		FSM::Instance m;
		trace[0] = 0;
		veto = true;
		m.immediateChangeTo<A2>();                // vetoed; guard substitutes changeTo<A>
		std::strcpy(afterVeto, trace);
	}
	std::printf("changeTo<A> alone          : %s\n", plain);
	std::printf("vetoed changeTo<A2> -> <A> : %s\n", afterVeto);
	const bool bad = std::strcmp(plain, afterVeto) != 0;
	if (bad) std::printf("DEFECT: the vetoed round changed how the substituted request is applied\n");
	return bad ? 1 : 0;
}
