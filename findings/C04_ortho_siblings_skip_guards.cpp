// C04: a sub-state of an orthogonal region is exited / entered although neither its exit guard
// nor the entry guard of its successor was invoked in the (only, approved) processing round.
//
// build: g++ -std=gnu++17 -I include found/1/demo.cpp -o demo

#include <hfsm2/machine.hpp>

#include <cstdio>
#include <cstring>

struct Trace {
	char text[1024] = "";
	int  exitGuardN2  = 0;
	int  entryGuardN1 = 0;
	int  exitN2  = 0;
	int  enterN1 = 0;

	void add(const char* s) { std::strcat(text, s); std::strcat(text, " "); }
};

using M = hfsm2::MachineT<hfsm2::Config::ContextT<Trace&>>;

#define S(s) struct s
using FSM = M::Root<S(Root),
				M::Orthogonal<S(O),
					M::Composite<S(Q),
						M::Composite<S(Q2),
							S(Q2a),
							S(Q2b)
						>,
						S(Q1)
					>,
					M::Composite<S(N),
						S(N1),
						S(N2)
					>
				>,
				S(B)
			>;
#undef S

struct Root : FSM::State {};
struct O    : FSM::State {};
struct Q    : FSM::State {};
struct Q2   : FSM::State {};
struct Q2a  : FSM::State {};
struct Q2b  : FSM::State {};
struct Q1   : FSM::State {};
struct N    : FSM::State {};
struct B    : FSM::State {};

struct N1 : FSM::State {
	void entryGuard(GuardControl& control) { ++control.context().entryGuardN1; control.context().add("N1.entryGuard"); }
	void enter	   (PlanControl&  control) { ++control.context().enterN1;	   control.context().add("N1.enter");	   }
};

// N2 refuses to be left: its exit guard vetoes every round it is asked about
struct N2 : FSM::State {
	void exitGuard(GuardControl& control) {
		++control.context().exitGuardN2;
		control.context().add("N2.exitGuard(veto)");
		control.cancelPendingTransitions();
	}
	void exit(PlanControl& control) { ++control.context().exitN2; control.context().add("N2.exit"); }
};

int main() {
	Trace trace;
	FSM::Instance fsm{trace};

	// bring N2 up (N2 has no entry guard, N1 has no exit guard)
	fsm.immediateChangeTo<N2>();
	if (!fsm.isActive<N2>() || !fsm.isActive<Q2a>()) { std::printf("setup failed\n"); return 2; }

	trace = Trace{};

	// sanity: N2's veto works when it is asked
	fsm.immediateChangeTo<N1>();
	std::printf("single changeTo<N1>(): %s-> N2 %s\n", trace.text, fsm.isActive<N2>() ? "still active" : "LEFT");
	if (!fsm.isActive<N2>()) return 2;

	trace = Trace{};

	// three requests in one step
	fsm.changeTo<O  >();	// O is active: re-targets all of its sub-regions to their initial sub-states (N -> N1)
	fsm.changeTo<B  >();	// overrides the first one at the root
	fsm.changeTo<Q2b>();	// overrides the second one at the root, stays inside O
	fsm.update();

	std::printf("changeTo<O>(), changeTo<B>(), changeTo<Q2b>(), update(): %s\n", trace.text);
	std::printf("N2 active: %d, N1 active: %d, Q2b active: %d\n", fsm.isActive<N2>(), fsm.isActive<N1>(), fsm.isActive<Q2b>());
	std::printf("N2.exitGuard calls: %d, N2.exit calls: %d, N1.entryGuard calls: %d, N1.enter calls: %d\n",
				trace.exitGuardN2, trace.exitN2, trace.entryGuardN1, trace.enterN1);

	const bool exitedUnguarded  = trace.exitN2  > 0 && trace.exitGuardN2  == 0;
	const bool enteredUnguarded = trace.enterN1 > 0 && trace.entryGuardN1 == 0;

	if (exitedUnguarded || enteredUnguarded) {
		std::printf("VIOLATION (C04): N2 was exited and N1 entered without N2::exitGuard() / N1::entryGuard() having been invoked;\n"
					"  the property demands the guards of every state to be left / entered to run (and approve) first -\n"
					"  here N2's guard, which vetoes whatever it is asked, was never asked\n");
		return 1;
	}

	std::printf("ok: guards were consulted\n");
	return 0;
}
