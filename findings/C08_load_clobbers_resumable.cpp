// Replay: R_::load / RV_<Manual>::loadEnter commit through deepChangeToRequested / deepEnter *after* the resumable marks were read;
// the exits record the sub-states they leave and enters clear a mark equal to the entered prong, so the loaded marks are clobbered:
// the loaded instance's resumable configuration differs from the saved one and re-saving yields a different buffer.  exit 1 = defect
#define HFSM2_ENABLE_SERIALIZATION
#include <hfsm2/machine.hpp>
#include <cstdio>
#include <cstring>
using Config = hfsm2::Config::ManualActivation;
using M = hfsm2::MachineT<Config>;
#define S(s) struct s
using FSM = M::PeerRoot<M::Composite<S(A), S(A1), S(A2)>, M::Composite<S(B), S(B1), S(B2)>>;
#undef S
struct A : FSM::State {};
struct A1 : FSM::State {};
struct A2 : FSM::State {};
struct B : FSM::State {};
struct B1 : FSM::State {};
struct B2 : FSM::State {};
static void dump(const char* n, const FSM::Instance& m) {
	std::printf("%-9s active: A1=%d A2=%d B1=%d B2=%d   resumable: A=%d A1=%d A2=%d B=%d B1=%d B2=%d\n", n, (int)m.isActive<A1>(), (int)m.isActive<A2>(), (int)m.isActive<B1>(),
				(int)m.isActive<B2>(), (int)m.isResumable<A>(), (int)m.isResumable<A1>(), (int)m.isResumable<A2>(), (int)m.isResumable<B>(), (int)m.isResumable<B1>(), (int)m.isResumable<B2>());
}
int main() {
	FSM::Instance src, dst;
	src.enter();
	src.immediateChangeTo<A2>();          // A/A2, resumable A1
	src.immediateChangeTo<B2>();          // B/B2; resumable: root->A, A->A2, B->B1
	dst.enter();                          // A/A1, nothing resumable: loading exits A (whose exit records A1 over the loaded mark A2)
	FSM::Instance::SerialBuffer b1, b2;
	src.save(b1);
	dst.load(b1);
	dst.save(b2);
	dump("source", src);
	dump("loaded", dst);
	int bad = 0;
	for (hfsm2::StateID s = 0; s < 7; ++s)
		if (src.isActive(s) != dst.isActive(s) || src.isResumable(s) != dst.isResumable(s)) ++bad;
	const bool differ = !(b1 == b2);
	std::printf("re-saved buffer %s\n", differ ? "DIFFERS" : "identical");
	if (bad || differ) std::printf("DEFECT: load did not reproduce the saved resumable configuration (%d states differ)\n", bad);
	return (bad || differ) ? 1 : 0;
}
