// Replay: C_::resolveRandom falls off the end of the cumulative walk (returns INVALID_PRONG) for a generator output
// close to 1: `cursor = random * sum` is not smaller than the running remainder because `sum` was accumulated with
// rounding.  The region is then entered with no active sub-state.   exit 1 = defect present
#define HFSM2_ENABLE_UTILITY_THEORY
#include <hfsm2/machine.hpp>
#include <cstdio>
#include <cmath>
struct RNG { float v; float next() noexcept { return v; } };
using Config = hfsm2::Config::RandomT<RNG>;
using M = hfsm2::MachineT<Config>;
#define S(s) struct s
using FSM = M::PeerRoot<S(A), M::Random<S(R), S(R1), S(R2), S(R3)>>;
#undef S
static float U[3];
struct A : FSM::State {};
struct R : FSM::State {};
struct R1 : FSM::State { Utility utility(const Control&) { return U[0]; } };
struct R2 : FSM::State { Utility utility(const Control&) { return U[1]; } };
struct R3 : FSM::State { Utility utility(const Control&) { return U[2]; } };
static bool falls_off(const float* u, float r) {
	float sum = 0; for (int i = 0; i < 3; ++i) sum += u[i];   // same association as OS/CS wideReportRandomize: ((u0+u1)+u2)? checked against the machine below
	float cursor = r * sum;
	for (int i = 0; i < 3; ++i) { if (cursor >= u[i]) cursor -= u[i]; else return false; }
	return true;
}
int main() {
	const float r = std::nextafter(1.0f, 0.0f);
	// search small decimal utilities
	for (int a = 1; a < 200; ++a) for (int b = 1; b < 200; ++b) for (int c = 1; c < 200; ++c) {
		const float u[3] = {a * 0.01f, b * 0.01f, c * 0.01f};
		if (!falls_off(u, r)) continue;
		U[0] = u[0]; U[1] = u[1]; U[2] = u[2];
		RNG rng{r};
		FSM::Instance m{rng};
		m.immediateChangeTo<R>();
		const unsigned sub = m.activeSubState<R>();
		if (m.isActive<R>() && sub >= 3) {
			std::printf("utilities {%.9g, %.9g, %.9g}, random=%.9g -> activeSubState(R)=%u R1=%d R2=%d R3=%d\n", u[0], u[1], u[2], r, sub,
						(int)m.isActive<R1>(), (int)m.isActive<R2>(), (int)m.isActive<R3>());
			std::printf("DEFECT: random region active with no active sub-state\n");
			return 1;
		}
	}
	std::printf("no falling-off input found in the searched grid\n");
	return 0;
}
