// Replay: C_::deepReenter's switch branch (self-transition of a region that changes its sub-state) does not record the
// sub-state it leaves as resumable.  exit 1 = defect present
#include <hfsm2/machine.hpp>
#include <cstdio>
using M = hfsm2::Machine;
#define S(s) struct s
using FSM = M::PeerRoot<M::Composite<S(A), S(A1), S(A2)>, S(B)>;
#undef S
struct A : FSM::State {};
struct A1 : FSM::State {};
struct A2 : FSM::State {};
struct B : FSM::State {};
int main() {
	FSM::Instance m;                       // A/A1
	m.immediateChangeTo<A2>();             // A/A2 (A1 left -> resumable)
	m.immediateChangeTo<A>();              // A re-entered, restarts in A1: A2 is the sub-state last left
	std::printf("active A1=%d A2=%d  resumable A1=%d A2=%d\n", (int)m.isActive<A1>(), (int)m.isActive<A2>(), (int)m.isResumable<A1>(), (int)m.isResumable<A2>());
	m.immediateChangeTo<B>();
	m.immediateResume<A>();                // "resume: the last active one" - before B it was A1, fine; the interesting check is above
	const bool bad0 = false;
	(void)bad0;
	FSM::Instance n;
	n.immediateChangeTo<A2>();
	n.immediateChangeTo<A>();              // leaves A2
	const bool bad = !n.isResumable<A2>(); // the region must remember the sub-state it last left
	if (bad) std::printf("DEFECT: after leaving A2 through a region self-transition, A2 is not resumable\n");
	return bad ? 1 : 0;
}
