// Replay: a copy of an instance with the built-in generator keeps referring to the *original's* RNGT sub-object (CoreT::rng is a
// reference bound to static_cast<RNGT&>(*this) of the original; the implicit copy constructor copies the reference):
// what the copy does depends on what the original does in between.     exit 1 = defect present
#define HFSM2_ENABLE_UTILITY_THEORY
#include <hfsm2/machine.hpp>
#include <cstdio>
using M = hfsm2::Machine;
#define S(s) struct s
using FSM = M::PeerRoot<S(I), M::Random<S(R), S(R1), S(R2), S(R3), S(R4)>>;
#undef S
struct I : FSM::State {};
struct R : FSM::State {};
struct R1 : FSM::State {};
struct R2 : FSM::State {};
struct R3 : FSM::State {};
struct R4 : FSM::State {};
static unsigned long run(bool driveOriginalInBetween) {
	FSM::Instance o;
	FSM::Instance c{o};
	if (driveOriginalInBetween)
		for (int i = 0; i < 5; ++i) o.immediateRandomize<R>();
	unsigned long trace = 0;
	for (int i = 0; i < 12; ++i) { c.immediateRandomize<R>(); trace = trace * 5 + c.activeSubState<R>(); }
	return trace;
}
int main() {
	const unsigned long a = run(false), b = run(true);
	std::printf("copy's choices, original idle   : %lu\ncopy's choices, original driven : %lu\n", a, b);
	const bool bad = a != b;
	if (bad) std::printf("DEFECT: the copy's random choices depend on what the original instance does\n");
	return bad ? 1 : 0;
}
