// C08 / C11: "save()/load() round-trip the configuration"; "no write outside the instance's own storage".
// ArgsT::SERIAL_BITS is declared `Short` (uint8_t) although the value it is given (RF_::SERIAL_BITS = 1 + ACTIVE_BITS + RESUMABLE_BITS) is a
// `Long`: a machine that needs more than 255 bits gets a SerialBuffer / WriteStream / ReadStream sized with the value modulo 256.
// save() then writes past the end of the caller's SerialBuffer (the stream's bound is an assert, compiled out), and load() cannot
// restore the configuration.
#define HFSM2_ENABLE_SERIALIZATION
#include <hfsm2/machine.hpp>
#include <cstdio>
#include <cstring>

using M = hfsm2::Machine;
template <int N>        struct H;
template <int N, int K> struct L;
#define REG(N)  M::Composite<H<N>, L<N, 0>, L<N, 1>, L<N, 2>, L<N, 3>>
#define REG10(B) REG(B+0), REG(B+1), REG(B+2), REG(B+3), REG(B+4), REG(B+5), REG(B+6), REG(B+7), REG(B+8), REG(B+9)
using FSM = M::OrthogonalPeerRoot<REG10(0), REG10(10), REG10(20), REG10(30), REG10(40), REG(50), REG(51)>;      // 52 concurrently active regions of 4 sub-states: 261 bits
template <int N>        struct H : FSM::State {};
template <int N, int K> struct L : FSM::State {};

template <int N>
struct Visit {
	static void set(FSM::Instance& m)                { m.immediateChangeTo<L<N, 3>>(); m.immediateChangeTo<L<N, 2>>(); Visit<N - 1>::set(m); }
	static int  diff(const FSM::Instance& a, const FSM::Instance& b) {
		return (a.isActive<L<N, 2>>() != b.isActive<L<N, 2>>()) + (a.isResumable<L<N, 2>>() != b.isResumable<L<N, 2>>()) + Visit<N - 1>::diff(a, b);
	}
};
template <> struct Visit<-1> { static void set(FSM::Instance&) {} static int diff(const FSM::Instance&, const FSM::Instance&) { return 0; } };

int main() {
	struct Guarded {
		FSM::Instance::SerialBuffer buffer;
		unsigned char canary[256];
	} g;
	std::memset(g.canary, 0xA5, sizeof(g.canary));

	FSM::Instance source;
	Visit<51>::set(source);                      // every region: left L<N,3> for L<N,2>
	source.save(g.buffer);

	int touched = 0;
	for (unsigned char c : g.canary) touched += c != 0xA5;

	FSM::Instance target;
	target.load(g.buffer);
	const int differ = Visit<51>::diff(source, target);

	std::printf("RF_::SERIAL_BITS = %u, ArgsT::SERIAL_BITS = %u\n", (unsigned) FSM::SERIAL_BITS, (unsigned) FSM::Args::SERIAL_BITS);
	std::printf("sizeof(SerialBuffer) = %u bytes; bytes changed behind the buffer by save(): %d; states whose active/resumable answer differs after load(): %d\n",
				(unsigned) sizeof(g.buffer), touched, differ);
	return touched || differ ? 1 : 0;
}
