// C06: with Config::BottomUpReactions a nested region reports the status of its SUB-STATES
// (instead of its head) to the enclosing region during preReact()/react()/postReact().
// A success that the nested region's own plan consumes is therefore also delivered
// to the enclosing plan owner, whose head receives a spurious planSucceeded().
//
// build: g++ -std=gnu++17 -I include found/2/demo.cpp -o demo

#define HFSM2_ENABLE_PLANS
#include <hfsm2/machine.hpp>

#include <cstdio>

struct Ev {};

struct Counters {
	int pSucceeded = 0;
	int pFailed	   = 0;
	int rSucceeded = 0;
	int rFailed	   = 0;
};

// the same machine twice, once per reaction order
#define DEFINE_MACHINE(NS, CONFIG)																	\
namespace NS {																						\
	using M = hfsm2::MachineT<CONFIG>;																\
	struct Apex; struct P; struct R; struct X; struct Y; struct Q;									\
	using FSM = M::Root<Apex,																		\
					M::Composite<P,																	\
						M::Composite<R, X, Y>,														\
						Q																			\
					>																				\
				>;																					\
	static Counters counters;																		\
	struct Apex : FSM::State {};																	\
	struct P : FSM::State {																			\
		/* P owns a plan that has already run dry: one task, removed again */						\
		void enter(PlanControl& control) {															\
			auto plan = control.plan();																\
			plan.change<Q, Q>();																	\
			for (auto it = plan.begin(); it; ++it)													\
				it.remove();																		\
		}																							\
		void planSucceeded(FullControl&)	{ ++counters.pSucceeded;	}							\
		void planFailed	  (FullControl&)	{ ++counters.pFailed;		}							\
	};																								\
	struct R : FSM::State {																			\
		void enter(PlanControl& control)	{ control.plan().change<X, Y>();	}					\
		void planSucceeded(FullControl&)	{ ++counters.rSucceeded;	}							\
		void planFailed	  (FullControl&)	{ ++counters.rFailed;		}							\
	};																								\
	struct X : FSM::State {																			\
		using FSM::State::react;																	\
		void react(const Ev&, EventControl& control)	{ control.succeed();	}					\
	};																								\
	struct Y : FSM::State {};																		\
	struct Q : FSM::State {};																		\
																									\
	static Counters run(bool& yActive, bool& rPlanEmpty) {											\
		counters = Counters{};																		\
		FSM::Instance fsm;																			\
		fsm.react(Ev{});																			\
		yActive	   = fsm.isActive<Y>();																\
		rPlanEmpty = !fsm.plan<R>();																\
		return counters;																			\
	}																								\
}

DEFINE_MACHINE(top_down , hfsm2::Config)
DEFINE_MACHINE(bottom_up, hfsm2::Config::BottomUpReactions)

static void report(const char* const name, const Counters& c, const bool y, const bool empty) {
	std::printf("%-18s: task X->Y of R executed=%d (R's plan now empty=%d); R::planSucceeded=%d R::planFailed=%d; P::planSucceeded=%d P::planFailed=%d\n",
				name, y, empty, c.rSucceeded, c.rFailed, c.pSucceeded, c.pFailed);
}

int main() {
	bool yT = false, eT = false, yB = false, eB = false;

	const Counters t = top_down ::run(yT, eT);
	const Counters b = bottom_up::run(yB, eB);

	report("TopDown (default)", t, yT, eT);
	report("BottomUpReactions", b, yB, eB);

	std::printf("property C06: X's success is consumed by R's task X->Y; R's head neither succeeded nor failed and R did not\n"
				"              complete its plan in this step, so nothing may be passed on to P: P::planSucceeded must not be called\n");

	if (b.pSucceeded != 0 && t.pSucceeded == 0 && yB) {
		std::printf("VIOLATION: with BottomUpReactions P's head received planSucceeded() for a success that belongs to R's sub-state\n");
		return 1;
	}

	std::printf("no violation observed\n");
	return 0;
}
