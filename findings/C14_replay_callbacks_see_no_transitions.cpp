// C14 (and the replay half of C09): states activated by a REPLAYED transition cannot read it - or its
// payload - from currentTransitions() while being entered: replayTransitions() / replayEnter() hand
// the entered states an empty list.
//
// build: g++ -std=gnu++17 -I include found/3/demo.cpp -o demo

#define HFSM2_ENABLE_TRANSITION_HISTORY
#include <hfsm2/machine.hpp>
#include <cstdio>

struct Seen {
	int count	= -1;	// currentTransitions().count() inside enter()
	int payload = -1;	// payload of the transition that targets the state, read inside enter()
};

struct Context {
	Seen b, c;
};

using Config = hfsm2::Config
					::ContextT<Context&>
					::ManualActivation
					::PayloadT<int>;

using M = hfsm2::MachineT<Config>;

#define S(s) struct s
using FSM = M::PeerRoot<
				S(A),
				S(B),
				S(C)
			>;
#undef S

// the documented way to receive a payload: look the transition up in currentTransitions() in enter()
template <typename TControl>
Seen look(const TControl& control, const hfsm2::StateID self) {
	Seen seen;

	const auto& transitions = control.currentTransitions();
	seen.count = static_cast<int>(transitions.count());

	for (unsigned i = 0; i < transitions.count(); ++i)
		if (transitions[i].destination == self && transitions[i].payload())
			seen.payload = *transitions[i].payload();

	return seen;
}

struct A : FSM::State {};

struct B : FSM::State {
	void enter(PlanControl& control)	{ control.context().b = look(control, stateId<B>()); }
};

struct C : FSM::State {
	void enter(PlanControl& control)	{ control.context().c = look(control, stateId<C>()); }
};

int main() {
	Context authorityContext, replicaContext;
	FSM::Instance authority{authorityContext};
	FSM::Instance replica  {replicaContext};

	int violations = 0;

	// step 1: late-joining replica, the way test_replication.cpp does it
	authority.enter();
	authority.changeWith<B>(42);
	authority.update();
	replica.replayEnter(authority.previousTransitions());

	printf("step 1, changeWith<B>(42) / replayEnter():\n");
	printf("  authority B::enter(): currentTransitions().count() == %d, payload %d\n", authorityContext.b.count, authorityContext.b.payload);
	printf("  replica   B::enter(): currentTransitions().count() == %d, payload %d   (replica in B: %d)\n", replicaContext.b.count, replicaContext.b.payload, replica.isActive<B>());
	violations += replicaContext.b.payload != 42;

	// step 2: regular replication
	authority.changeWith<C>(77);
	authority.update();
	replica.replayTransitions(authority.previousTransitions());

	printf("step 2, changeWith<C>(77) / replayTransitions():\n");
	printf("  authority C::enter(): currentTransitions().count() == %d, payload %d\n", authorityContext.c.count, authorityContext.c.payload);
	printf("  replica   C::enter(): currentTransitions().count() == %d, payload %d   (replica in C: %d)\n", replicaContext.c.count, replicaContext.c.payload, replica.isActive<C>());
	violations += replicaContext.c.payload != 77;

	const auto* const pin = replica.lastTransitionTo<C>();
	printf("  (afterwards replica.lastTransitionTo<C>() payload: %d - the payload did arrive, enter() just could not see it)\n",
		   pin && pin->payload() ? *pin->payload() : -1);

	printf("C14 demands: the states activated by a transition read exactly its payload from currentTransitions() while being entered\n");
	printf("observed   : %d state(s) entered by a replayed transition saw no transition and no payload\n", violations);

	return violations ? 1 : 0;
}
