// C02, clause "every requested destination and all its ancestors are active ...
// later requests of a batch overriding earlier conflicting ones".
//
// A batch { changeTo<U>(), changeTo<q>() } where q lies three composite levels
// below the (active) region U loses the LATER request: q is not active afterwards.
// The same batch aimed one level higher ({ changeTo<U>(), changeTo<A2>() }) works.
//
// build: g++ -std=gnu++17 -I include found/1/demo.cpp -o demo

#include <hfsm2/machine.hpp>
#include <cstdio>

using M = hfsm2::Machine;

struct U; struct B; struct A; struct A1; struct A2; struct p; struct q;

using FSM = M::PeerRoot<
				M::Composite<U,
					B,
					M::Composite<A,
						A1,
						M::Composite<A2,
							p,
							q
						>
					>
				>
			>;

struct U  : FSM::State {};
struct B  : FSM::State {};
struct A  : FSM::State {};
struct A1 : FSM::State {};
struct A2 : FSM::State {};
struct p  : FSM::State {};
struct q  : FSM::State {};

static void dump(const FSM::Instance& m, const char* what) {
	std::printf("%-44s U=%d B=%d A=%d A1=%d A2=%d p=%d q=%d\n", what,
				m.isActive<U>(), m.isActive<B>(), m.isActive<A>(), m.isActive<A1>(),
				m.isActive<A2>(), m.isActive<p>(), m.isActive<q>());
}

int main() {
	// control 1: the later request alone
	{
		FSM::Instance m;
		m.immediateChangeTo<p>();
		m.changeTo<q>();
		m.update();
		dump(m, "from U/A/A2/p: { changeTo<q> }");
	}

	// control 2: same batch, later destination one level higher - later request wins
	{
		FSM::Instance m;
		m.immediateChangeTo<p>();
		m.changeTo<U>();
		m.changeTo<A2>();
		m.update();
		dump(m, "from U/A/A2/p: { changeTo<U>, changeTo<A2> }");
	}

	// the counterexample
	FSM::Instance m;
	m.immediateChangeTo<p>();
	dump(m, "start");

	m.changeTo<U>();	// earlier request: re-resolve U (declared Composite -> first sub-state B)
	m.changeTo<q>();	// later request: U/A/A2/q
	m.update();
	dump(m, "from U/A/A2/p: { changeTo<U>, changeTo<q> }");

	const bool laterWins = m.isActive<q>() && m.isActive<A2>() && m.isActive<A>() && m.isActive<U>();

	std::printf("property demands: q and its ancestors A2, A, U active (the later request overrides the earlier one)\n");
	std::printf("observed        : q %s\n", laterWins ? "active" : "NOT active - the later request was lost, the earlier one won");

	return laterWins ? 0 : 1;
}
