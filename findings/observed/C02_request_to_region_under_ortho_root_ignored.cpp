// C02, clause "every region that is entered or re-targeted picks its sub-state by the request kind -
// restart: the first; ... change: whichever of these the region was declared with".
//
// In a machine with an ORTHOGONAL ROOT a request aimed at a region that has no composite ancestor
// (a direct sub-region of the root, or one reached through orthogonal regions only) is accepted and
// consumed - and does nothing: no guard is asked, no reenter(), restart<P>() leaves P in P2.
// The same request in a machine with a composite root restarts P.
//
// build: g++ -std=gnu++17 -I include found/9/demo.cpp -o demo

#include <hfsm2/machine.hpp>
#include <cstdio>

using M = hfsm2::Machine;

namespace ortho_root {

struct R; struct P; struct P1; struct P2; struct Q; struct Q1; struct Q2;

using FSM = M::OrthogonalRoot<R,
				M::Composite<P, P1, P2>,
				M::Composite<Q, Q1, Q2>
			>;

static int guards = 0;

struct R  : FSM::State {};
struct P  : FSM::State { void entryGuard(GuardControl&) { ++guards; } };
struct P1 : FSM::State {};
struct P2 : FSM::State {};
struct Q  : FSM::State {};
struct Q1 : FSM::State {};
struct Q2 : FSM::State {};

}

namespace compo_root {

struct R; struct Other; struct P; struct P1; struct P2;

using FSM = M::Root<R,
				M::Composite<P, P1, P2>,
				Other
			>;

struct R	 : FSM::State {};
struct P	 : FSM::State {};
struct P1	 : FSM::State {};
struct P2	 : FSM::State {};
struct Other : FSM::State {};

}

int main() {
	bool restarted, changed;

	{
		using namespace compo_root;
		FSM::Instance m;
		m.immediateChangeTo<P2>();
		m.immediateRestart<P>();
		std::printf("composite  root, P/P2: restart<P>()  -> P1=%d P2=%d\n", m.isActive<P1>(), m.isActive<P2>());
	}
	{
		using namespace ortho_root;
		FSM::Instance m;
		m.immediateChangeTo<P2>();
		m.immediateChangeTo<Q2>();

		guards = 0;
		m.immediateRestart<P>();
		restarted = m.isActive<P1>();
		std::printf("orthogonal root, P/P2: restart<P>()  -> P1=%d P2=%d   (P::entryGuard called %d time(s))\n",
					m.isActive<P1>(), m.isActive<P2>(), guards);

		m.immediateChangeTo<P>();		// P is declared Composite -> first sub-state
		changed = m.isActive<P1>();
		std::printf("orthogonal root, P/P2: changeTo<P>() -> P1=%d P2=%d\n", m.isActive<P1>(), m.isActive<P2>());
	}

	std::printf("property demands: P re-targeted by restart / change picks its first sub-state P1\n");
	std::printf("observed        : restart<P>() %s, changeTo<P>() %s\n",
				restarted ? "worked" : "had no effect", changed ? "worked" : "had no effect");

	return restarted && changed ? 0 : 1;
}
