// C09: replay re-resolves a Random region with the replica's generator, but the authority's generator
// has also been advanced by the rounds that were CANCELLED (and are not in the record).
// Two identically constructed machines (same built-in generator, same seed) diverge on the first replay.
//
// build: g++ -std=gnu++17 -I include found/4/demo.cpp -o demo

#define HFSM2_ENABLE_TRANSITION_HISTORY
#define HFSM2_ENABLE_UTILITY_THEORY
#include <hfsm2/machine.hpp>
#include <cstdio>

struct Context {
	int refusals = 0;	// how many picks are refused before one is accepted
};

using Config = hfsm2::Config
					::ContextT<Context&>;

using M = hfsm2::MachineT<Config>;

#define S(s) struct s
using FSM = M::PeerRoot<
				S(A),
				M::Random<S(R),
					S(P0), S(P1), S(P2), S(P3), S(P4), S(P5), S(P6), S(P7)
				>
			>;
#undef S

struct A : FSM::State {};
struct R : FSM::State {};

struct Pick
	: FSM::State
{
	// refuse the pick and have the region roll again - a plain guard substitution
	void entryGuard(GuardControl& control) {
		if (control.context().refusals > 0) {
			--control.context().refusals;

			control.cancelPendingTransitions();
			control.randomize<R>();
		}
	}
};

struct P0 : Pick {};	struct P1 : Pick {};	struct P2 : Pick {};	struct P3 : Pick {};
struct P4 : Pick {};	struct P5 : Pick {};	struct P6 : Pick {};	struct P7 : Pick {};

template <typename TFSM>
int picked(const TFSM& fsm) {
	for (hfsm2::StateID s = FSM::stateId<P0>(); s <= FSM::stateId<P7>(); ++s)
		if (fsm.isActive(s))
			return s - FSM::stateId<P0>();

	return -1;
}

int run(const int refusals) {
	Context authorityContext, replicaContext;
	FSM::Instance authority{authorityContext};	// built-in RNGT<float>, both seeded identically by the library
	FSM::Instance replica  {replicaContext};

	authorityContext.refusals = refusals;

	authority.randomize<R>();
	authority.update();

	const auto& record = authority.previousTransitions();
	replica.replayTransitions(record);

	const int a = picked(authority);
	const int r = picked(replica);

	printf("%d refused pick(s): authority recorded %u request(s), authority in P%d, replica in P%d%s\n",
		   refusals, static_cast<unsigned>(record.count()), a, r, a == r ? "" : "   <-- DIVERGED");

	return a != r;
}

int main() {
	int divergences = 0;

	divergences += run(0);	// control: no cancelled round, the replica follows
	divergences += run(1);
	divergences += run(2);

	printf("C09 demands: replaying previousTransitions() on an identically prepared replica reproduces the active configuration\n");
	printf("observed   : %d divergence(s)\n", divergences);

	return divergences ? 1 : 0;
}
