// C12 (generator calls / which regions a request resolves) - randomize<N>() aimed at ONE random region
// must resolve that region only: one random number, the orthogonal sibling region keeps its sub-state.
//
// O is an Orthogonal region with two Random sub-regions N { N0, N1 } and Q { Q0, Q1 } (all utilities 1).
// With O already active, randomize<N>() also re-randomizes the sibling Q (and utilize<N>() re-resolves Q
// by maximum utility), because N is a *direct* child of the orthogonal region.
// The same request aimed one level deeper (changeTo<N0>()) leaves Q alone.
//
// build: g++ -std=gnu++17 -I include found/3/demo.cpp -o demo

#define HFSM2_ENABLE_UTILITY_THEORY
#include <hfsm2/machine.hpp>

#include <cstdio>

struct ScriptedRNG {
	float next() { ++calls; return value; }		// value is always in [0,1)
	float value = 0.0f;
	int calls = 0;
};

using Config = hfsm2::Config::RandomT<ScriptedRNG>;
using M = hfsm2::MachineT<Config>;

#define S(s) struct s
using FSM = M::Root<S(Apex),
				S(Idle),
				M::Orthogonal<S(O),
					M::Random<S(N), S(N0), S(N1)>,
					M::Random<S(Q), S(Q0), S(Q1)>
				>
			>;
#undef S

static int qExits = 0;

struct Apex : FSM::State {};
struct Idle : FSM::State {};
struct O    : FSM::State {};
struct N    : FSM::State {};
struct N0   : FSM::State {};
struct N1   : FSM::State {};
struct Q    : FSM::State {};
struct Q0   : FSM::State { Utility utility(const Control&) { return 1.0f; } };
struct Q1   : FSM::State { Utility utility(const Control&) { return 0.5f; } void exit(PlanControl&) { ++qExits; } };

static void show(const char* what, const FSM::Instance& m, const ScriptedRNG& rng) {
	std::printf("%-34s N:%s  Q:%s  random numbers drawn: %d\n", what,
				m.isActive<N0>() ? "N0" : m.isActive<N1>() ? "N1" : "-",
				m.isActive<Q0>() ? "Q0" : m.isActive<Q1>() ? "Q1" : "-",
				rng.calls);
}

int main() {
	int violations = 0;

	// --- randomize<N>() ----------------------------------------------------------------------------
	{
		ScriptedRNG rng;
		FSM::Instance m{rng};

		rng.value = 0.9f;						// upper half: N1, Q1
		m.immediateChangeTo<O>();
		show("changeTo<O>()  (r = 0.9)", m, rng);

		rng.value = 0.1f;						// lower half
		rng.calls = 0;
		m.immediateRandomize<N>();
		show("randomize<N>() (r = 0.1)", m, rng);
		std::printf("%-34s N:N0  Q:Q1  random numbers drawn: 1\n", "  demanded");

		if (!m.isActive<Q1>() || rng.calls != 1)
			++violations;
	}

	// --- utilize<N>(): the Random sibling Q is re-resolved *by maximum utility* ----------------------
	{
		ScriptedRNG rng;
		FSM::Instance m{rng};

		rng.value = 0.9f;
		m.immediateChangeTo<O>();				// N1, Q1

		rng.calls = 0;
		qExits = 0;
		m.immediateUtilize<N>();
		show("utilize<N>()", m, rng);
		std::printf("%-34s N:N0  Q:Q1  (Q untouched, Q1::exit() not called; observed exits: %d)\n", "  demanded", qExits);

		if (!m.isActive<Q1>())
			++violations;
	}

	// --- reference: the request aimed one level deeper does not disturb the sibling ------------------
	{
		ScriptedRNG rng;
		FSM::Instance m{rng};

		rng.value = 0.9f;
		m.immediateChangeTo<O>();				// N1, Q1

		rng.value = 0.1f;
		rng.calls = 0;
		m.immediateChangeTo<N0>();
		show("reference: changeTo<N0>()", m, rng);
	}

	if (violations) {
		std::printf("VIOLATION: a request aimed at region N re-resolved its orthogonal sibling Q\n");
		return 1;
	}

	return 0;
}
