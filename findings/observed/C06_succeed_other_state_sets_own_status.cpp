// C06: succeed<TState>() / fail<TState>() also set the CALLER's own step status.
// When the head of a plan-owning region marks one of its sub-states as succeeded,
// the region looks as if the head itself had succeeded: the region's plan is skipped
// (the task of the marked sub-state is not executed) and the enclosing plan owner
// is told that the region succeeded.
//
// build: g++ -std=gnu++17 -I include found/3/demo.cpp -o demo

#define HFSM2_ENABLE_PLANS
#include <hfsm2/machine.hpp>

#include <cstdio>

using M = hfsm2::Machine;

struct Apex; struct P; struct R; struct X; struct Y; struct Q;

using FSM = M::Root<Apex,
				M::Composite<P,
					M::Composite<R, X, Y>,
					Q
				>
			>;

enum class Who { SUB_STATE_ITSELF, REGION_HEAD };

static Who who = Who::SUB_STATE_ITSELF;
static int pSucceeded = 0, pFailed = 0, rSucceeded = 0, rFailed = 0;

struct Apex : FSM::State {};

struct P : FSM::State {
	// P owns a plan that has already run dry: one task, removed again
	void enter(PlanControl& control) {
		auto plan = control.plan();
		plan.change<Q, Q>();

		for (auto it = plan.begin(); it; ++it)
			it.remove();
	}

	void planSucceeded(FullControl&)	{ ++pSucceeded;	}
	void planFailed	  (FullControl&)	{ ++pFailed;	}
};

struct R : FSM::State {
	void enter(PlanControl& control)	{ control.plan().change<X, Y>();	}

	// the head supervises its sub-state and reports its completion
	void update(FullControl& control) {
		if (who == Who::REGION_HEAD)
			control.succeed<X>();
	}

	void planSucceeded(FullControl&)	{ ++rSucceeded;	}
	void planFailed	  (FullControl&)	{ ++rFailed;	}
};

struct X : FSM::State {
	void update(FullControl& control) {
		if (who == Who::SUB_STATE_ITSELF)
			control.succeed();
	}
};

struct Y : FSM::State {};
struct Q : FSM::State {};

static bool run(const Who who_, int& pSucceeded_) {
	who = who_;
	pSucceeded = pFailed = rSucceeded = rFailed = 0;

	FSM::Instance fsm;
	fsm.update();

	const bool executed = fsm.isActive<Y>();
	pSucceeded_ = pSucceeded;

	std::printf("%-32s: task X->Y of R executed=%d, R's plan still holds a task=%d; R::planSucceeded=%d; P::planSucceeded=%d P::planFailed=%d\n",
				who_ == Who::REGION_HEAD ? "R::update(): succeed<X>()" : "X::update(): succeed()",
				executed, (bool) fsm.plan<R>(), rSucceeded, pSucceeded, pFailed);

	return executed;
}

int main() {
	int pSelf = 0, pHead = 0;

	const bool bySelf = run(Who::SUB_STATE_ITSELF, pSelf);
	const bool byHead = run(Who::REGION_HEAD	 , pHead);

	std::printf("property C06: X is active and was marked as succeeded in this step, nothing failed, R's head did not succeed or fail itself\n"
				"              (no mark on R), no transition was requested => task X->Y must be executed and nothing is passed on to P\n");

	if (bySelf && pSelf == 0 && (!byHead || pHead != 0)) {
		std::printf("VIOLATION: marking X from R's head %s%s\n",
					byHead ? "" : "did not execute X->Y",
					pHead  ? (byHead ? "called P::planSucceeded()" : " and called P::planSucceeded()") : "");
		return 1;
	}

	std::printf("no violation observed\n");
	return 0;
}
