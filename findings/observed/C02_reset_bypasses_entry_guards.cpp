// C02, clause "reset() re-activates the machine exactly as its first activation would".
//
// The first activation consults the entry guards of the default configuration and follows their
// redirections (substitution rounds in R_::initialEnter()). reset() enters the declared defaults
// without calling a single entry guard, so it can put the machine into a configuration that the
// first activation never produces - here a state whose entry guard always redirects away from it.
//
// build: g++ -std=gnu++17 -I include found/8/demo.cpp -o demo

#include <hfsm2/machine.hpp>
#include <cstdio>

using M = hfsm2::Machine;

struct Loading; struct Menu;
using FSM = M::PeerRoot<Loading, Menu>;

static int guardCalls   = 0;
static int loadingEnter = 0;

struct Loading : FSM::State {
	void entryGuard(GuardControl& control) {	// everything is cached already: skip straight to the menu
		++guardCalls;
		control.changeTo<Menu>();
	}
	void enter(PlanControl&) { ++loadingEnter; }
};

struct Menu : FSM::State {
	void entryGuard(GuardControl&) { ++guardCalls; }
};

int main() {
	FSM::Instance m;

	const bool firstLoading = m.isActive<Loading>();
	std::printf("first activation : Loading=%d Menu=%d  (entry guards called: %d, Loading::enter(): %d)\n",
				m.isActive<Loading>(), m.isActive<Menu>(), guardCalls, loadingEnter);

	guardCalls = 0;
	m.reset();

	const bool resetLoading = m.isActive<Loading>();
	std::printf("reset()          : Loading=%d Menu=%d  (entry guards called: %d, Loading::enter(): %d)\n",
				m.isActive<Loading>(), m.isActive<Menu>(), guardCalls, loadingEnter);

	std::printf("property demands: reset() ends where the first activation ends (Menu)\n");
	std::printf("observed        : %s\n", firstLoading == resetLoading ? "same configuration" :
				"reset() entered Loading, whose entry guard was never asked");

	return firstLoading == resetLoading ? 0 : 1;
}
