// C12 - utilize<A>() must activate A's sub-state with the greatest utility, randomize<A>() must draw
// exactly one random number and must never pick a zero-utility sub-state.
//
// U is a Utilitarian region { A { A1 (utility 0), A2 (utility 0.9) }, B (utility 0.5) }.
// Step 1 of the scenario only *evaluates* A as a candidate of U (A loses against B);
// the evaluation leaves A's 'requested' prong behind, and the following utilize<A>() /
// randomize<A>() of the same step is silently replaced by that left-over.
//
// build: g++ -std=gnu++17 -I include found/2/demo.cpp -o demo

#define HFSM2_ENABLE_UTILITY_THEORY
#include <hfsm2/machine.hpp>

#include <cstdio>

struct CountingRNG {
	float next() { ++calls; return 0.5f; }		// always 0.5, in [0,1)
	int calls = 0;
};

using Config = hfsm2::Config::RandomT<CountingRNG>;
using M = hfsm2::MachineT<Config>;

#define S(s) struct s
using FSM = M::Root<S(Apex),
				S(Idle),
				M::Utilitarian<S(U),
					M::Composite<S(A),
						S(A1),
						S(A2)
					>,
					S(B)
				>
			>;
#undef S

struct Apex : FSM::State {};
struct Idle : FSM::State {};
struct U    : FSM::State {};
struct A    : FSM::State {};
struct A1   : FSM::State { Utility utility(const Control&) { return 0.0f; } };
struct A2   : FSM::State { Utility utility(const Control&) { return 0.9f; } };
static bool redirectFromB = false;

struct B    : FSM::State {
	Utility utility(const Control&) { return 0.5f; }

	// used by the third scenario only: B hands over to A, asking for A's best sub-state
	void entryGuard(GuardControl& control) { if (redirectFromB) control.utilize<A>(); }
};

static const char* leaf(const FSM::Instance& m) {
	return m.isActive<A1>() ? "A1 (utility 0)"   :
		   m.isActive<A2>() ? "A2 (utility 0.9)" :
		   m.isActive<B >() ? "B"				 :
		   m.isActive<Idle>() ? "Idle"			 : "?";
}

int main() {
	int violations = 0;

	// reference: the request on its own behaves
	{
		CountingRNG rng;
		FSM::Instance m{rng};
		m.utilize<A>();
		m.update();
		std::printf("utilize<A>() alone                   -> %s\n", leaf(m));
	}
	{
		CountingRNG rng;
		FSM::Instance m{rng};
		m.randomize<A>();
		m.update();
		std::printf("randomize<A>() alone                 -> %s, random numbers drawn: %d\n", leaf(m), rng.calls);
	}

	// the same request, preceded in the same step by a request that merely evaluates A
	{
		CountingRNG rng;
		FSM::Instance m{rng};
		m.changeTo<U>();		// U picks B (0.5) over A (1 * utility(A1) = 0); A is only looked at
		m.utilize<A>();			// later request: A, with its best sub-state
		m.update();
		std::printf("changeTo<U>() + utilize<A>()         -> %s   (demanded: A2, the greatest utility in A)\n", leaf(m));

		if (!m.isActive<A2>())
			++violations;
	}
	{
		CountingRNG rng;
		FSM::Instance m{rng};
		m.changeTo<U>();
		m.randomize<A>();		// A1 has utility 0: only A2 may be chosen, using one random number
		m.update();
		std::printf("changeTo<U>() + randomize<A>()       -> %s, random numbers drawn: %d   (demanded: A2, 1)\n", leaf(m), rng.calls);

		if (!m.isActive<A2>() || rng.calls != 1)
			++violations;
	}

	// single external request, the second one comes from a guard (substitution round)
	{
		redirectFromB = true;

		CountingRNG rng;
		FSM::Instance m{rng};
		m.changeTo<U>();		// U picks B; B::entryGuard() redirects with utilize<A>()
		m.update();
		std::printf("changeTo<U>(), B's guard: utilize<A>() -> %s   (demanded: A2)\n", leaf(m));

		if (!m.isActive<A2>())
			++violations;

		redirectFromB = false;
	}

	if (violations) {
		std::printf("VIOLATION: utilize/randomize aimed at A did not resolve A at all\n");
		return 1;
	}

	return 0;
}
