// C02, clauses "reset() re-activates the machine exactly as its first activation would" and
// "processing with no pending request changes nothing".
//
// reset() does not drop the requests that were queued before it. The machine comes out of reset()
// in its initial configuration, but the next update() - during which nobody requests anything -
// executes the stale request and leaves the initial configuration.
//
// build: g++ -std=gnu++17 -I include found/7/demo.cpp -o demo

#include <hfsm2/machine.hpp>
#include <cstdio>

using M = hfsm2::Machine;

struct A; struct B;
using FSM = M::PeerRoot<A, B>;

struct A : FSM::State {};
struct B : FSM::State {};

int main() {
	FSM::Instance fresh;				// reference: a freshly activated machine
	fresh.update();

	FSM::Instance m;
	m.changeTo<B>();					// queued, not yet processed
	m.reset();							// "start over"

	std::printf("after reset()           : A=%d B=%d\n", m.isActive<A>(), m.isActive<B>());

	m.update();							// no request issued since the reset()

	std::printf("after reset(), update() : A=%d B=%d\n", m.isActive<A>(), m.isActive<B>());
	std::printf("fresh machine, update() : A=%d B=%d\n", fresh.isActive<A>(), fresh.isActive<B>());

	const bool same = m.isActive<A>() == fresh.isActive<A>() && m.isActive<B>() == fresh.isActive<B>();

	std::printf("property demands: a reset() machine behaves like a freshly activated one; an update() without requests changes nothing\n");
	std::printf("observed        : %s\n", same ? "same" : "the request queued BEFORE reset() was executed after it");

	return same ? 0 : 1;
}
