// C02, clause "later requests of a batch overriding earlier conflicting ones".
//
// Two requests of one step name the same (inactive) region X with different kinds.
// The FIRST one decides X's sub-state, the later one is ignored - whereas for two requests
// that name different sub-states of X (changeTo<X1>, changeTo<X2>) the LATER one wins.
//
// build: g++ -std=gnu++17 -I include found/6/demo.cpp -o demo

#include <hfsm2/machine.hpp>
#include <cstdio>

using M = hfsm2::Machine;

struct Y; struct X; struct X1; struct X2;

using FSM = M::PeerRoot<
				Y,
				M::Composite<X,
					X1,
					X2
				>
			>;

struct Y  : FSM::State {};
struct X  : FSM::State {};
struct X1 : FSM::State {};
struct X2 : FSM::State {};

static void prepare(FSM::Instance& m) {		// Y active, X2 resumable
	m.immediateChangeTo<X2>();
	m.immediateChangeTo<Y>();
}

static void dump(const FSM::Instance& m, const char* what) {
	std::printf("%-34s X=%d X1=%d X2=%d\n", what, m.isActive<X>(), m.isActive<X1>(), m.isActive<X2>());
}

int main() {
	int violations = 0;

	{
		FSM::Instance m; prepare(m);
		m.restart<X>();
		m.resume <X>();				// later: resume -> X2 (the sub-state X last left)
		m.update();
		dump(m, "{ restart<X>, resume<X> }");
		if (!m.isActive<X2>()) ++violations;
	}
	{
		FSM::Instance m; prepare(m);
		m.resume <X>();
		m.restart<X>();				// later: restart -> X1 (the first sub-state)
		m.update();
		dump(m, "{ resume<X>, restart<X> }");
		if (!m.isActive<X1>()) ++violations;
	}
	{	// control: conflicting destinations inside X - the later request wins
		FSM::Instance m; prepare(m);
		m.changeTo<X1>();
		m.changeTo<X2>();
		m.update();
		dump(m, "control { changeTo<X1>, changeTo<X2> }");
	}

	std::printf("property demands: the later request decides (resume -> X2, restart -> X1)\n");
	std::printf("observed        : in %d of 2 batches the earlier request decided X's sub-state\n", violations);

	return violations ? 1 : 0;
}
