// C18: a BitWriteStreamT constructed at a non-zero cursor wipes the bits in front of that cursor.
// Build: g++ -std=gnu++17 -I include found/4/demo.cpp -o demo
#define HFSM2_ENABLE_SERIALIZATION
#include <hfsm2/machine.hpp>
#include <cstdio>

using Buffer = hfsm2::detail::StreamBufferT  <45>;
using Writer = hfsm2::detail::BitWriteStreamT<45>;
using Reader = hfsm2::detail::BitReadStreamT <45>;

int main() {
	Buffer buffer;
	hfsm2::Long cursor = 0;

	// the sequence of test/shared/test_bit_stream.cpp, written in two instalments
	{
		Writer head{buffer};
		head.write< 5>(static_cast<uint8_t >(  27));
		head.write< 4>(static_cast<uint8_t >(  11));
		head.write< 3>(static_cast<uint8_t >(   5));
		cursor = head.cursor();									// 12
	}
	{
		Writer tail{buffer, cursor};							// continue where the first writer stopped
		tail.write<12>(static_cast<uint16_t>(   1472));
		tail.write<21>(static_cast<uint32_t>(1000000));
		cursor = tail.cursor();									// 45
	}

	Reader reader{buffer};
	const unsigned a = reader.read< 5>();
	const unsigned b = reader.read< 4>();
	const unsigned c = reader.read< 3>();
	const unsigned d = reader.read<12>();
	const unsigned e = reader.read<21>();

	printf("written : 27 11 5 1472 1000000 (cursor 45)\n");
	printf("read    : %u %u %u %u %u (cursor %u, writer cursor %u)\n", a, b, c, d, e, unsigned(reader.cursor()), unsigned(cursor));

	// the read side of the same feature works: start reading at bit 12
	Reader middle{buffer, 12};
	const unsigned d2 = middle.read<12>();
	printf("reader started at cursor 12 reads %u (1472 expected)\n", d2);

	const bool ok = a == 27 && b == 11 && c == 5 && d == 1472 && e == 1000000;
	printf("property C18 demands: values written with widths 1..32 are read back unchanged, whatever the alignment\n");
	printf("%s\n", ok ? "ok" : "VIOLATION: the values in front of the second writer's start cursor were erased");
	return ok ? 0 : 1;
}
