// C11 / clause "no sequence of public API calls with valid state identifiers ..
// trips the library's own consistency assertions"
//
// Activating a machine with an ORTHOGONAL root while requests are applied - replayEnter(), or a
// request issued by an entry guard during the first activation - runs deepForwardActive() on
// regions that are not active yet and trips
//     HFSM2_ASSERT(control._core.registry.isActive(HEAD_ID))     in O_::deepForwardActive()
//     HFSM2_ASSERT(HEAD_ID == ROOT_ID || ..isActive(HEAD_ID))    in C_::deepForwardActive()
// (a composite root is exempted by the 'HEAD_ID == ROOT_ID ||' part - the orthogonal root was forgotten)
//
// The assertions of the unchanged headers are compiled in for '_DEBUG && _MSC_VER' only, so the demo
// defines these two around the #include and supplies a 3-line <intrin.h>; nothing in the library is modified.
// clang is needed: that configuration uses in-class member specialisations, which g++ does not accept.
//
// build: clang++ -std=gnu++17 -I found/3/msvc_debug -I include found/3/demo.cpp -o demo

#include <stdint.h>
#include <string.h>
#include <new>
#include <typeindex>
#include <cstdio>

static int breaks = 0;
void demoBreak(int line) noexcept {
	++breaks;
	std::printf("  HFSM2_ASSERT / HFSM2_BREAK fired at hfsm2/machine.hpp:%d\n", line);
}

#define _MSC_VER 1930
#define _DEBUG
#define HFSM2_ENABLE_ASSERT
#define __declspec(x)

#define HFSM2_ENABLE_TRANSITION_HISTORY
#include <hfsm2/machine.hpp>

#undef _MSC_VER
#undef __declspec

//------------------------------------------------------------------------------
// (a) replayEnter() - manual activation, orthogonal root

namespace a {

using M = hfsm2::MachineT<hfsm2::Config::ManualActivation>;

struct Apex; struct Legs; struct Walk; struct Run; struct Arms; struct Up; struct Down;

using FSM = M::OrthogonalRoot<Apex,
				M::Composite<Legs, Walk, Run>,
				M::Composite<Arms, Up, Down>
			>;

struct Apex : FSM::State {};
struct Legs : FSM::State {};
struct Walk : FSM::State {};
struct Run  : FSM::State {};
struct Arms : FSM::State {};
struct Up   : FSM::State {};
struct Down : FSM::State {};

int run() {
	const int before = breaks;

	// the authority: its first step is 'changeTo<Run>()' - nothing unusual
	FSM::Instance authority;
	authority.enter();
	authority.changeTo<Run>();
	authority.update();

	// the replica is activated from the authority's history
	FSM::Instance replica;
	std::printf("(a) replica.replayEnter(authority.previousTransitions())  [%u transition(s)]\n",
				(unsigned) authority.previousTransitions().count());
	const bool ok = replica.replayEnter(authority.previousTransitions());
	std::printf("    returned %d, Run active: %d\n", ok, replica.isActive<Run>());

	replica.exit();
	authority.exit();

	return breaks - before;
}

}

//------------------------------------------------------------------------------
// (b) automatic activation, an entry guard redirects the first activation

namespace b {

using M = hfsm2::Machine;

struct Apex; struct Legs; struct Walk; struct Run; struct Arms; struct Up; struct Down;

using FSM = M::OrthogonalRoot<Apex,
				M::Composite<Legs, Walk, Run>,
				M::Composite<Arms, Up, Down>
			>;

struct Apex : FSM::State {};
struct Legs : FSM::State {};
struct Walk : FSM::State {
	void entryGuard(GuardControl& control) { control.changeTo<Run>(); }	// substitution, not a cancellation
};
struct Run  : FSM::State {};
struct Arms : FSM::State {};
struct Up   : FSM::State {};
struct Down : FSM::State {};

int run() {
	const int before = breaks;

	std::printf("(b) FSM::Instance fsm;   // Walk::entryGuard() redirects to Run\n");
	FSM::Instance fsm;
	std::printf("    Run active: %d\n", fsm.isActive<Run>());

	return breaks - before;
}

}

//------------------------------------------------------------------------------

int main() {
	const int a = a::run();
	const int b = b::run();

	std::printf("\nproperty demands: no consistency assertion fires for valid API use\n");
	std::printf("observed        : %d assertion(s) during replayEnter(), %d during the redirected first activation\n", a, b);

	return a || b ? 1 : 0;
}
