// C02, clause "every region that is entered or re-targeted picks its sub-state by the request kind -
// restart: the first ... later requests of a batch overriding earlier conflicting ones".
//
// Evaluating a Utilitarian region leaves a "requested" mark in every candidate region that LOSES.
// A later request of the same step (same batch, or issued by an entry guard in a substitution round)
// that enters such a loser is not resolved by its own kind any more: restart<B>() enters the
// sub-state with the highest utility instead of the first one.
//
// build: g++ -std=gnu++17 -I include found/4/demo.cpp -o demo

#define HFSM2_ENABLE_UTILITY_THEORY
#include <hfsm2/machine.hpp>
#include <cstdio>

using M = hfsm2::Machine;

struct R; struct Other; struct U; struct A; struct B; struct B1; struct B2;

using FSM = M::Root<R,
				Other,
				M::Utilitarian<U,
					A,
					M::Utilitarian<B,
						B1,
						B2
					>
				>
			>;

static bool redirectFromGuard = false;

struct R	 : FSM::State {};
struct Other : FSM::State {};
struct U	 : FSM::State {};
struct A	 : FSM::State {
	float utility(const Control&) { return 0.9f; }

	void entryGuard(GuardControl& control) {
		if (redirectFromGuard) {
			redirectFromGuard = false;
			control.restart<B>();		// "not me - restart B instead" (no cancel needed, the later request wins)
		}
	}
};
struct B	 : FSM::State { float utility(const Control&) { return 0.1f; } };
struct B1	 : FSM::State { float utility(const Control&) { return 0.1f; } };
struct B2	 : FSM::State { float utility(const Control&) { return 0.9f; } };

static void dump(const FSM::Instance& m, const char* what) {
	std::printf("%-46s U=%d A=%d B=%d B1=%d B2=%d\n", what,
				m.isActive<U>(), m.isActive<A>(), m.isActive<B>(), m.isActive<B1>(), m.isActive<B2>());
}

int main() {
	int violations = 0;

	{	// control: the request alone
		FSM::Instance m;
		m.restart<B>();
		m.update();
		dump(m, "{ restart<B> }");
	}

	{	// batch
		FSM::Instance m;
		m.changeTo<U>();	// U is Utilitarian: evaluates A (0.9) and B (0.1 * max(B1 0.1, B2 0.9)) -> A
		m.restart<B>();		// later request: B, restarted -> B1
		m.update();
		dump(m, "{ changeTo<U>, restart<B> }");

		if (!m.isActive<B1>()) ++violations;
	}

	{	// substitution round: A's entry guard redirects
		FSM::Instance m;
		redirectFromGuard = true;
		m.changeTo<U>();
		m.update();
		dump(m, "{ changeTo<U> }, A::entryGuard: restart<B>");

		if (!m.isActive<B1>()) ++violations;
	}

	std::printf("property demands: restart<B>() enters B's FIRST sub-state B1\n");
	std::printf("observed        : %d of 2 sequences entered B2, the sub-state picked while B was only a losing candidate of U\n", violations);

	return violations ? 1 : 0;
}
