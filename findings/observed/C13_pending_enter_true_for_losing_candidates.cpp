// C13, pending clause: "inside guards evaluating a single pending request, isPendingEnter
// holds exactly for the states that request is about to enter".
//
// A utilitarian (or random) region evaluates ALL of its sub-regions to pick one. The
// evaluation (C_::deepReportChange*/deepReportUtilize/deepReportRandomize) writes the
// would-be choice of every evaluated sub-region into compoRequested, and nothing takes it
// back for the sub-regions that lose. Guards of the round then see isPendingEnter() == true
// for states of the losing branch, which are never entered.
//
// build: g++ -std=gnu++17 -DHFSM2_ENABLE_UTILITY_THEORY -I include found/2/demo.cpp -o demo
#define HFSM2_ENABLE_UTILITY_THEORY
#include <hfsm2/machine.hpp>
#include <cstdio>

using M = hfsm2::Machine;

#define S(s) struct s
using FSM = M::PeerRoot<
				S(Idle),
				M::Utilitarian<S(U),
					M::Composite<S(A), S(A1), S(A2)>,		// utility 0.1 - loses
					M::Composite<S(B), S(B1), S(B2)>		// utility 0.9 - wins
				>
			>;
#undef S

static bool seenA, seenA1, seenB, seenB1;	// isPendingEnter() as seen by U::entryGuard()
static bool enteredA, enteredA1, enteredB, enteredB1;
static int  guardRuns;

struct Idle : FSM::State {};

struct U : FSM::State {
	void entryGuard(GuardControl& control) {
		++guardRuns;
		seenA  = control.isPendingEnter<struct A >();
		seenA1 = control.isPendingEnter<struct A1>();
		seenB  = control.isPendingEnter<struct B >();
		seenB1 = control.isPendingEnter<struct B1>();
	}
};

struct A  : FSM::State { Utility utility(const Control&) { return 0.1f; } void enter(PlanControl&) { enteredA  = true; } };
struct A1 : FSM::State {											   void enter(PlanControl&) { enteredA1 = true; } };
struct A2 : FSM::State {};
struct B  : FSM::State { Utility utility(const Control&) { return 0.9f; } void enter(PlanControl&) { enteredB  = true; } };
struct B1 : FSM::State {											   void enter(PlanControl&) { enteredB1 = true; } };
struct B2 : FSM::State {};

int main() {
	FSM::Instance m;			// Idle

	m.changeTo<U>();			// the single pending request
	m.update();

	printf("guard rounds: %d\n", guardRuns);
	printf("state : isPendingEnter in guard | actually entered\n");
	printf("A     : %d | %d\n", seenA , enteredA );
	printf("A1    : %d | %d\n", seenA1, enteredA1);
	printf("B     : %d | %d\n", seenB , enteredB );
	printf("B1    : %d | %d\n", seenB1, enteredB1);
	printf("property demands: isPendingEnter(s) == (s is entered by the approved round) for every state\n");

	const bool violated = seenA  != enteredA  || seenA1 != enteredA1
					   || seenB  != enteredB  || seenB1 != enteredB1;
	if (violated)
		printf("VIOLATION: isPendingEnter<A1>() is true although the request enters B/B1 and neither A nor A1\n");

	return violated ? 1 : 0;
}
