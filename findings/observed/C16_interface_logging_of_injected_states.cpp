// C16: with interface logging (HFSM2_ENABLE_LOG_INTERFACE without HFSM2_ENABLE_VERBOSE_DEBUG_LOG) the logger
// receives a method record only for methods a state really defines ("interface logging of overridden methods").
// A state declared through StateT<...> gets a record for EVERY method, including those that neither the state
// nor its injected base define - nothing user-defined is invoked for these records.
//
// build: g++ -std=gnu++17 -I include found/2/demo.cpp -o demo

#define HFSM2_ENABLE_LOG_INTERFACE
#include <hfsm2/machine.hpp>

#include <cstdio>
#include <set>
#include <string>

using M = hfsm2::Machine;

static std::string calls;	// what really ran

#define S(s) struct s
using FSM = M::PeerRoot<
				S(Plain),		// : FSM::State,          defines enter() + update()
				S(Injected)		// : FSM::StateT<Mixin>,  Mixin defines enter() + update()
			>;
#undef S

struct Plain
	: FSM::State
{
	void enter (PlanControl&)	{ calls += "Plain.enter ";	}
	void update(FullControl&)	{ calls += "Plain.update ";	}
};

struct Mixin
	: FSM::State
{
	void enter (PlanControl&)	{ calls += "Mixin.enter ";	}
	void update(FullControl&)	{ calls += "Mixin.update ";	}
};

struct Injected
	: FSM::StateT<Mixin>
{};

struct Logger
	: FSM::Instance::Logger
{
	void recordMethod(const Context&, const hfsm2::StateID origin, const hfsm2::Method method) override {
		records[origin].insert(hfsm2::methodName(method));
	}

	std::set<std::string> records[3];
};

static std::string join(const std::set<std::string>& s) {
	std::string r;
	for (const auto& e : s) r += e + " ";
	return r;
}

int main() {
	Logger logger;

	{
		FSM::Instance machine{&logger};					// enters Plain
		machine.update();
		machine.immediateChangeTo<Injected>();			// exits Plain, enters Injected
		machine.update();
		machine.immediateChangeTo<Plain>();				// exits Injected
	}

	const auto plain	= logger.records[FSM::stateId<Plain   >()];
	const auto injected = logger.records[FSM::stateId<Injected>()];

	printf("user code that ran   : %s\n", calls.c_str());
	printf("records for Plain    : %s\n", join(plain   ).c_str());
	printf("records for Injected : %s\n", join(injected).c_str());
	printf("property demands: both states define exactly enter() and update(), both get exactly these two kinds of record\n");

	const std::set<std::string> expected{"enter", "update"};

	if (plain == expected && injected != expected) {
		printf("VIOLATION: the logger reports %u kinds of callbacks for 'Injected' that no user code defines\n",
			   (unsigned) (injected.size() - expected.size()));
		return 1;
	}

	return 0;
}
