// C09: a schedule request of a CANCELLED round still takes effect, the step's record does not
// contain it, and replaying the record lands the replica in a different active configuration.
//
// build: g++ -std=gnu++17 -I include found/1/demo.cpp -o demo

#define HFSM2_ENABLE_TRANSITION_HISTORY
#include <hfsm2/machine.hpp>
#include <cstdio>

using M = hfsm2::Machine;

#define S(s) struct s
using FSM = M::PeerRoot<
				S(A),
				M::Resumable<S(R),
					S(B),
					S(C)
				>,
				S(X)
			>;
#undef S

struct A : FSM::State {};
struct R : FSM::State {};
struct B : FSM::State {};
struct C : FSM::State {};

struct X
	: FSM::State
{
	// refuses the whole batch {schedule<C>, changeTo<X>} and substitutes a transition into R
	void entryGuard(GuardControl& control) {
		control.cancelPendingTransitions();
		control.changeTo<R>();
	}
};

static const char* const NAMES[] = {"root", "A", "R", "B", "C", "X"};

template <typename TFSM>
void print(const char* const who, const TFSM& fsm) {
	printf("%s active:", who);
	for (hfsm2::StateID s = 1; s < 6; ++s)
		if (fsm.isActive(s))
			printf(" %s", NAMES[s]);
	printf("\n");
}

int main() {
	FSM::Instance authority;	// both start in A, R has never been active, nothing is resumable
	FSM::Instance replica;

	authority.schedule<C>();	// round 1: { schedule<C>, changeTo<X> } -> cancelled by X::entryGuard()
	authority.changeTo<X>();	// round 2: { changeTo<R> }              -> approved
	authority.update();

	const auto& record = authority.previousTransitions();
	printf("authority recorded %u request(s):", static_cast<unsigned>(record.count()));
	for (unsigned i = 0; i < record.count(); ++i)
		printf(" {%s -> %s, %s}", NAMES[record[i].origin], NAMES[record[i].destination], hfsm2::transitionName(record[i].type));
	printf("\n");

	const bool replayed = replica.replayTransitions(record);
	printf("replica.replayTransitions() returned %s\n", replayed ? "true" : "false");

	print("authority", authority);
	print("replica  ", replica);

	bool same = true;
	for (hfsm2::StateID s = 0; s < 6; ++s)
		same = same && authority.isActive(s) == replica.isActive(s);

	printf("C09 demands: replaying previousTransitions() on a replica in the same state reproduces the active configuration\n");
	printf("observed   : %s\n", same ? "same configuration" :
		"DIFFERENT configuration - the cancelled round's schedule<C> changed what the Resumable region R resolves to on the authority only");

	return same ? 0 : 1;
}
