// C09: the step's record (TransitionSets) holds up to COMPO_COUNT * SUBSTITUTION_LIMIT entries, but
//  - pins (transitionTargets / Request::index) are 8-bit, with 255 doubling as the "not pinned" mark
//  - replayTransitions()/replayEnter() take the number of entries as an 8-bit 'Short'
// A step that records more than 255 requests is replayed only partially (count modulo 256) and
// lastTransitionTo() answers with entries that did not activate the state.
//
// build: g++ -std=gnu++17 -I include found/2/demo.cpp -o demo

#define HFSM2_ENABLE_TRANSITION_HISTORY
#include <hfsm2/machine.hpp>
#include <cstdio>

struct Context {
	int next  = 0;	// payload = ordinal of the request within the step
	int limit = 0;
};

using Config = hfsm2::Config
					::ContextT<Context&>
					::PayloadT<int>
					::SubstitutionLimitN<120>;

using M = hfsm2::MachineT<Config>;

#define S(s) struct s
using FSM = M::PeerRoot<
				M::Orthogonal<S(O),
					M::Composite<S(R1), S(A1), S(B1)>,
					M::Composite<S(R2), S(A2), S(B2)>,
					M::Composite<S(R3), S(A3), S(B3)>
				>
			>;
#undef S

// the entry guard approves the round and asks for the sibling: a chain of substitutions, one round each
template <typename TOther>
struct Toggle
	: FSM::State
{
	void entryGuard(GuardControl& control) {
		Context& context = control.context();

		if (context.next < context.limit)
			control.template changeWith<TOther>(context.next++);
	}
};

struct O  : FSM::State {};
struct R1 : FSM::State {};
struct R2 : FSM::State {};
struct R3 : FSM::State {};
struct A1 : Toggle<B1> {};	struct B1 : Toggle<A1> {};
struct A2 : Toggle<B2> {};	struct B2 : Toggle<A2> {};
struct A3 : Toggle<B3> {};	struct B3 : Toggle<A3> {};

static const char* const NAMES[] = {"root", "O", "R1", "A1", "B1", "R2", "A2", "B2", "R3", "A3", "B3"};
constexpr hfsm2::StateID STATE_COUNT = FSM::Instance::Info::STATE_COUNT;

template <typename TFSM>
void print(const char* const who, const TFSM& fsm) {
	printf("%s active:", who);
	for (hfsm2::StateID s = 1; s < STATE_COUNT; ++s)
		if (fsm.isActive(s))
			printf(" %s", NAMES[s]);
	printf("\n");
}

int main() {
	static_assert(STATE_COUNT == 11, "");

	Context authorityContext, replicaContext;	// limit == 0: the guards stay quiet during the initial activation
	FSM::Instance authority{authorityContext};
	FSM::Instance replica  {replicaContext};

	// 99 rounds of 3 requests: 297 recorded requests, well inside the record's capacity (4 * 120 = 480)
	authorityContext.limit = 297;
	authority.changeWith<B1>(authorityContext.next++);
	authority.changeWith<B2>(authorityContext.next++);
	authority.changeWith<B3>(authorityContext.next++);
	authority.update();

	const auto& record = authority.previousTransitions();
	printf("authority recorded %u requests in one step (capacity %u)\n",
		   static_cast<unsigned>(record.count()), static_cast<unsigned>(record.CAPACITY));

	int violations = 0;

	// 1. lastTransitionTo(s): null, or one of the recorded requests that activated 's'
	//    - root, O, R1..R3, A1..A3 were active before and after the step and were never pinned: null expected
	//    - B1..B3 were activated by the requests of the last round, entries #294..#296
	//      (which one of the three is a known ambiguity of batches and is not checked here)
	for (hfsm2::StateID s = 0; s < STATE_COUNT; ++s) {
		const auto* const pin = authority.lastTransitionTo(s);
		const bool activated = authority.isActive(s) && !replica.isActive(s);	// the replica is still in the initial state

		if (pin) {
			const long index = static_cast<long>(pin - &record[0]);
			const bool wrong = activated ? index < 294 : true;
			violations += wrong;

			printf("lastTransitionTo(%-4s) -> entry #%-3ld {-> %s, payload %3d}, expected %s%s\n",
				   NAMES[s], index, NAMES[pin->destination], pin->payload() ? *pin->payload() : -1,
				   activated ? "one of #294..#296" : "null (not activated by this step)",
				   wrong ? "   <-- WRONG" : "");
		} else {
			violations += activated;
			printf("lastTransitionTo(%-4s) -> null%s\n", NAMES[s], activated ? "   <-- WRONG" : "");
		}
	}

	// 2. replay
	const bool replayed = replica.replayTransitions(record);
	printf("replica.replayTransitions() returned %s, replica recorded %u requests\n",
		   replayed ? "true" : "false", static_cast<unsigned>(replica.previousTransitions().count()));

	print("authority", authority);
	print("replica  ", replica);

	bool same = true;
	for (hfsm2::StateID s = 0; s < STATE_COUNT; ++s)
		same = same && authority.isActive(s) == replica.isActive(s);

	if (!same)
		++violations;

	printf("C09 demands: lastTransitionTo(s) is null or the request that activated s; replaying the record reproduces the configuration\n");
	printf("observed   : %d violation(s)\n", violations);

	return violations ? 1 : 0;
}
