// C06: a transition that stays INSIDE a plan-owning region, but leaves one of its nested
// sub-regions, suppresses the plan of the (outer) plan owner for that step.
//
// build: g++ -std=gnu++17 -I include found/1/demo.cpp -o demo

#define HFSM2_ENABLE_PLANS
#include <hfsm2/machine.hpp>

#include <cstdio>

using M = hfsm2::Machine;

struct Apex;
struct P;						// orthogonal plan owner
struct R1; struct X1; struct X2;	//   region 1
struct R2; struct Z1; struct Z2;	//   region 2 - the planned one
struct R3; struct W1; struct W2;	//   region 3
struct Done;

using FSM = M::Root<Apex,
				M::Orthogonal<P,
					M::Composite<R1, X1, X2>,
					M::Composite<R2, Z1, Z2>,
					M::Composite<R3, W1, W2>
				>,
				Done
			>;

static bool kick		 = false;	// X1 asks for W2 (inside P, outside R1) in its first update
static int  z1Successes	 = 0;
static int  pPlanSucceeded = 0;
static int  pPlanFailed	 = 0;

struct Apex : FSM::State {};

struct P : FSM::State {
	void enter(PlanControl& control)	{ control.plan().change<Z1, Z2>();	}
	void planSucceeded(FullControl&)	{ ++pPlanSucceeded;					}
	void planFailed	  (FullControl&)	{ ++pPlanFailed;					}
};

struct R1 : FSM::State {};
struct X1 : FSM::State {
	void update(FullControl& control) {
		if (kick)
			control.changeTo<W2>();		// destination is a state of P (region 3)
	}
};
struct X2 : FSM::State {};

struct R2 : FSM::State {};
struct Z1 : FSM::State {
	void update(FullControl& control) {
		if (z1Successes == 0) {			// the work is done exactly once
			++z1Successes;
			control.succeed();
		}
	}
};
struct Z2 : FSM::State {};

struct R3 : FSM::State {};
struct W1 : FSM::State {};
struct W2 : FSM::State {};

struct Done : FSM::State {};

static unsigned planLength(FSM::Instance& fsm) {
	unsigned n = 0;
	auto plan = fsm.plan<P>();
	for (auto it = plan.begin(); it; ++it)
		++n;
	return n;
}

static bool run(const bool kick_) {
	kick = kick_;
	z1Successes = 0;
	pPlanSucceeded = pPlanFailed = 0;

	FSM::Instance fsm;
	fsm.update();	// Z1 succeeds; with kick_, X1 also asks for W2
	fsm.update();	// nothing succeeds any more

	const bool z2 = fsm.isActive<Z2>();
	std::printf("%s: Z1 succeeded %d time(s); P still active=%d, W2 active=%d; task Z1->Z2 executed=%d, tasks left in P's plan=%u, planSucceeded=%d planFailed=%d\n",
				kick_ ? "X1 requests W2 (inside P)" : "no other request        ",
				z1Successes, fsm.isActive<P>(), fsm.isActive<W2>(), z2, planLength(fsm), pPlanSucceeded, pPlanFailed);

	return z2;
}

int main() {
	const bool control_ = run(false);
	const bool subject  = run(true);

	std::printf("property C06: Z1 (sub-state of plan owner P) succeeded, nothing failed, P's head neither succeeded nor failed,\n"
				"              and no transition OUT OF P was requested (W2 belongs to P) => task Z1->Z2 must be executed\n");

	if (control_ && !subject) {
		std::printf("VIOLATION: the success of Z1 was dropped and the task was not executed because X1->W2 left the nested region R1\n");
		return 1;
	}

	std::printf("no violation observed\n");
	return 0;
}
