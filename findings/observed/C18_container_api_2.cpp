// C18: BitArrayT::set() also raises the padding bits above CAPACITY; empty() and operator != then
// see elements that no index can read or clear.
// Build: g++ -std=gnu++17 -I include found/2/demo.cpp -o demo
#include <hfsm2/machine.hpp>
#include <cstdio>

using hfsm2::detail::BitArrayT;

template <unsigned N>
static int check() {
	int violations = 0;

	// (a) set(); clear every index; the set is empty
	BitArrayT<N> a;
	a.set();
	for (unsigned i = 0; i < N; ++i)
		a.clear(i);

	bool anyReadable = false;
	for (unsigned i = 0; i < N; ++i)
		anyReadable |= a.get(i);

	// (b) set() and "set every index" describe the same set
	BitArrayT<N> whole, each;
	whole.set();
	for (unsigned i = 0; i < N; ++i)
		each.set(i);

	// (c) clear() does restore it (for reference)
	BitArrayT<N> c;
	c.set();
	c.clear();

	printf("capacity %3u: after set()+clear(i) for all i: any get(i)=%d empty()=%d (demanded 1) | set() != {all i}: %d (demanded 0) | set()+clear(): empty()=%d\n",
		   N, int(anyReadable), int(a.empty()), int(whole != each), int(c.empty()));

	if (!anyReadable && !a.empty()) ++violations;
	if (whole != each)				++violations;

	return violations;
}

int main() {
	int violations = 0;

	violations += check< 5>();
	violations += check< 8>();	// no padding: fine
	violations += check< 9>();
	violations += check<13>();	// the STATE_COUNT of test_serialization's machine (TasksBits)
	violations += check<16>();	// no padding: fine
	violations += check<255>();

	printf("property C18 demands: set/clear/empty/compare behave as operations on the set of indices [0, CAPACITY)\n");
	printf("violations: %d\n", violations);
	return violations ? 1 : 0;
}
