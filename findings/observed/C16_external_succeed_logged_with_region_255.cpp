// C16: records must carry the right state identifiers.
// Instance::succeed() / fail() called from outside report "no region" as INVALID_REGION_ID (an 8-bit constant, 255)
// through a StateID (16-bit) parameter. In a machine with more than 255 states 255 is an ordinary state identifier:
// the logger is told that the task status was raised inside an unrelated region.
//
// build: g++ -std=gnu++17 -I include found/3/demo.cpp -o demo      (about 20-40 s, 259 states)

#define HFSM2_ENABLE_PLANS
#define HFSM2_ENABLE_LOG_INTERFACE
#include <hfsm2/machine.hpp>

#include <cstdio>

using M = hfsm2::Machine;

template <int NRegion, int NIndex>
struct Leaf;

#define L1(R, N)	Leaf<R, N>
#define L2(R, N)	L1 (R, N), L1 (R, N +  1)
#define L4(R, N)	L2 (R, N), L2 (R, N +  2)
#define L8(R, N)	L4 (R, N), L4 (R, N +  4)
#define L16(R, N)	L8 (R, N), L8 (R, N +  8)
#define L32(R, N)	L16(R, N), L16(R, N + 16)
#define L64(R, N)	L32(R, N), L32(R, N + 32)
#define L126(R)		L64(R, 0), L32(R, 64), L16(R, 96), L8(R, 112), L4(R, 120), L2(R, 124)

struct Root;
struct Work;	// state   1, region with 126 leaves:   2..127
struct Spare;	// state 128, region with 126 leaves: 129..254
struct Other;	// state 255, an unrelated region     256..257

using FSM = M::Root<Root,
				M::Composite<Work , L126(1)>,
				M::Composite<Spare, L126(2)>,
				M::Composite<Other, L2(3, 0)>
			>;

static_assert(FSM::stateId<Work >() ==   1, "");
static_assert(FSM::stateId<Spare>() == 128, "");
static_assert(FSM::stateId<Other>() == 255, "");

struct Root  : FSM::State {};
struct Work  : FSM::State {};
struct Spare : FSM::State {};
struct Other : FSM::State {};

template <int NRegion, int NIndex>
struct Leaf : FSM::State {};

// the first leaf of 'Work' reports success from inside
template <>
struct Leaf<1, 0> : FSM::State {
	void update(FullControl& control) { control.succeed(); }
};

struct Logger
	: FSM::Instance::Logger
{
	void recordTransition(const Context&, const hfsm2::StateID origin, const hfsm2::TransitionType, const hfsm2::StateID target) override {
		printf("  transition  : origin=%u target=%u\n", (unsigned) origin, (unsigned) target);
		lastOrigin = origin;
	}

	void recordTaskStatus(const Context&, const hfsm2::StateID region, const hfsm2::StateID origin, const StatusEvent) override {
		printf("  task status : region=%u state=%u\n", (unsigned) region, (unsigned) origin);
		lastRegion = region;
	}

	hfsm2::StateID lastOrigin = 0;
	hfsm2::StateID lastRegion = 0;
};

int main() {
	Logger logger;
	FSM::Instance machine{&logger};

	printf("Leaf<1, 0>::update() calls control.succeed():\n");
	machine.update();
	const hfsm2::StateID fromInside = logger.lastRegion;

	printf("external machine.changeTo<Spare>():\n");
	machine.changeTo<Spare>();
	const hfsm2::StateID externalOrigin = logger.lastOrigin;

	printf("external machine.succeed<Leaf<1, 0>>():\n");
	machine.succeed<Leaf<1, 0>>();
	const hfsm2::StateID fromOutside = logger.lastRegion;

	printf("stateId<Work>() = %u, stateId<Other>() = %u, INVALID_STATE_ID = %u\n",
		   (unsigned) FSM::stateId<Work>(), (unsigned) FSM::stateId<Other>(), (unsigned) hfsm2::INVALID_STATE_ID);
	printf("property demands: a record never names a state that has nothing to do with it; \"no state\" is INVALID_STATE_ID "
		   "(what the external changeTo() reports as its origin: %u)\n", (unsigned) externalOrigin);

	if (fromInside   == FSM::stateId<Work>()	 &&
		externalOrigin == hfsm2::INVALID_STATE_ID &&
		fromOutside  == FSM::stateId<Other>())
	{
		printf("VIOLATION: the external succeed() was reported as raised in region %u == stateId<Other>()\n", (unsigned) fromOutside);
		return 1;
	}

	return 0;
}
