// C02, clause "Regions no request touches keep their sub-state".
//
// A request aimed at a DIRECT sub-state of an active orthogonal region (a sub-region
// B_1, or a leaf L) re-enters the whole orthogonal region and re-resolves every
// sibling region by the request kind: B_2 is thrown back from B_2_2 to B_2_1 although
// no request mentions B_2 or anything inside it.
//
// build: g++ -std=gnu++17 -I include found/2/demo.cpp -o demo

#include <hfsm2/machine.hpp>
#include <cstdio>

using M = hfsm2::Machine;

#define S(s) struct s
using FSM = M::PeerRoot<
				S(Idle),
				M::Orthogonal<S(B),
					M::Composite<S(B_1), S(B_1_1), S(B_1_2)>,
					M::Composite<S(B_2), S(B_2_1), S(B_2_2)>,
					S(L)
				>
			>;
#undef S

static int exits_B_2_2 = 0;
static int reenters_B  = 0;

struct Idle  : FSM::State {};
struct B	 : FSM::State { void reenter(PlanControl&) { ++reenters_B; } };
struct B_1	 : FSM::State {};
struct B_1_1 : FSM::State {};
struct B_1_2 : FSM::State {};
struct B_2	 : FSM::State {};
struct B_2_1 : FSM::State {};
struct B_2_2 : FSM::State { void exit(PlanControl&) { ++exits_B_2_2; } };
struct L	 : FSM::State {};

static void dump(const FSM::Instance& m, const char* what) {
	std::printf("%-28s B=%d | B_1: _1=%d _2=%d | B_2: _1=%d _2=%d | L=%d\n", what,
				m.isActive<B>(),
				m.isActive<B_1_1>(), m.isActive<B_1_2>(),
				m.isActive<B_2_1>(), m.isActive<B_2_2>(),
				m.isActive<L>());
}

int main() {
	int violations = 0;

	// 1. request aimed at the sub-region B_1
	{
		FSM::Instance m;
		m.immediateChangeTo<B_1_2>();
		m.immediateChangeTo<B_2_2>();
		dump(m, "start");

		exits_B_2_2 = reenters_B = 0;
		m.immediateChangeTo<B_1>();
		dump(m, "changeTo<B_1>()");
		std::printf("  B reentered %d time(s), B_2_2 exited %d time(s)\n", reenters_B, exits_B_2_2);

		if (!m.isActive<B_2_2>()) ++violations;
	}

	// 2. request aimed at the leaf L, which is already active
	{
		FSM::Instance m;
		m.immediateChangeTo<B_1_2>();
		m.immediateChangeTo<B_2_2>();

		m.immediateRestart<L>();
		dump(m, "restart<L>()");

		if (!m.isActive<B_2_2>() || !m.isActive<B_1_2>()) ++violations;
	}

	// control: a request one level deeper leaves the sibling alone
	{
		FSM::Instance m;
		m.immediateChangeTo<B_1_2>();
		m.immediateChangeTo<B_2_2>();

		m.immediateChangeTo<B_1_1>();
		dump(m, "control: changeTo<B_1_1>()");
	}

	std::printf("property demands: B_2 keeps B_2_2 - no request touches B_2 (it is orthogonal to B_1 and L)\n");
	std::printf("observed        : %d of 2 requests reset the sibling region(s)\n", violations);

	return violations ? 1 : 0;
}
