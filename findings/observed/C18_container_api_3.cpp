// C18: Bits::clear() (whole view) wipes the complete last byte, i.e. indices beyond the view's width.
// Build: g++ -std=gnu++17 -I include found/3/demo.cpp -o demo
#include <hfsm2/machine.hpp>
#include <cstdio>

using hfsm2::detail::BitArrayT;
using hfsm2::detail::Units;

int main() {
	int violations = 0;

	// static view: unit 0, width 4 -> indices 0..3 of the array
	{
		BitArrayT<16> array;
		array.set(3);	// inside the view
		array.set(6);	// outside the view, same byte
		array.set(9);	// outside the view, next byte

		auto view = array.bits<0, 4>();
		const bool nonEmptyBefore = static_cast<bool>(view);	// operator bool() honours the width
		view.clear();

		printf("bits<0,4>().clear(): bit3=%d (demanded 0) bit6=%d (demanded 1) bit9=%d (demanded 1), view non-empty before=%d\n",
			   int(array.get(3)), int(array.get(6)), int(array.get(9)), int(nonEmptyBefore));

		if (!array.get(6)) ++violations;
		if (!array.get(9)) ++violations;
	}

	// operator bool() and clear() disagree about what belongs to the view
	{
		BitArrayT<16> array;
		array.set(6);

		auto view = array.bits<0, 4>();
		const bool empty = !view;	// true: index 6 is not part of the view
		view.clear();				// ...but clear() removes it

		printf("view<0,4> reports empty=%d while bit6 is set; after clearing the 'empty' view bit6=%d (demanded 1)\n",
			   int(empty), int(array.get(6)));

		if (empty && !array.get(6)) ++violations;
	}

	// dynamic view, every unit offset / width that is not a multiple of 8
	{
		int wrong = 0, total = 0;

		for (unsigned unit = 0; unit < 4; ++unit)
			for (unsigned width = 1; unit * 8 + width <= 32; ++width) {
				BitArrayT<32> array;
				array.set();

				auto view = array.bits(Units{static_cast<hfsm2::Short>(unit), static_cast<hfsm2::Short>(width)});
				view.clear();

				bool exact = true;
				for (unsigned i = 0; i < 32; ++i) {
					const bool inside = unit * 8 <= i && i < unit * 8 + width;
					if (array.get(i) == inside)
						exact = false;
				}

				++total;
				if (!exact) ++wrong;
			}

		printf("dynamic views: clear() touched indices outside [unit*8, unit*8+width) for %d of %d (unit, width) pairs (demanded 0)\n", wrong, total);
		violations += wrong ? 1 : 0;
	}

	printf("property C18 demands: sub-range views address exactly their range\n");
	printf("violations: %d\n", violations);
	return violations ? 1 : 0;
}
