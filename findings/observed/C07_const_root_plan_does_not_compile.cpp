// observed (round 7, C07 seeding agent): the const overloads of R_::plan() do not compile -
// they construct CPlan{_core.registry, _core.planData, regionId}, CPlanT's constructor takes (const PlanData&, RegionID).
// build: g++ -std=gnu++17 -I include constplan.cpp   (fails to compile on the unchanged tree; compiles with -DNO_CONST_PLAN)
#define HFSM2_ENABLE_PLANS
#include <hfsm2/machine.hpp>
using M = hfsm2::Machine;
struct A; struct B;
using FSM = M::PeerRoot<A, B>;
struct A : FSM::State {};
struct B : FSM::State {};
int main() {
	FSM::Instance machine;
	const FSM::Instance& c = machine;
#ifndef NO_CONST_PLAN
	auto p = c.plan();
	return p ? 1 : 0;
#else
	(void) c;
	return 0;
#endif
}
