// C11 / clause "excess requests are rejected without corrupting state"
//
// A plan step whose transition request does not fit into the request queue is
// consumed anyway: FullControlT::updatePlan() calls changeTo() - which silently
// drops the request when CoreT::requests is full - and then removes the task
// from the plan unconditionally. The plan loses a step and can never finish.
//
// build: g++ -std=gnu++17 -I include found/1/demo.cpp -o demo

#define HFSM2_ENABLE_PLANS
#include <hfsm2/machine.hpp>

#include <cstdio>

using M = hfsm2::Machine;

struct Root; struct A; struct B; struct C; struct Idle;

// one composite region => CoreT::requests holds exactly COMPO_COUNT == 1 request per step
using FSM = M::Root<Root, A, B, C, Idle>;

static int planSucceededCalls = 0;
static int planFailedCalls    = 0;

struct Root : FSM::State {
	void enter(PlanControl& control) {
		auto plan = control.plan();
		plan.change<A, B>();	// step 1
		plan.change<B, C>();	// step 2
	}
	void planSucceeded(FullControl&) { ++planSucceededCalls; }
	void planFailed   (FullControl&) { ++planFailedCalls;	 }
};

struct A : FSM::State {
	bool first = true;

	void update(FullControl& control) {
		if (first) {
			first = false;
			control.schedule<Idle>();	// an ordinary request; the queue (capacity 1) is full now
		}
		control.succeed();				// A is done (every update): the plan should move on to B
	}
};

struct B    : FSM::State { void update(FullControl& control) { control.succeed(); } };
struct C    : FSM::State { void update(FullControl& control) { control.succeed(); } };
struct Idle : FSM::State {};

static unsigned printPlan(FSM::Instance& fsm) {
	unsigned n = 0;
	auto plan = fsm.plan();
	for (auto it = plan.begin(); it; ++it) {
		std::printf(" [%d -> %d]", (int) it->origin, (int) it->destination);
		++n;
	}
	std::printf("\n");
	return n;
}

static const char* active(const FSM::Instance& fsm) {
	return fsm.isActive<A>() ? "A" : fsm.isActive<B>() ? "B" : fsm.isActive<C>() ? "C" : "Idle";
}

int main() {
	FSM::Instance fsm;

	std::printf("start             : active %s, plan (state ids):", active(fsm));
	const unsigned before = printPlan(fsm);

	// A schedules Idle and succeeds; the plan answers the success with changeTo(B):
	// that request is the excess one and is dropped by DynamicArrayT::emplace()
	fsm.update();

	std::printf("after update #1   : active %s, plan (state ids):", active(fsm));
	const unsigned after = printPlan(fsm);

	// the plan step A -> B was not executed (B was not entered) ..
	const bool stepExecuted = fsm.isActive<B>();
	// .. but it is gone from the plan
	const bool stepLost = !stepExecuted && after < before;

	// consequence: the plan can neither advance nor finish, however often A succeeds
	for (int i = 0; i < 10; ++i)
		fsm.update();

	std::printf("10 updates later  : active %s, plan (state ids):", active(fsm));
	const unsigned later = printPlan(fsm);
	std::printf("planSucceeded() calls: %d, planFailed() calls: %d\n", planSucceededCalls, planFailedCalls);

	const bool stuck = fsm.isActive<A>() && later == after && planSucceededCalls == 0 && planFailedCalls == 0;

	std::printf("\nproperty demands  : a request that does not fit into the queue is rejected and nothing else changes -\n"
				"                    the plan still holds [A -> B] and issues it again on the next success of A\n");
	std::printf("observed          : step [A -> B] %s; the plan %s\n",
				stepLost ? "was removed although its transition was dropped" : "is intact",
				stuck	 ? "is stuck for good (A keeps succeeding, nothing happens, no planSucceeded/planFailed)" : "keeps running");

	return stepLost && stuck ? 1 : 0;
}
