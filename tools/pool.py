"""Scratch-worktree pool for the self-test tools (catch_matrix.py, selftest.py).

Each worker owns a detached git worktree of /repo at HEAD under /tmp/hfsm2_pool/w<i> and an evidence directory
/tmp/hfsm2_pool/ev<i>; a patch is applied there (git apply), the checks are run with HFSM2_REPO / HFSM2_EVIDENCE pointing at the
worker's directories, and the worktree is reverted (git checkout -- .).  /repo's working tree and /verif/evidence are never touched,
so registered checks may run at the same time.  remove() deletes the worktrees and the pool directory.
Registered commands never use this module.
"""
import os, queue, re, shutil, subprocess

V = "/verif"
R = "/repo"
POOL = "/tmp/hfsm2_pool/%d" % os.getpid()       # per process: concurrent tools must not share (or remove) each other's worktrees


def sh(cmd, cwd=None, env=None):
    e = dict(os.environ)
    if env:
        e.update(env)
    r = subprocess.run(cmd, shell=True, cwd=cwd, env=e, stdout=subprocess.PIPE, stderr=subprocess.STDOUT, text=True)
    return r.returncode, r.stdout


class Pool:
    def __init__(self, n):
        self.n = n
        self.q = queue.Queue()
        self.head = sh("git rev-parse HEAD", cwd=R)[1].strip()
        os.makedirs(POOL, exist_ok=True)
        for i in range(n):
            w = "%s/w%d" % (POOL, i)
            if not os.path.isdir(w):
                rc, out = sh("git worktree add -q --detach %s %s" % (w, self.head), cwd=R)
                assert rc == 0, out
            else:
                rc, out = sh("git reset -q --hard && git checkout -q --detach %s" % self.head, cwd=w)
                assert rc == 0, out
            os.makedirs("%s/ev%d" % (POOL, i), exist_ok=True)
            self.q.put(i)

    def run(self, patch, props, tier="quick"):
        """apply `patch` in a free worker, run the checks of `props`, revert; -> {prop: {exit, rules, reports}} or {'error': ...}"""
        i = self.q.get()
        w = "%s/w%d" % (POOL, i)
        ev = "%s/ev%d" % (POOL, i)
        try:
            rc, out = sh("git apply %s" % patch, cwd=w)
            if rc != 0:
                return {"error": "patch does not apply to %s: %s" % (self.head[:7], out[:300])}
            res = {}
            for p in props:
                rc, out = sh("./verif check %s --tier %s" % (p, tier), cwd=V, env={"HFSM2_REPO": w, "HFSM2_EVIDENCE": ev})
                rules = sorted(set(re.findall(r"\[(C\d\d\.[\w-]+)\]", out)))
                ls = out.splitlines()
                reports = [ls[k + 1].strip()[:400] for k, l in enumerate(ls[:-1]) if l.startswith("VIOLATION")][:4] + [l[:400] for l in ls if "analysis broken" in l][:2]
                if not rules and p == "C17":
                    rules = sorted(set("C17.shape/" + m for m in re.findall(r"shapes fail `([^`]+)`", out)))[:4]
                res[p] = {"exit": rc, "rules": rules, "reports": reports}
            return res
        finally:
            sh("git checkout -q -- . && git clean -fdq", cwd=w)
            self.q.put(i)

    def remove(self):
        for i in range(self.n):
            sh("git worktree remove --force %s/w%d" % (POOL, i), cwd=R)
        shutil.rmtree(POOL, ignore_errors=True)
        try:
            os.rmdir(os.path.dirname(POOL))
        except OSError:
            pass
        sh("git worktree prune", cwd=R)
