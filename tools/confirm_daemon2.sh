#!/bin/sh
# round 2: polls /tmp/confirm2_q for files named <prop>; seeds live in /tmp/wt2/<prop>/seed; confirmed ones are filed as seeded/<prop>-r2-<k>
mkdir -p /tmp/confirm2_q
export CONFIRM_WT=/tmp/confirm2/wt CONFIRM_TAG=r2- CONFIRM_JOBS=10
while [ ! -e /tmp/confirm2_q/STOP ]; do
  f=$(ls -tr /tmp/confirm2_q 2>/dev/null | grep -v STOP | head -1)
  if [ -n "$f" ]; then
    ks=$(cat /tmp/confirm2_q/$f); rm -f /tmp/confirm2_q/$f
    python3 /verif/tools/confirm_seeds.py $f /tmp/wt2/$f/seed $ks >> /tmp/confirm2_$f.log 2>&1
  else
    sleep 15
  fi
done
