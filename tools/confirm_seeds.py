#!/usr/bin/env python3
"""Confirm seeded mutations produced by sub-agents and file them under /verif/seeded/<prop>-<k>/.

usage: confirm_seeds.py <prop> <seed-dir> [k ...]
For each mutation k: in a scratch worktree of /repo (outside /repo and /verif) check that
  (1) the demo builds and exits 0 on the clean tree, (2) the patch applies, (3) the demo exits non-zero with it,
  (4) the repository's own test suite builds and passes with it (doctest summary, 0 failed).
Only then is it kept.  The scratch worktree is reused between calls and removed with --cleanup.
"""
import json, os, shutil, subprocess, sys, time

WT = os.environ.get("CONFIRM_WT", "/tmp/confirm/wt")          # round 2 (seeds made against the repaired HEAD): CONFIRM_WT=/tmp/confirm2/wt CONFIRM_TAG=r2-
TAG = os.environ.get("CONFIRM_TAG", "")
SCR = os.path.dirname(WT)
REPO = "/repo"


def sh(cmd, cwd=None, timeout=3600):
    r = subprocess.run(cmd, shell=True, cwd=cwd, stdout=subprocess.PIPE, stderr=subprocess.STDOUT, text=True, timeout=timeout)
    return r.returncode, r.stdout


def ensure_wt():
    if not os.path.isdir(WT):
        os.makedirs(os.path.dirname(WT), exist_ok=True)
        rc, out = sh("git -C %s worktree add --detach %s HEAD" % (REPO, WT))
        assert rc == 0, out
    sh("git checkout -- . && git clean -fdq -e _build", cwd=WT)
    if not os.path.isdir(WT + "/_build"):
        rc, out = sh("cmake -G Ninja -B _build -DHFSM2_BUILD_TESTS=ON -DCMAKE_BUILD_TYPE= '-DCMAKE_CXX_FLAGS=-O0 -Wno-error' >/dev/null", cwd=WT)
        assert rc == 0, out


def main():
    if sys.argv[1] == "--cleanup":
        sh("git -C %s worktree remove --force %s" % (REPO, WT))
        shutil.rmtree(SCR, ignore_errors=True)
        return
    prop, sdir = sys.argv[1], sys.argv[2]
    ks = sys.argv[3:] or sorted(d for d in os.listdir(sdir) if os.path.isdir(os.path.join(sdir, d)))
    ensure_wt()
    for k in ks:
        src = os.path.join(sdir, k)
        res = {"property": prop, "k": k}
        try:
            meta = json.load(open(os.path.join(src, "meta.json")))
        except Exception as e:
            meta = {"error": "meta.json unreadable: %s" % e}
        build = meta.get("demo_build") or ""
        extra = ""
        for tok in build.split("(")[0].split():
            if tok.startswith("-D") or tok.startswith("-std=") or tok.startswith("-O") or tok.startswith("-f"):
                extra += " " + tok
        if "-std=" not in extra:
            extra += " -std=gnu++17"
        sh("git checkout -- include development", cwd=WT)
        demo = os.path.join(src, "demo.cpp")
        rc, out = sh("g++ %s -I include %s -o %s/demo_clean" % (extra, demo, SCR), cwd=WT)
        res["demo_builds_clean"] = rc == 0
        rc1, out1 = sh("%s/demo_clean" % SCR, cwd=WT, timeout=120) if rc == 0 else (99, out)
        res["demo_clean_rc"] = rc1
        rc, out = sh("git apply %s" % os.path.join(src, "patch.diff"), cwd=WT)
        res["patch_applies"] = rc == 0
        if rc == 0:
            rc, out = sh("g++ %s -I include %s -o %s/demo_patched" % (extra, demo, SCR), cwd=WT)
            res["demo_builds_patched"] = rc == 0
            rc2, out2 = sh("%s/demo_patched" % SCR, cwd=WT, timeout=120) if rc == 0 else (99, out)
            res["demo_patched_rc"] = rc2
            res["demo_patched_out"] = out2[-400:]
            t = time.time()
            rc, out = sh("ninja -C _build -j %s hfsm2_test 2>&1 | tail -15" % os.environ.get("CONFIRM_JOBS", "12"), cwd=WT)
            rc3, out3 = sh("./_build/hfsm2_test 2>&1 | tail -4", cwd=WT, timeout=600)
            res["suite_build_s"] = round(time.time() - t)
            res["suite_tail"] = out3.strip()[-300:]
            res["suite_passes"] = ("test cases:" in out3 and " 0 failed" in out3.split("test cases:")[1].split("\n")[0])
            # flavours in step?
            rc, d = sh("git diff --stat -- include development | tail -1", cwd=WT)
            res["diffstat"] = d.strip()
        ok = (res.get("demo_clean_rc") == 0 and res.get("patch_applies") and res.get("demo_patched_rc") not in (0, None, 99)
              and res.get("suite_passes"))
        res["confirmed"] = bool(ok)
        print(json.dumps(res))
        sys.stdout.flush()
        dst = "/verif/seeded/%s-%s%s" % (prop, TAG, k)
        if ok:
            os.makedirs(dst, exist_ok=True)
            shutil.copy(os.path.join(src, "patch.diff"), dst)
            shutil.copy(demo, dst)
            meta["breaks_property"] = prop
            meta["confirmation"] = {"by": "tools/confirm_seeds.py in scratch worktree %s" % WT, "demo_clean_rc": res["demo_clean_rc"],
                                    "demo_patched_rc": res["demo_patched_rc"], "suite": res["suite_tail"],
                                    "suite_build": "cmake -G Ninja -DHFSM2_BUILD_TESTS=ON -DCMAKE_CXX_FLAGS='-O0 -Wno-error'; ninja hfsm2_test; ./_build/hfsm2_test"}
            json.dump(meta, open(os.path.join(dst, "meta.json"), "w"), indent=1)
        sh("git checkout -- include development", cwd=WT)


if __name__ == "__main__":
    main()
