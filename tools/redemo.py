#!/usr/bin/env python3
"""Re-run every seed's demonstration on /repo HEAD: demo exits 0 on the clean tree and non-zero with patch.diff applied.
(The repository suite was run with each change when it was confirmed, tools/confirm_seeds.py; this re-check is about the rebased patches.)
usage: redemo.py [--jobs N] [seed ...]   -> seeded/REDEMO.json.  Scratch worktrees /tmp/redemo/<i>, removed at the end."""
import json, os, subprocess, sys, shutil, queue
from concurrent.futures import ThreadPoolExecutor
V, R, S = "/verif", "/repo", "/tmp/redemo"

def sh(cmd, cwd=None, timeout=900):
    try:
        r = subprocess.run(cmd, shell=True, cwd=cwd, stdout=subprocess.PIPE, stderr=subprocess.STDOUT, text=True, timeout=timeout)
        return r.returncode, r.stdout
    except subprocess.TimeoutExpired:
        return 124, "timeout"

def main():
    args = sys.argv[1:]
    jobs = 6
    if "--jobs" in args:
        i = args.index("--jobs"); jobs = int(args[i + 1]); del args[i:i + 2]
    seeds = args or sorted(d for d in os.listdir(V + "/seeded") if os.path.isdir(V + "/seeded/" + d) and d != "retired")
    head = sh("git rev-parse --short HEAD", cwd=R)[1].strip()
    q = queue.Queue()
    os.makedirs(S, exist_ok=True)
    for i in range(jobs):
        rc, out = sh("git worktree add -q --detach %s/%d HEAD" % (S, i), cwd=R)
        assert rc == 0, out
        q.put(i)

    def one(s):
        i = q.get()
        w = "%s/%d" % (S, i)
        try:
            d = V + "/seeded/" + s
            meta = json.load(open(d + "/meta.json"))
            extra = ""
            for tok in (meta.get("demo_build") or "").split("(")[0].split():
                if tok[:2] in ("-D", "-O", "-f") or tok.startswith("-std="):
                    extra += " " + tok
            if "-std=" not in extra:
                extra += " -std=gnu++17"
            demo = [f for f in os.listdir(d) if f.endswith(".cpp")]
            if not demo:
                return s, {"error": "no demo"}
            demo = d + "/" + ("demo.cpp" if "demo.cpp" in demo else demo[0])
            res = {"repo_head": head}
            rc, out = sh("g++ %s -I include %s -o %s/demo_%d" % (extra, demo, S, i), cwd=w)
            res["clean_rc"] = sh("%s/demo_%d" % (S, i), cwd=w, timeout=120)[0] if rc == 0 else "build failed: " + out[-200:]
            rc, out = sh("git apply %s/patch.diff" % d, cwd=w)
            if rc != 0:
                res["patched_rc"] = "patch does not apply"
            else:
                rc, out = sh("g++ %s -I include %s -o %s/demo_%d" % (extra, demo, S, i), cwd=w)
                res["patched_rc"] = sh("%s/demo_%d" % (S, i), cwd=w, timeout=120)[0] if rc == 0 else "build failed: " + out[-200:]
            res["ok"] = res["clean_rc"] == 0 and isinstance(res["patched_rc"], int) and res["patched_rc"] != 0
            return s, res
        finally:
            sh("git checkout -q -- . && git clean -fdq", cwd=w)
            q.put(i)

    out = {}
    bad = 0
    try:
        with ThreadPoolExecutor(jobs) as ex:
            for s, r in ex.map(one, seeds):
                out[s] = r
                bad += not r.get("ok")
                print(s, r, flush=True)
    finally:
        for i in range(jobs):
            sh("git worktree remove --force %s/%d" % (S, i), cwd=R)
        shutil.rmtree(S, ignore_errors=True)
        sh("git worktree prune", cwd=R)
    json.dump(out, open(V + "/seeded/REDEMO.json", "w"), indent=1, sort_keys=True)
    print("%d/%d ok" % (len(seeds) - bad, len(seeds)))
    sys.exit(1 if bad else 0)

main()
