#!/opt/veriftools/pyvenv/bin/python3
import json, jsonschema, sys, glob
jsonschema.validate(json.load(open('/verif/MANIFEST.json')), json.load(open('/root/.vp/MANIFEST.schema.json')))
print('manifest ok')
s = json.load(open('/root/.vp/EVIDENCE.schema.json'))
for f in sorted(glob.glob('/verif/evidence/*.json')):
    jsonschema.validate(json.load(open(f)), s); print('evidence ok', f)
