#!/usr/bin/env python3
"""Print the seeded-change / catching-rule table (markdown) from seeded/*/meta.json and seeded/CATCH.json."""
import json, os, glob

V = "/verif"
catch = json.load(open(V + "/seeded/CATCH.json")) if os.path.exists(V + "/seeded/CATCH.json") else {}
print("| seed | changed function(s) | what it breaks (one line) | check exit | reporting rule(s) |")
print("|---|---|---|---|---|")
for d in sorted(x for x in glob.glob(V + "/seeded/*/") if not x.rstrip("/").endswith("retired")):
    s = os.path.basename(d.rstrip("/"))
    m = json.load(open(d + "meta.json"))
    fn = ", ".join(m.get("functions", []))[:90]
    summ = (m.get("summary") or "").replace("|", "/").replace("\n", " ")
    if len(summ) > 150:
        summ = summ[:147] + "..."
    c = catch.get(s, {})
    own = (c.get("checks") or {}).get(m.get("breaks_property") or m.get("property") or s.split("-")[0], {})
    extra = [p + ":" + ",".join(x["rules"]) for p, x in (c.get("checks") or {}).items() if p != s.split("-")[0] and x.get("exit") == 1]
    print("| %s | `%s` | %s | %s | %s%s |" % (s, fn.replace("|", "/"), summ, own.get("exit", "?"), ", ".join(r.split(".", 1)[1] for r in own.get("rules", [])) or "—",
                                            ("; also " + "; ".join(extra)) if extra else ""))
