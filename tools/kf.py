#!/usr/bin/env python3
"""kf.py add <property> <key> <what>   |  kf.py fixed <key> <commit>  — maintain known_findings.json (never used at check time)"""
import json, sys
P = '/verif/known_findings.json'
d = json.load(open(P))
if sys.argv[1] == 'add':
    prop, key, what = sys.argv[2:5]
    if not any(f['key'] == key for f in d['findings']):
        d['findings'].append({"property": prop, "key": key, "status": "known", "what": what})
elif sys.argv[1] == 'fixed':
    key, commit = sys.argv[2:4]
    for f in d['findings']:
        if f['key'] == key:
            f['status'] = 'fixed'; f['commit'] = commit
            f['record'] = "fixed: property=%s %s %s" % (f['property'], commit, f['what'])
s = json.dumps(d, indent=1)
open(P, 'w').write(s + "\n")
