// hfx — fact extractor for the HFSM2 static checks (clang 14 libTooling).
//
// Usage: hfx --out=<file.json> --roots=/repo/include,/repo/development <tu.cpp> -- <compile flags>
//
// Walks the type-checked translation unit, including template instantiations, and writes for
// every function whose definition lies under one of the roots: identity (class, method,
// pattern location, owning record type), parameters and the body as a structured tree with
// resolved callees, resolved fields and evaluated constants.  For every record type under the
// roots: template name and arguments, bases, fields, static constants, constructors with their
// initialiser lists, special-member provenance, layout.  Nothing is executed.
//
// Every construct the extractor cannot represent is written as {"k":"opaque","c":<class>} so
// that a rule touching it can fail as "analysis broken" instead of passing silently.

#include "clang/AST/ASTConsumer.h"
#include "clang/AST/ASTContext.h"
#include "clang/AST/DeclCXX.h"
#include "clang/AST/DeclTemplate.h"
#include "clang/AST/Expr.h"
#include "clang/AST/ExprCXX.h"
#include "clang/AST/RecordLayout.h"
#include "clang/AST/RecursiveASTVisitor.h"
#include "clang/AST/StmtCXX.h"
#include "clang/Basic/SourceManager.h"
#include "clang/Frontend/CompilerInstance.h"
#include "clang/Frontend/FrontendAction.h"
#include "clang/Lex/PPCallbacks.h"
#include "clang/Lex/Preprocessor.h"
#include "clang/Tooling/CommonOptionsParser.h"
#include "clang/Tooling/Tooling.h"
#include "llvm/Support/CommandLine.h"
#include "llvm/Support/JSON.h"
#include "llvm/Support/raw_ostream.h"

#include <map>
#include <set>
#include <string>
#include <vector>

using namespace clang;
namespace json = llvm::json;

static llvm::cl::OptionCategory Cat("hfx options");
static llvm::cl::opt<std::string> OutFile("out", llvm::cl::desc("output json"), llvm::cl::cat(Cat), llvm::cl::init("-"));
static llvm::cl::opt<std::string> Roots("roots", llvm::cl::desc("comma separated source roots"), llvm::cl::cat(Cat),
										llvm::cl::init("/repo/include,/repo/development"));
static llvm::cl::opt<bool> NoPatterns("no-patterns", llvm::cl::desc("skip uninstantiated template patterns"), llvm::cl::cat(Cat));

namespace {

struct Extractor {
	ASTContext& Ctx;
	SourceManager& SM;
	PrintingPolicy PP;
	std::vector<std::string> roots;

	std::map<const FunctionDecl*, int> fnIds;
	std::vector<const FunctionDecl*> fnList;
	std::map<const Type*, int> tyIds;
	std::vector<const CXXRecordDecl*> tyList;
	std::set<const FunctionDecl*> bodiesWanted;
	unsigned opaque = 0;
	std::map<std::string, unsigned> opaqueKinds;
	std::set<std::string> curMems;   // field names mentioned by the function being dumped
	std::set<int> curCalls;          // callee ids of the function being dumped

	Extractor(ASTContext& C) : Ctx(C), SM(C.getSourceManager()), PP(C.getPrintingPolicy()) {
		PP.SuppressTagKeyword = true;
		PP.Bool = true;
		PP.SuppressUnwrittenScope = true;
		size_t p = 0;
		std::string r = Roots;
		while (true) {
			size_t q = r.find(',', p);
			std::string s = r.substr(p, q == std::string::npos ? std::string::npos : q - p);
			if (!s.empty()) roots.push_back(s);
			if (q == std::string::npos) break;
			p = q + 1;
		}
	}

	// ---------------------------------------------------------------- locations
	std::string fileOf(SourceLocation L) {
		if (L.isInvalid()) return "";
		L = SM.getExpansionLoc(L);
		return SM.getFilename(L).str();
	}
	unsigned lineOf(SourceLocation L) {
		if (L.isInvalid()) return 0;
		return SM.getExpansionLineNumber(L);
	}
	bool inRoots(SourceLocation L) {
		std::string f = fileOf(L);
		for (auto& r : roots)
			if (f.compare(0, r.size(), r) == 0) return true;
		return false;
	}
	std::string locStr(SourceLocation L) {
		if (L.isInvalid()) return "";
		L = SM.getExpansionLoc(L);
		return SM.getFilename(L).str() + ":" + std::to_string(SM.getExpansionLineNumber(L)) + ":" +
			   std::to_string(SM.getExpansionColumnNumber(L));
	}

	// ---------------------------------------------------------------- ids
	int fnId(const FunctionDecl* FD) {
		if (!FD) return -1;
		const FunctionDecl* C = FD->getCanonicalDecl();
		auto it = fnIds.find(C);
		if (it != fnIds.end()) return it->second;
		int id = (int)fnList.size();
		fnIds[C] = id;
		fnList.push_back(C);
		return id;
	}
	int tyId(const CXXRecordDecl* RD) {
		if (!RD) return -1;
		const Type* T = RD->getTypeForDecl();
		if (!T) return -1;
		T = T->getCanonicalTypeInternal().getTypePtr();
		auto it = tyIds.find(T);
		if (it != tyIds.end()) return it->second;
		int id = (int)tyList.size();
		tyIds[T] = id;
		const CXXRecordDecl* Def = RD->getDefinition();
		tyList.push_back(Def ? Def : RD);
		return id;
	}
	int tyIdOf(QualType QT) {
		if (QT.isNull()) return -1;
		QT = QT.getNonReferenceType();
		while (QT->isPointerType()) QT = QT->getPointeeType();
		while (const ArrayType* AT = Ctx.getAsArrayType(QT)) QT = AT->getElementType();
		if (const CXXRecordDecl* RD = QT->getAsCXXRecordDecl()) return tyId(RD);
		return -1;
	}

	std::string typeStr(QualType QT) {
		if (QT.isNull()) return "?";
		std::string s = QT.getAsString(PP);
		if (s.size() > 160) s = s.substr(0, 157) + "...";
		return s;
	}
	std::string canonBuiltin(QualType QT) {
		if (QT.isNull()) return "";
		QualType C = QT.getCanonicalType().getNonReferenceType().getUnqualifiedType();
		if (C->isBuiltinType()) return C.getAsString(PP);
		if (const EnumType* ET = C->getAs<EnumType>()) {
			QualType U = ET->getDecl()->getIntegerType();
			if (!U.isNull()) return "enum:" + U.getCanonicalType().getAsString(PP);
		}
		if (C->isPointerType()) return "ptr";
		return "";
	}

	// ---------------------------------------------------------------- template args
	json::Value targ(const TemplateArgument& A) {
		switch (A.getKind()) {
		case TemplateArgument::Type: {
			QualType QT = A.getAsType();
			if (const CXXRecordDecl* RD = QT->getAsCXXRecordDecl()) {
				json::Object o;
				o["t"] = tyId(RD);
				return std::move(o);
			}
			return typeStr(QT);
		}
		case TemplateArgument::Integral: {
			json::Object o;
			o["v"] = (int64_t)A.getAsIntegral().getExtValue();
			QualType T = A.getIntegralType();
			if (!T.isNull()) {
				if (const EnumType* ET = T->getAs<EnumType>()) {
					o["enum"] = ET->getDecl()->getNameAsString();
					for (auto* E : ET->getDecl()->enumerators())
						if (llvm::APSInt::isSameValue(E->getInitVal(), A.getAsIntegral())) {
							o["n"] = E->getNameAsString();
							break;
						}
				}
			}
			return std::move(o);
		}
		case TemplateArgument::Pack: {
			json::Array arr;
			for (auto& P : A.pack_elements()) arr.push_back(targ(P));
			json::Object o;
			o["pack"] = std::move(arr);
			return std::move(o);
		}
		case TemplateArgument::Template: {
			std::string s;
			llvm::raw_string_ostream os(s);
			A.getAsTemplate().print(os, PP);
			return os.str();
		}
		default: {
			std::string s;
			llvm::raw_string_ostream os(s);
			A.print(PP, os, true);
			return os.str();
		}
		}
	}
	json::Array targs(const TemplateArgumentList& L) {
		json::Array arr;
		for (unsigned i = 0; i < L.size(); ++i) arr.push_back(targ(L[i]));
		return arr;
	}

	// ---------------------------------------------------------------- constant evaluation
	bool tryConst(const Expr* E, int64_t& out) {
		if (!E || E->isValueDependent() || E->isTypeDependent() || E->containsErrors()) return false;
		QualType T = E->getType();
		if (T.isNull() || !(T->isIntegralOrEnumerationType())) return false;
		if (!E->isPRValue() && !isa<DeclRefExpr>(E->IgnoreParenImpCasts()) && !isa<MemberExpr>(E->IgnoreParenImpCasts()))
			return false;
		Expr::EvalResult R;
		if (!E->EvaluateAsRValue(R, Ctx) || R.HasSideEffects || !R.Val.isInt()) return false;
		out = R.Val.getInt().getExtValue();
		return true;
	}

	// ---------------------------------------------------------------- expressions
	json::Value opaqueNode(const Stmt* S) {
		++opaque;
		std::string c = S ? S->getStmtClassName() : "null";
		++opaqueKinds[c];
		json::Object o;
		o["k"] = "opaque";
		o["c"] = c;
		if (S) o["l"] = lineOf(S->getBeginLoc());
		return std::move(o);
	}

	json::Value calleeRef(const FunctionDecl* FD, json::Object& o) {
		o["f"] = fnId(FD);
		return nullptr;
	}

	json::Array exprList(llvm::ArrayRef<const Expr*> A) {
		json::Array arr;
		for (auto* E : A) arr.push_back(expr(E));
		return arr;
	}

	void annotate(json::Object& o, const Expr* E) {
		std::string b = canonBuiltin(E->getType());
		if (!b.empty()) o["ty"] = b;
		int64_t v;
		if (!o.get("cv") && tryConst(E, v)) o["cv"] = v;
	}

	json::Value expr(const Expr* E) {
		if (!E) return nullptr;
		// transparent wrappers
		if (auto* P = dyn_cast<ParenExpr>(E)) return expr(P->getSubExpr());
		if (auto* X = dyn_cast<ExprWithCleanups>(E)) return expr(X->getSubExpr());
		if (auto* X = dyn_cast<MaterializeTemporaryExpr>(E)) return expr(X->getSubExpr());
		if (auto* X = dyn_cast<CXXBindTemporaryExpr>(E)) return expr(X->getSubExpr());
		if (auto* X = dyn_cast<ConstantExpr>(E)) return expr(X->getSubExpr());
		if (auto* X = dyn_cast<CXXDefaultArgExpr>(E)) {
			json::Object o;
			o["k"] = "defarg";
			o["e"] = expr(X->getExpr());
			return std::move(o);
		}
		if (auto* X = dyn_cast<CXXDefaultInitExpr>(E)) {
			json::Object o;
			o["k"] = "definit";
			o["n"] = X->getField()->getNameAsString();
			o["e"] = expr(X->getExpr());
			return std::move(o);
		}
		if (auto* X = dyn_cast<SubstNonTypeTemplateParmExpr>(E)) {
			json::Value v = expr(X->getReplacement());
			if (auto* o = v.getAsObject()) (*o)["tparam"] = X->getParameter()->getNameAsString();
			return v;
		}
		if (auto* IC = dyn_cast<ImplicitCastExpr>(E)) {
			CastKind ck = IC->getCastKind();
			if (ck == CK_DerivedToBase || ck == CK_UncheckedDerivedToBase) {
				json::Object o;
				o["k"] = "cast";
				o["ck"] = "tobase";
				o["t"] = typeStr(IC->getType());
				int t = tyIdOf(IC->getType()->isPointerType() ? IC->getType()->getPointeeType() : IC->getType());
				if (t >= 0) o["tid"] = t;
				o["e"] = expr(IC->getSubExpr());
				return std::move(o);
			}
			if (ck == CK_IntegralCast || ck == CK_IntegralToFloating || ck == CK_FloatingToIntegral ||
				ck == CK_FloatingCast || ck == CK_IntegralToBoolean || ck == CK_FloatingToBoolean ||
				ck == CK_PointerToBoolean) {
				json::Object o;
				o["k"] = "cast";
				o["ck"] = "implicit";
				o["t"] = typeStr(IC->getType());
				o["e"] = expr(IC->getSubExpr());
				annotate(o, E);
				return std::move(o);
			}
			if (ck == CK_ConstructorConversion || ck == CK_UserDefinedConversion) return expr(IC->getSubExpr());
			return expr(IC->getSubExpr());
		}

		json::Object o;
		unsigned line = lineOf(E->getExprLoc());

		if (auto* L = dyn_cast<IntegerLiteral>(E)) {
			o["k"] = "lit";
			o["v"] = (int64_t)L->getValue().getLimitedValue();
			o["ty"] = canonBuiltin(L->getType());
			return std::move(o);
		}
		if (auto* L = dyn_cast<CXXBoolLiteralExpr>(E)) {
			o["k"] = "lit";
			o["v"] = L->getValue();
			o["ty"] = "bool";
			return std::move(o);
		}
		if (auto* L = dyn_cast<FloatingLiteral>(E)) {
			o["k"] = "lit";
			o["v"] = L->getValueAsApproximateDouble();
			o["ty"] = canonBuiltin(L->getType());
			return std::move(o);
		}
		if (auto* L = dyn_cast<StringLiteral>(E)) {
			o["k"] = "lit";
			o["v"] = L->isAscii() ? L->getString().str() : std::string("<str>");
			o["ty"] = "str";
			return std::move(o);
		}
		if (auto* L = dyn_cast<CharacterLiteral>(E)) {
			o["k"] = "lit";
			o["v"] = (int64_t)L->getValue();
			o["ty"] = "char";
			return std::move(o);
		}
		if (isa<CXXNullPtrLiteralExpr>(E) || isa<GNUNullExpr>(E)) {
			o["k"] = "lit";
			o["v"] = nullptr;
			o["ty"] = "nullptr";
			return std::move(o);
		}
		if (isa<CXXThisExpr>(E)) {
			o["k"] = "this";
			return std::move(o);
		}
		if (auto* D = dyn_cast<DeclRefExpr>(E)) {
			const ValueDecl* VD = D->getDecl();
			o["k"] = "var";
			o["n"] = VD->getNameAsString();
			if (auto* P = dyn_cast<ParmVarDecl>(VD)) {
				o["d"] = "param";
				o["pi"] = (int64_t)P->getFunctionScopeIndex();
			} else if (auto* V = dyn_cast<VarDecl>(VD)) {
				if (V->isStaticDataMember()) {
					o["d"] = "smember";
					if (auto* RD = dyn_cast<CXXRecordDecl>(V->getDeclContext())) {
						o["o"] = RD->getNameAsString();
						o["otid"] = tyId(RD);
					}
				} else if (V->isLocalVarDecl())
					o["d"] = V->isStaticLocal() ? "slocal" : "local";
				else
					o["d"] = "global";
			} else if (auto* EC = dyn_cast<EnumConstantDecl>(VD)) {
				o["d"] = "enum";
				if (auto* ED = dyn_cast<EnumDecl>(EC->getDeclContext())) o["o"] = ED->getNameAsString();
				o["cv"] = (int64_t)EC->getInitVal().getExtValue();
			} else if (auto* F = dyn_cast<FunctionDecl>(VD)) {
				o["d"] = "fn";
				o["f"] = fnId(F);
			} else if (isa<NonTypeTemplateParmDecl>(VD)) {
				o["d"] = "tparam";
			} else if (isa<FieldDecl>(VD)) {
				o["d"] = "field";
			} else
				o["d"] = "other";
			annotate(o, E);
			return std::move(o);
		}
		if (auto* M = dyn_cast<MemberExpr>(E)) {
			const ValueDecl* VD = M->getMemberDecl();
			if (auto* V = dyn_cast<VarDecl>(VD)) {  // static member via object
				o["k"] = "var";
				o["n"] = V->getNameAsString();
				o["d"] = "smember";
				if (auto* RD = dyn_cast<CXXRecordDecl>(V->getDeclContext())) {
					o["o"] = RD->getNameAsString();
					o["otid"] = tyId(RD);
				}
				annotate(o, E);
				return std::move(o);
			}
			o["k"] = "mem";
			o["n"] = VD->getNameAsString();
			if (isa<FieldDecl>(VD)) curMems.insert(VD->getNameAsString());
			if (auto* RD = dyn_cast<CXXRecordDecl>(VD->getDeclContext())) {
				o["o"] = RD->getNameAsString();
				o["otid"] = tyId(RD);
			}
			if (M->isArrow()) o["arrow"] = true;
			if (auto* F = dyn_cast<FunctionDecl>(VD)) o["f"] = fnId(F);
			o["b"] = expr(M->getBase());
			if (auto* FD = dyn_cast<FieldDecl>(VD)) {
				if (FD->getType()->isReferenceType()) o["ref"] = true;
			}
			annotate(o, E);
			return std::move(o);
		}
		if (auto* C = dyn_cast<CXXOperatorCallExpr>(E)) {
			o["k"] = "call";
			o["l"] = line;
			o["op"] = getOperatorSpelling(C->getOperator());
			const FunctionDecl* FD = C->getDirectCallee();
			if (FD) { o["f"] = fnId(FD); curCalls.insert(fnId(FD)); }
			json::Array args;
			unsigned start = 0;
			if (FD && isa<CXXMethodDecl>(FD) && C->getNumArgs() > 0) {
				o["obj"] = expr(C->getArg(0));
				start = 1;
			} else if (!FD) {
				o["callee"] = expr(C->getCallee());
			}
			for (unsigned i = start; i < C->getNumArgs(); ++i) args.push_back(expr(C->getArg(i)));
			o["a"] = std::move(args);
			annotate(o, E);
			return std::move(o);
		}
		if (auto* C = dyn_cast<CXXMemberCallExpr>(E)) {
			o["k"] = "call";
			o["l"] = line;
			const CXXMethodDecl* MD = C->getMethodDecl();
			if (MD) {
				o["f"] = fnId(MD);
				curCalls.insert(fnId(MD));
				o["obj"] = expr(C->getImplicitObjectArgument());
				if (auto* ME = dyn_cast<MemberExpr>(C->getCallee()->IgnoreParens()))
					if (ME->hasQualifier()) o["qual"] = true;
			} else {
				o["callee"] = expr(C->getCallee());
			}
			json::Array args;
			for (unsigned i = 0; i < C->getNumArgs(); ++i) args.push_back(expr(C->getArg(i)));
			o["a"] = std::move(args);
			annotate(o, E);
			return std::move(o);
		}
		if (auto* C = dyn_cast<CallExpr>(E)) {
			o["k"] = "call";
			o["l"] = line;
			const FunctionDecl* FD = C->getDirectCallee();
			if (FD) {
				o["f"] = fnId(FD);
				curCalls.insert(fnId(FD));
				if (unsigned b = FD->getBuiltinID()) o["builtin"] = (int64_t)b;
			} else
				o["callee"] = expr(C->getCallee());
			json::Array args;
			for (unsigned i = 0; i < C->getNumArgs(); ++i) args.push_back(expr(C->getArg(i)));
			o["a"] = std::move(args);
			annotate(o, E);
			return std::move(o);
		}
		if (auto* B = dyn_cast<BinaryOperator>(E)) {
			if (B->isAssignmentOp()) {
				o["k"] = "asg";
				o["l"] = line;
			} else
				o["k"] = "bin";
			o["op"] = B->getOpcodeStr().str();
			o["lhs"] = expr(B->getLHS());
			o["rhs"] = expr(B->getRHS());
			if (auto* CA = dyn_cast<CompoundAssignOperator>(B)) o["cty"] = canonBuiltin(CA->getComputationResultType());
			annotate(o, E);
			return std::move(o);
		}
		if (auto* U = dyn_cast<UnaryOperator>(E)) {
			o["k"] = "un";
			o["op"] = UnaryOperator::getOpcodeStr(U->getOpcode()).str();
			if (U->isPostfix()) o["post"] = true;
			if (U->isIncrementDecrementOp()) o["l"] = line;
			o["e"] = expr(U->getSubExpr());
			annotate(o, E);
			return std::move(o);
		}
		if (auto* C = dyn_cast<ConditionalOperator>(E)) {
			o["k"] = "cond";
			o["c"] = expr(C->getCond());
			o["t"] = expr(C->getTrueExpr());
			o["f"] = expr(C->getFalseExpr());
			annotate(o, E);
			return std::move(o);
		}
		if (auto* A = dyn_cast<ArraySubscriptExpr>(E)) {
			o["k"] = "idx";
			// in dependent contexts getBase()/getIdx() cannot tell the operands apart by type: keep the written order a[i]
			const Expr* B = A->getLHS();
			const Expr* I = A->getRHS();
			if (!B->isTypeDependent() && !I->isTypeDependent()) {
				B = A->getBase();
				I = A->getIdx();
			}
			o["b"] = expr(B);
			o["i"] = expr(I);
			o["l"] = line;
			annotate(o, E);
			return std::move(o);
		}
		if (auto* C = dyn_cast<ExplicitCastExpr>(E)) {
			o["k"] = "cast";
			if (isa<CXXStaticCastExpr>(C)) o["ck"] = "static";
			else if (isa<CXXReinterpretCastExpr>(C)) o["ck"] = "reinterpret";
			else if (isa<CXXConstCastExpr>(C)) o["ck"] = "const";
			else if (isa<CXXFunctionalCastExpr>(C)) o["ck"] = "functional";
			else if (isa<CStyleCastExpr>(C)) o["ck"] = "c";
			else if (isa<CXXDynamicCastExpr>(C)) o["ck"] = "dynamic";
			else o["ck"] = "other";
			o["t"] = typeStr(C->getTypeAsWritten());
			o["cast"] = C->getCastKindName();
			int t = tyIdOf(C->getTypeAsWritten());
			if (t >= 0) o["tid"] = t;
			o["e"] = expr(C->getSubExpr());
			o["l"] = line;
			annotate(o, E);
			return std::move(o);
		}
		if (auto* C = dyn_cast<CXXConstructExpr>(E)) {
			o["k"] = "ctor";
			o["l"] = line;
			o["t"] = typeStr(C->getType());
			int t = tyIdOf(C->getType());
			if (t >= 0) o["tid"] = t;
			const CXXConstructorDecl* CD = C->getConstructor();
			// `using Base::Base`: the implicit inheriting constructor has no body of its own — resolve to the inherited one
			while (CD->isInheritingConstructor() && CD->getInheritedConstructor().getConstructor()) {
				o["inherited"] = true;
				CD = CD->getInheritedConstructor().getConstructor();
			}
			o["f"] = fnId(CD);
			curCalls.insert(fnId(CD));
			if (CD->isCopyConstructor()) o["copy"] = true;
			if (CD->isMoveConstructor()) o["move"] = true;
			if (C->isElidable()) o["elidable"] = true;		// C++11/14: copy / move of a prvalue that C++17 never materialises
			if (C->isListInitialization()) o["list"] = true;
			if (isa<CXXTemporaryObjectExpr>(C)) o["temp"] = true;
			json::Array args;
			for (unsigned i = 0; i < C->getNumArgs(); ++i) args.push_back(expr(C->getArg(i)));
			o["a"] = std::move(args);
			return std::move(o);
		}
		if (auto* I = dyn_cast<InitListExpr>(E)) {
			o["k"] = "ilist";
			o["t"] = typeStr(I->getType());
			int t = tyIdOf(I->getType());
			if (t >= 0) o["tid"] = t;
			json::Array args;
			const InitListExpr* S = I->isSemanticForm() ? I : (I->getSemanticForm() ? I->getSemanticForm() : I);
			for (unsigned i = 0; i < S->getNumInits(); ++i) args.push_back(expr(S->getInit(i)));
			o["a"] = std::move(args);
			return std::move(o);
		}
		if (isa<ImplicitValueInitExpr>(E) || isa<CXXScalarValueInitExpr>(E)) {
			o["k"] = "zero";
			o["t"] = typeStr(E->getType());
			annotate(o, E);
			return std::move(o);
		}
		if (auto* N = dyn_cast<CXXNewExpr>(E)) {
			o["k"] = "new";
			o["l"] = line;
			o["t"] = typeStr(N->getAllocatedType());
			json::Array pl;
			for (unsigned i = 0; i < N->getNumPlacementArgs(); ++i) pl.push_back(expr(N->getPlacementArg(i)));
			o["place"] = std::move(pl);
			if (N->getOperatorNew()) {
				o["f"] = fnId(N->getOperatorNew());
				o["reserved_placement"] = N->getOperatorNew()->isReservedGlobalPlacementOperator();
			}
			if (N->isArray()) o["array"] = true;
			if (N->getInitializer()) o["init"] = expr(N->getInitializer());
			return std::move(o);
		}
		if (auto* D = dyn_cast<CXXDeleteExpr>(E)) {
			o["k"] = "delete";
			o["l"] = line;
			o["e"] = expr(D->getArgument());
			return std::move(o);
		}
		if (auto* U = dyn_cast<UnaryExprOrTypeTraitExpr>(E)) {
			o["k"] = "sizeof";
			o["what"] = U->isArgumentType() ? typeStr(U->getArgumentType()) : std::string("expr");
			annotate(o, E);
			return std::move(o);
		}
		if (isa<SizeOfPackExpr>(E) || isa<TypeTraitExpr>(E) || isa<CXXNoexceptExpr>(E)) {
			o["k"] = "trait";
			annotate(o, E);
			return std::move(o);
		}
		if (auto* T = dyn_cast<CXXTypeidExpr>(E)) {
			o["k"] = "typeid";
			return std::move(o);
		}
		if (auto* S = dyn_cast<StmtExpr>(E)) {
			o["k"] = "stmtexpr";
			o["s"] = stmt(S->getSubStmt());
			return std::move(o);
		}
		if (auto* X = dyn_cast<BinaryConditionalOperator>(E)) {
			return opaqueNode(E);
		}
		// dependent constructs (only inside uninstantiated patterns)
		if (auto* X = dyn_cast<CXXDependentScopeMemberExpr>(E)) {
			o["k"] = "dep";
			o["n"] = X->getMember().getAsString();
			if (!X->isImplicitAccess()) o["b"] = expr(X->getBase());
			return std::move(o);
		}
		if (auto* X = dyn_cast<DependentScopeDeclRefExpr>(E)) {
			o["k"] = "dep";
			o["n"] = X->getDeclName().getAsString();
			std::string q;
			llvm::raw_string_ostream os(q);
			if (X->getQualifier()) X->getQualifier()->print(os, PP);
			o["q"] = os.str();
			return std::move(o);
		}
		if (auto* X = dyn_cast<UnresolvedLookupExpr>(E)) {
			o["k"] = "dep";
			o["n"] = X->getName().getAsString();
			return std::move(o);
		}
		if (auto* X = dyn_cast<UnresolvedMemberExpr>(E)) {
			o["k"] = "dep";
			o["n"] = X->getMemberName().getAsString();
			if (!X->isImplicitAccess()) o["b"] = expr(X->getBase());
			return std::move(o);
		}
		if (auto* X = dyn_cast<CXXUnresolvedConstructExpr>(E)) {
			o["k"] = "dep";
			o["n"] = "ctor:" + typeStr(X->getTypeAsWritten());
			json::Array args;
			for (unsigned i = 0; i < X->getNumArgs(); ++i) args.push_back(expr(X->getArg(i)));
			o["a"] = std::move(args);
			return std::move(o);
		}
		if (auto* X = dyn_cast<ParenListExpr>(E)) {
			o["k"] = "plist";
			json::Array args;
			for (unsigned i = 0; i < X->getNumExprs(); ++i) args.push_back(expr(X->getExpr(i)));
			o["a"] = std::move(args);
			return std::move(o);
		}
		if (auto* X = dyn_cast<PackExpansionExpr>(E)) {
			o["k"] = "packexp";
			o["e"] = expr(X->getPattern());
			return std::move(o);
		}
		if (auto* X = dyn_cast<CXXPseudoDestructorExpr>(E)) {
			o["k"] = "pseudodtor";
			return std::move(o);
		}
		if (auto* X = dyn_cast<LambdaExpr>(E)) {
			return opaqueNode(E);
		}
		return opaqueNode(E);
	}

	// ---------------------------------------------------------------- statements
	json::Value varDecl(const VarDecl* V) {
		json::Object d;
		d["n"] = V->getNameAsString();
		d["t"] = typeStr(V->getType());
		std::string b = canonBuiltin(V->getType());
		if (!b.empty()) d["ty"] = b;
		int t = tyIdOf(V->getType());
		if (t >= 0) d["tid"] = t;
		if (V->getType()->isReferenceType()) d["ref"] = true;
		if (V->getType()->isPointerType()) d["ptr"] = true;
		if (V->getType()->isArrayType()) d["array"] = true;
		if (V->getType().getNonReferenceType().isConstQualified()) d["const"] = true;
		if (V->isStaticLocal()) d["static"] = true;
		if (V->getTLSKind() != VarDecl::TLS_None) d["tls"] = true;
		if (V->isConstexpr()) d["constexpr"] = true;
		if (V->hasInit()) d["init"] = expr(V->getInit());
		return std::move(d);
	}

	json::Value stmt(const Stmt* S) {
		if (!S) return nullptr;
		if (auto* E = dyn_cast<Expr>(S)) return expr(E);
		json::Object o;
		o["l"] = lineOf(S->getBeginLoc());
		if (auto* C = dyn_cast<CompoundStmt>(S)) {
			o["k"] = "seq";
			json::Array arr;
			for (auto* X : C->body()) {
				if (isa<NullStmt>(X)) continue;
				arr.push_back(stmt(X));
			}
			o["s"] = std::move(arr);
			return std::move(o);
		}
		if (auto* I = dyn_cast<IfStmt>(S)) {
			o["k"] = "if";
			if (I->isConstexpr()) o["cx"] = true;
			if (I->getInit()) o["init"] = stmt(I->getInit());
			if (I->getConditionVariable()) o["cvar"] = varDecl(I->getConditionVariable());
			o["c"] = expr(I->getCond());
			o["t"] = stmt(I->getThen());
			o["e"] = stmt(I->getElse());
			return std::move(o);
		}
		if (auto* F = dyn_cast<ForStmt>(S)) {
			o["k"] = "for";
			o["init"] = stmt(F->getInit());
			o["c"] = F->getCond() ? expr(F->getCond()) : json::Value(nullptr);
			o["inc"] = F->getInc() ? expr(F->getInc()) : json::Value(nullptr);
			o["b"] = stmt(F->getBody());
			return std::move(o);
		}
		if (auto* W = dyn_cast<WhileStmt>(S)) {
			o["k"] = "while";
			o["c"] = expr(W->getCond());
			o["b"] = stmt(W->getBody());
			return std::move(o);
		}
		if (auto* D = dyn_cast<DoStmt>(S)) {
			o["k"] = "do";
			o["c"] = expr(D->getCond());
			o["b"] = stmt(D->getBody());
			return std::move(o);
		}
		if (auto* R = dyn_cast<CXXForRangeStmt>(S)) {
			o["k"] = "rfor";
			o["var"] = varDecl(R->getLoopVariable());
			o["range"] = expr(R->getRangeInit());
			o["b"] = stmt(R->getBody());
			return std::move(o);
		}
		if (auto* W = dyn_cast<SwitchStmt>(S)) {
			o["k"] = "switch";
			o["c"] = expr(W->getCond());
			o["b"] = stmt(W->getBody());
			return std::move(o);
		}
		if (auto* C = dyn_cast<CaseStmt>(S)) {
			o["k"] = "case";
			o["v"] = expr(C->getLHS());
			o["s"] = stmt(C->getSubStmt());
			return std::move(o);
		}
		if (auto* D = dyn_cast<DefaultStmt>(S)) {
			o["k"] = "default";
			o["s"] = stmt(D->getSubStmt());
			return std::move(o);
		}
		if (auto* R = dyn_cast<ReturnStmt>(S)) {
			o["k"] = "ret";
			o["e"] = R->getRetValue() ? expr(R->getRetValue()) : json::Value(nullptr);
			return std::move(o);
		}
		if (isa<BreakStmt>(S)) {
			o["k"] = "break";
			return std::move(o);
		}
		if (isa<ContinueStmt>(S)) {
			o["k"] = "cont";
			return std::move(o);
		}
		if (isa<NullStmt>(S)) {
			o["k"] = "null";
			return std::move(o);
		}
		if (auto* D = dyn_cast<DeclStmt>(S)) {
			o["k"] = "decl";
			json::Array vars;
			for (auto* X : D->decls()) {
				if (auto* V = dyn_cast<VarDecl>(X)) vars.push_back(varDecl(V));
				else if (isa<TypedefNameDecl>(X) || isa<StaticAssertDecl>(X) || isa<UsingDecl>(X) ||
						 isa<UsingDirectiveDecl>(X) || isa<TagDecl>(X)) {
				} else {
					json::Object q;
					q["n"] = "?";
					q["opaque"] = X->getDeclKindName();
					vars.push_back(std::move(q));
					++opaque;
				}
			}
			o["vars"] = std::move(vars);
			return std::move(o);
		}
		if (auto* T = dyn_cast<CXXTryStmt>(S)) {
			o["k"] = "try";
			o["b"] = stmt(T->getTryBlock());
			return std::move(o);
		}
		if (auto* G = dyn_cast<GotoStmt>(S)) {
			o["k"] = "goto";
			return std::move(o);
		}
		if (auto* L = dyn_cast<LabelStmt>(S)) {
			o["k"] = "label";
			o["s"] = stmt(L->getSubStmt());
			return std::move(o);
		}
		if (auto* A = dyn_cast<AttributedStmt>(S)) return stmt(A->getSubStmt());
		return opaqueNode(S);
	}

	// ---------------------------------------------------------------- functions
	const FunctionDecl* patternOf(const FunctionDecl* FD) {
		if (const FunctionDecl* P = FD->getTemplateInstantiationPattern()) return P;
		if (auto* MD = dyn_cast<CXXMethodDecl>(FD))
			if (const FunctionDecl* P = MD->getInstantiatedFromMemberFunction()) {
				while (auto* MP = dyn_cast<CXXMethodDecl>(P)) {
					const FunctionDecl* Q = MP->getInstantiatedFromMemberFunction();
					if (!Q) break;
					P = Q;
				}
				return P;
			}
		return nullptr;
	}

	json::Object fnHeader(const FunctionDecl* FD) {
		json::Object o;
		o["name"] = FD->getNameAsString();
		o["qn"] = FD->getQualifiedNameAsString();
		const FunctionDecl* Def = nullptr;
		bool hasBody = FD->hasBody(Def);
		const FunctionDecl* Loc = hasBody ? Def : FD;
		o["loc"] = locStr(Loc->getLocation());
		const FunctionDecl* P = patternOf(Loc);
		if (!P) P = patternOf(FD);
		if (P) {
			const FunctionDecl* PD = nullptr;
			if (P->hasBody(PD)) P = PD;
			o["pat"] = locStr(P->getLocation());
		} else
			o["pat"] = locStr(Loc->getLocation());
		bool dependent = FD->isDependentContext() || FD->getDescribedFunctionTemplate();
		o["inst"] = !dependent;
		if (auto* MD = dyn_cast<CXXMethodDecl>(FD)) {
			const CXXRecordDecl* RD = MD->getParent();
			o["cls"] = RD->getNameAsString();
			o["tid"] = tyId(RD);
			if (MD->isConst()) o["const"] = true;
			if (MD->isStatic()) o["static"] = true;
			if (MD->isVirtual()) o["virtual"] = true;
			if (isa<CXXConstructorDecl>(MD)) o["kind"] = "ctor";
			else if (isa<CXXDestructorDecl>(MD)) o["kind"] = "dtor";
			else if (isa<CXXConversionDecl>(MD)) o["kind"] = "conv";
			if (MD->isImplicit()) o["implicit"] = true;
			if (MD->isDefaulted()) o["defaulted"] = true;
			if (MD->isDeleted()) o["deleted"] = true;
		} else {
			if (auto* NS = dyn_cast<NamespaceDecl>(FD->getDeclContext())) o["ns"] = NS->getQualifiedNameAsString();
		}
		if (auto* TA = FD->getTemplateSpecializationArgs()) o["ftargs"] = targs(*TA);
		if (FD->isOverloadedOperator()) o["op"] = getOperatorSpelling(FD->getOverloadedOperator());
		json::Array ps;
		for (auto* P2 : FD->parameters()) {
			json::Object p;
			p["n"] = P2->getNameAsString();
			p["t"] = typeStr(P2->getType());
			int t = tyIdOf(P2->getType());
			if (t >= 0) p["tid"] = t;
			if (P2->getType()->isReferenceType()) p["ref"] = true;
			if (P2->getType()->isPointerType()) p["ptr"] = true;
			if (P2->getType().getNonReferenceType().isConstQualified() ||
				(P2->getType()->isPointerType() && P2->getType()->getPointeeType().isConstQualified()))
				p["const"] = true;
			std::string b = canonBuiltin(P2->getType());
			if (!b.empty()) p["ty"] = b;
			ps.push_back(std::move(p));
		}
		o["params"] = std::move(ps);
		o["ret"] = typeStr(FD->getReturnType());
		{
			std::string b = canonBuiltin(FD->getReturnType());
			if (!b.empty()) o["retty"] = b;
			int t = tyIdOf(FD->getReturnType());
			if (t >= 0) o["rettid"] = t;
			if (FD->getReturnType()->isReferenceType()) o["retref"] = true;
		}
		o["inroots"] = inRoots(Loc->getLocation());
		if (FD->isConstexpr()) o["constexpr"] = true;
		return o;
	}

	json::Value ctorInits(const CXXConstructorDecl* CD) {
		json::Array arr;
		for (auto* I : CD->inits()) {
			json::Object o;
			if (I->isBaseInitializer()) {
				o["base"] = typeStr(QualType(I->getBaseClass(), 0));
				int t = tyIdOf(QualType(I->getBaseClass(), 0));
				if (t >= 0) o["tid"] = t;
			} else if (I->isAnyMemberInitializer()) {
				o["member"] = I->getAnyMember()->getNameAsString();
			} else if (I->isDelegatingInitializer()) {
				o["delegating"] = true;
			}
			o["written"] = I->isWritten();
			if (I->isWritten()) o["order"] = I->getSourceOrder();
			o["init"] = expr(I->getInit());
			o["l"] = lineOf(I->getSourceLocation());
			arr.push_back(std::move(o));
		}
		return std::move(arr);
	}

	// ---------------------------------------------------------------- records
	json::Object record(const CXXRecordDecl* RD) {
		json::Object o;
		o["name"] = RD->getNameAsString();
		o["qn"] = RD->getQualifiedNameAsString();
		o["loc"] = locStr(RD->getLocation());
		o["inroots"] = inRoots(RD->getLocation());
		if (auto* S = dyn_cast<ClassTemplateSpecializationDecl>(RD)) {
			o["tmpl"] = S->getSpecializedTemplate()->getNameAsString();
			o["args"] = targs(S->getTemplateArgs());
			auto From = S->getSpecializedTemplateOrPartial();
			if (auto* PS = From.dyn_cast<ClassTemplatePartialSpecializationDecl*>()) {
				o["partial"] = locStr(PS->getLocation());
			} else if (auto* CT = From.dyn_cast<ClassTemplateDecl*>()) {
				o["primary"] = locStr(CT->getLocation());
			}
			if (S->isExplicitSpecialization()) o["explicit"] = true;
		} else if (RD->getDescribedClassTemplate()) {
			o["pattern"] = true;
		} else if (isa<ClassTemplatePartialSpecializationDecl>(RD)) {
			o["pattern"] = true;
		}
		if (auto* Outer = dyn_cast<CXXRecordDecl>(RD->getDeclContext())) {
			o["outer"] = tyId(Outer);
			o["outername"] = Outer->getNameAsString();
		}
		bool dependent = RD->isDependentContext();
		o["dependent"] = dependent;
		if (!RD->isCompleteDefinition()) {
			o["complete"] = false;
			return o;
		}
		o["complete"] = true;
		json::Array bases;
		for (auto& B : RD->bases()) {
			json::Object b;
			b["t"] = typeStr(B.getType());
			if (const CXXRecordDecl* BD = B.getType()->getAsCXXRecordDecl()) {
				b["tid"] = tyId(BD);
				if (BD->isCompleteDefinition() && !BD->isDependentContext()) b["empty"] = BD->isEmpty();
			}
			if (B.isVirtual()) b["virtual"] = true;
			bases.push_back(std::move(b));
		}
		o["bases"] = std::move(bases);
		json::Array fields;
		for (auto* F : RD->fields()) {
			json::Object f;
			f["n"] = F->getNameAsString();
			f["t"] = typeStr(F->getType());
			int t = tyIdOf(F->getType());
			if (t >= 0) f["tid"] = t;
			std::string b = canonBuiltin(F->getType());
			if (!b.empty()) f["ty"] = b;
			if (F->getType()->isReferenceType()) f["ref"] = true;
			if (F->getType()->isPointerType()) f["ptr"] = true;
			if (F->getType()->isArrayType()) {
				f["array"] = true;
				if (auto* CAT = Ctx.getAsConstantArrayType(F->getType())) f["extent"] = (int64_t)CAT->getSize().getLimitedValue();
			}
			if (F->isMutable()) f["mutable"] = true;
			if (F->getType().isConstQualified()) f["const"] = true;
			if (F->hasInClassInitializer()) {
				f["init"] = true;
				if (F->getInClassInitializer()) f["initexpr"] = expr(F->getInClassInitializer());
			}
			if (F->isBitField()) f["bitfield"] = true;
			f["l"] = lineOf(F->getLocation());
			fields.push_back(std::move(f));
		}
		o["fields"] = std::move(fields);
		// static constants
		json::Object consts;
		json::Array statics;
		for (auto* D : RD->decls()) {
			if (auto* V = dyn_cast<VarDecl>(D)) {
				if (!V->isStaticDataMember()) continue;
				bool cst = V->getType().isConstQualified() || V->isConstexpr();
				if (!cst) {
					statics.push_back(V->getNameAsString());
					continue;
				}
				if (dependent) continue;
				const Expr* Init = V->getAnyInitializer();
				if (!Init || Init->isValueDependent()) continue;
				if (!V->getType()->isIntegralOrEnumerationType()) continue;
				if (const APValue* AV = V->evaluateValue())
					if (AV->isInt()) consts[V->getNameAsString()] = (int64_t)AV->getInt().getExtValue();
			}
		}
		o["consts"] = std::move(consts);
		if (!statics.empty()) o["mutable_statics"] = std::move(statics);
		// special members
		json::Array ctors;
		for (auto* C : RD->ctors()) {
			json::Object c;
			c["f"] = fnId(C);
			c["l"] = lineOf(C->getLocation());
			if (C->isCopyConstructor()) c["copy"] = true;
			if (C->isMoveConstructor()) c["move"] = true;
			if (C->isDefaultConstructor()) c["default"] = true;
			c["user"] = C->isUserProvided();
			if (C->isImplicit()) c["implicit"] = true;
			if (C->isDefaulted()) c["defaulted"] = true;
			if (C->isDeleted()) c["deleted"] = true;
			c["nparams"] = (int64_t)C->getNumParams();
			ctors.push_back(std::move(c));
		}
		o["ctors"] = std::move(ctors);
		if (!dependent) {
			o["has_user_copy"] = RD->hasUserDeclaredCopyConstructor();
			o["has_user_move"] = RD->hasUserDeclaredMoveConstructor();
			o["has_user_copy_assign"] = RD->hasUserDeclaredCopyAssignment();
			o["has_user_dtor"] = RD->hasUserDeclaredDestructor();
			o["trivcopy"] = RD->isTriviallyCopyable();
			o["empty"] = RD->isEmpty();
			o["polymorphic"] = RD->isPolymorphic();
			if (!RD->isInvalidDecl()) {
				const ASTRecordLayout& L = Ctx.getASTRecordLayout(RD);
				o["size"] = (int64_t)L.getSize().getQuantity();
				o["align"] = (int64_t)L.getAlignment().getQuantity();
				json::Object offs;
				unsigned i = 0;
				for (auto* F : RD->fields()) {
					offs[F->getNameAsString()] = (int64_t)(L.getFieldOffset(i) / 8);
					++i;
				}
				o["offsets"] = std::move(offs);
			}
		}
		return o;
	}
};

class Visitor : public RecursiveASTVisitor<Visitor> {
public:
	Extractor& X;
	std::vector<const FunctionDecl*> defs;
	std::set<const FunctionDecl*> seen;
	std::vector<const VarDecl*> globals;
	explicit Visitor(Extractor& x) : X(x) {}
	bool shouldVisitTemplateInstantiations() const { return true; }
	bool shouldVisitImplicitCode() const { return false; }

	bool VisitFunctionDecl(FunctionDecl* FD) {
		if (!FD->doesThisDeclarationHaveABody()) return true;
		if (!X.inRoots(FD->getLocation())) return true;
		bool dependent = FD->isDependentContext() || FD->getDescribedFunctionTemplate();
		if (dependent && NoPatterns) return true;
		if (seen.insert(FD).second) defs.push_back(FD);
		return true;
	}
	bool VisitCXXRecordDecl(CXXRecordDecl* RD) {
		if (!RD->isCompleteDefinition()) return true;
		if (!X.inRoots(RD->getLocation())) return true;
		if (RD->isLambda()) return true;
		X.tyId(RD);
		return true;
	}
	bool VisitVarDecl(VarDecl* V) {
		if (!X.inRoots(V->getLocation())) return true;
		if (V->isStaticDataMember() || V->hasGlobalStorage()) globals.push_back(V);
		return true;
	}
};

struct IncludeRecorder : PPCallbacks {
	SourceManager& SM;
	std::vector<std::string>& roots;
	std::vector<std::pair<std::string, std::string>>& out;
	IncludeRecorder(SourceManager& sm, std::vector<std::string>& r, std::vector<std::pair<std::string, std::string>>& o)
		: SM(sm), roots(r), out(o) {}
	void InclusionDirective(SourceLocation HashLoc, const Token&, StringRef FileName, bool IsAngled, CharSourceRange,
							const FileEntry*, StringRef, StringRef, const Module*, SrcMgr::CharacteristicKind) override {
		std::string f = SM.getFilename(SM.getExpansionLoc(HashLoc)).str();
		for (auto& r : roots)
			if (f.compare(0, r.size(), r) == 0) {
				out.push_back({f, (IsAngled ? "<" : "\"") + FileName.str()});
				break;
			}
	}
};

static std::vector<std::pair<std::string, std::string>> gIncludes;
static std::vector<std::string> gRoots;

class Consumer : public ASTConsumer {
	std::string tu;

public:
	explicit Consumer(std::string t) : tu(std::move(t)) {}
	void HandleTranslationUnit(ASTContext& Ctx) override {
		if (Ctx.getDiagnostics().hasErrorOccurred()) {
			llvm::errs() << "hfx: compile errors in " << tu << "\n";
		}
		Extractor X(Ctx);
		Visitor V(X);
		V.TraverseDecl(Ctx.getTranslationUnitDecl());

		json::Array fbodies;
		for (auto* FD : V.defs) {
			json::Object o = X.fnHeader(FD);
			o["id"] = X.fnId(FD);
			X.curMems.clear();
			X.curCalls.clear();
			if (auto* CD = dyn_cast<CXXConstructorDecl>(FD)) o["inits"] = X.ctorInits(CD);
			o["body"] = X.stmt(FD->getBody());
			{
				json::Array ms, cs;
				for (auto& m : X.curMems) ms.push_back(m);
				for (int c : X.curCalls) cs.push_back((int64_t)c);
				o["mems"] = std::move(ms);
				o["calls"] = std::move(cs);
			}
			fbodies.push_back(std::move(o));
		}
		// function table (may grow while bodies are dumped) — fixpoint over records as well
		json::Array types;
		size_t ti = 0;
		json::Array fns;
		size_t fi = 0;
		while (ti < X.tyList.size() || fi < X.fnList.size()) {
			for (; ti < X.tyList.size(); ++ti) {
				json::Object r = X.record(X.tyList[ti]);
				r["id"] = (int64_t)ti;
				types.push_back(std::move(r));
			}
			for (; fi < X.fnList.size(); ++fi) {
				json::Object h = X.fnHeader(X.fnList[fi]);
				h["id"] = (int64_t)fi;
				const FunctionDecl* Def = nullptr;
				h["hasbody"] = X.fnList[fi]->hasBody(Def);
				fns.push_back(std::move(h));
			}
		}
		json::Array globals;
		for (auto* G : V.globals) {
			json::Object g;
			g["n"] = G->getQualifiedNameAsString();
			g["t"] = X.typeStr(G->getType());
			g["loc"] = X.locStr(G->getLocation());
			g["const"] = G->getType().isConstQualified() || G->isConstexpr();
			g["smember"] = G->isStaticDataMember();
			g["tls"] = G->getTLSKind() != VarDecl::TLS_None;
			g["dependent"] = G->getDeclContext()->isDependentContext();
			globals.push_back(std::move(g));
		}
		json::Array incs;
		for (auto& p : gIncludes) {
			json::Object i;
			i["from"] = p.first;
			i["inc"] = p.second;
			incs.push_back(std::move(i));
		}
		json::Object ok;
		for (auto& p : X.opaqueKinds) ok[p.first] = (int64_t)p.second;

		json::Object root;
		root["tu"] = tu;
		root["errors"] = Ctx.getDiagnostics().hasErrorOccurred();
		root["types"] = std::move(types);
		root["fns"] = std::move(fns);
		root["bodies"] = std::move(fbodies);
		root["globals"] = std::move(globals);
		root["includes"] = std::move(incs);
		root["opaque"] = (int64_t)X.opaque;
		root["opaque_kinds"] = std::move(ok);

		std::error_code EC;
		if (OutFile == "-") {
			llvm::outs() << json::Value(std::move(root)) << "\n";
		} else {
			llvm::raw_fd_ostream os(OutFile, EC);
			if (EC) {
				llvm::errs() << "hfx: cannot write " << OutFile << "\n";
				return;
			}
			os << json::Value(std::move(root)) << "\n";
		}
	}
};

class Action : public ASTFrontendAction {
public:
	std::unique_ptr<ASTConsumer> CreateASTConsumer(CompilerInstance& CI, StringRef InFile) override {
		gRoots.clear();
		{
			std::string r = Roots;
			size_t p = 0;
			while (true) {
				size_t q = r.find(',', p);
				std::string s = r.substr(p, q == std::string::npos ? std::string::npos : q - p);
				if (!s.empty()) gRoots.push_back(s);
				if (q == std::string::npos) break;
				p = q + 1;
			}
		}
		CI.getPreprocessor().addPPCallbacks(
			std::make_unique<IncludeRecorder>(CI.getSourceManager(), gRoots, gIncludes));
		return std::make_unique<Consumer>(InFile.str());
	}
};

}  // namespace

int main(int argc, const char** argv) {
	auto Parser = tooling::CommonOptionsParser::create(argc, argv, Cat);
	if (!Parser) {
		llvm::errs() << llvm::toString(Parser.takeError()) << "\n";
		return 2;
	}
	tooling::ClangTool Tool(Parser->getCompilations(), Parser->getSourcePathList());
	int rc = Tool.run(tooling::newFrontendActionFactory<Action>().get());
	return rc ? 2 : 0;
}
