#!/usr/bin/env python3
"""Regenerates /verif/MANIFEST.json from the table below (one row per claimed property)."""
import json, os

CLAIMS = {
 "C01": ("Decides that every function able to write the active-set encoding (compoActive/compoRequested/orthoRequested) preserves the well-formedness "
         "invariant, for every instantiation of the patterns in the witness zoo: who-may-write tables, exit resets / enter sets / exit-enter pairing on "
         "every path, all orthogonal siblings visited, INVALID-freedom and own-sub-state origin of every resolved prong (interprocedural origin analysis), "
         "anonymous-head default for select, descent into nested regions (composite resolvers, orthogonal requests / reports, CS_ prong dispatch). Does not decide which prong a particular float input selects (C12).",
         "path rules + who-may-write + interprocedural value-origin analysis over clang AST facts (static analysis)"),
 "C02": ("Decides that the routing / resolution tables of the code agree with the rules of the statement, for every instantiation in the zoo: exhaustive "
         "kind dispatch on both dispatch mechanisms, per resolver the source of the stored prong (literal first / guarded resumable / select() / sub-state "
         "report / random walk) for request and report flavours alike, descent into nested regions with the chosen prong, prong dispatch inside CS_, "
         "leftmost-on-ties comparisons, resumable memory on every leave, reset() order, idle guards, agreement of the two RegistryT specialisations and the "
         "name-to-kind table of the whole request API. Decides that every ancestor loop of requestImmediate that marks a region can also re-target it (later requests of a batch override earlier ones). Decides that reset() ends its re-activation with clearRequests() and that the anonymous head of a head-less region reports its own prong; flags the early stop of the ancestor walk (known finding). Does not decide the resulting configuration for an arbitrary batch from an arbitrary state.",
         "table/sibling agreement rules + interprocedural value-origin analysis + path rules over clang AST facts (static analysis)"),
 "C03": ("Decides enter-after-parent / exit-before-parent order, exit/enter pairing per region, that callbacks reach a sub-state only through the "
         "active (resp. requested) prong of its own region, prong dispatch inside CS_, who may invoke user callbacks / state wrappers / apex entry points, "
         "activation entry points and that access<T>() denotes the sub-object handlers run on - for every instantiation in the zoo. The count "
         "'exactly once over a history' follows from these invariants and is not separately computed.",
         "path/order rules + who-may-call + sibling dispatch tables over clang AST facts (static analysis)"),
 "C04": ("Decides the round protocol of R_::processTransitions / initialEnter on every structured path (apply, change test, pending:=requests, guards, "
         "approved: record+backup | vetoed: restore), that nothing is committed inside the loop, the guard order and the cancellation detection in the "
         "state wrappers, that a veto re-establishes every registry field a request may write (transitive may-write effects of applyRequest vs the veto "
         "arm), backup/restore symmetry, the substitution bound, and that the guard walk reaches every pending change (forwarding shapes of C_/O_::deepForward{Entry,Exit}Guard; requestImmediate marks every orthogonal and composite ancestor of the destination).",
         "token-protocol path rule + transitive may-write effects + order rules over clang AST facts (static analysis)"),
 "C06": ("Decides that a task's kind, destination and payload reach the request updatePlan issues (task-field flow), the execution guards (loop stops at the "
         "first inactive origin, request only under the origin's success mark, Origin scope naming the head, removal and mark clearing afterwards), the "
         "success/failure routing decision trees of updatePlan and C_/O_::deepUpdatePlans, that head and sub-state statuses are or-ed into the right "
         "accumulators everywhere, that the status a state reports is the status of its own callbacks (the shared region-scope status is cleared before they "
         "run), mark clearing on exit / end of step, default propagation, TaskStatus ordering, payload~void sibling agreement, and that every request function "
         "classifies a request as leaving the open region exactly when its destination lies outside the region's id interval (linear-inequality normal form). "
         "Decides that no library function passes, returns, holds or copy-constructs a state sub-object by value (callbacks run on the stored objects). Decides that the round loop is entered at most once per step on every path of its callers and that the change snapshot precedes the requests it is compared with; the bit-view read the orthogonal guard walk filters by is the single-bit normal form. Decides that an orthogonal region forwards the guard walk to every sub-region its commit covers, that the walk ends in 'no objection' at a leaf, that every round's guards run on a freshly constructed GuardControl, and that a dropped round is rolled back like a vetoed one. Decides that a region hands its parent the head's status (not the sub-states'), that scope objects save / restore the control's own values and are opened before head callbacks run on a plan-capable control, that only append sets and only PlanDataT::clear drops the plan-owner bit, and that no copy of plan data is used after a call that may change it. Does not decide the step-level accumulation of statuses across nested regions as values.",
         "field-flow + decision-tree path rules + sibling skeleton agreement over clang AST facts (static analysis)"),
 "C07": ("Decides the capacity clause (no effect and `false` at capacity), who may write the link / bound / task tables, the exact write sets of linkTask "
         "(append at the tail with the old tail as predecessor), remove (both neighbours or the bound re-linked, both links of the freed slot reset, "
         "exactly the addressed slot freed last) and clearTasks (successor read before the slot is freed, bounds reset), agreement of the three plan "
         "iterators, and reset-to-initial of clear(). Decides that emplace() branches only on the bookkeeping fields clear() resets (never on stale slot contents). Decides that region scopes are opened before the head / sub-states receive a plan-capable control (exit included), so that control.plan() names the region whose callback runs. Does not decide the global list-shape invariant over arbitrary interleavings.",
         "per-path write-set rules + who-may-write + pattern-level sibling normal forms over clang AST facts (static analysis)"),
 "C14": ("Decides that the payload parameter of every ...With entry point (34 functions in 3 API layers plus PayloadPlanT::append) is the payload of the "
         "Transition / Task constructed, the constructor / flag / payload() discipline of TransitionT and TaskT, the plan-to-transition payload arm, "
         "alignment / size of the storage for every payload type in the zoo (int, over-aligned 64-byte struct), and the name-to-kind table. Does not "
         "decide bytewise faithfulness of copying non-trivially-copyable payloads.",
         "argument-flow + constructor-initialiser + record-layout rules over clang AST facts (static analysis)"),
 "C08": ("Decides that writer and reader of every save/load pair agree on every path (widths, flag polarity, mirrored sub-calls into the same sub-objects, "
         "destination field), that every sub-object is visited on every path, that the bits save() can write along any path of the call tree fit "
         "SERIAL_BITS for every machine of the zoo (and bytes = ceil(bits/8), stream starts from a cleared buffer), const-ness / empty write set of save, "
         "that no call after the loader may rewrite the loaded resumable marks, the load commit sequence, and (type-level witness including machines beyond "
         "255 bits) that the constant the buffer and streams are sized with equals SERIAL_BITS in a type that holds it. Equality of configurations as values "
         "follows from these given C01-C03 and is not separately computed.",
         "writer/reader mirror (per-path stream-token isomorphism) + call-tree bit budget + effect ordering over clang AST facts (static analysis)"),
 "C09": ("Decides what is recorded and when (approved arm only; published on every exit of a step; cleared on deactivation/reset/load/replay), that the "
         "change predicate compares the whole pending configuration, who may write the pin table, that it is read under a bound and written with the request's position in the whole step's record (not in "
         "the round), and that replay reaches "
         "no guard, records exactly the replayed list and commits through the ordinary routine. Decides that pins follow the fate of their round (snapshot at every approval, restored on veto / drop), that every resolver hands the request down to the sub-state it picks (pin coverage; four known findings), that a batch that fits is appended, and that the replay control carries the replayed transitions. Decides (shared instances) that PlanDataT::clear() resets every table a re-used task slot reads, and that replay records and exposes the replayed transitions with their payloads. Does not decide that replay lands in the same configuration "
         "from every state, nor the resumable part.",
         "path rules + who-may-write + call-graph reachability over clang AST facts (static analysis)"),
 "C10": ("Decides that no constructor chain can call a member of a base sub-object before that sub-object is constructed (initialiser self-references x "
         "call-graph reachability), that every scalar member of every library record is definitely initialised by every constructor, that there is no "
         "mutable static / thread-local state, that user-provided copy/move constructors copy every base and member from the corresponding part, and that "
         "self-referential objects (reference or pointer into the same complete object) are not copied member-wise, and that a class which "
         "read-modify-writes caller storage behind a reference member clears it on construction (the serialisation write stream), and that no expression has two operands with caller-visible effects whose order "
         "of evaluation is unspecified (callback order is not the compiler's choice). Does not decide "
         "behavioural equality of two runs as such.",
         "constructor-initialiser / record-layout rules + call-graph reachability over clang AST facts (static analysis)"),
 "C11": ("Decides absence of dynamic allocation (expressions, callees, member types, includes), that every write growing a fixed array through a member "
         "counter is dominated by a capacity test in the function or at every call site, the one-past read of the bit-range views, that range views "
         "cover exactly ceil(width/8) units, that shift amounts that are constants / masked / folded template constants are in range (rotations called "
         "with 0<k<W), that the memcpy/memset helpers are instantiated on trivially copyable operands of fitting size, that composite-array subscripts "
         "forkId-1 are dominated by a forkId>0 test in the general registry, plus the serialization bit budget "
         "and pool reset as the guards of the two indices not tested locally, that the payload buffers of TransitionT / TaskT are large enough and aligned "
         "for the payload (static_assert witness over alignments 1..32), that the serialisation buffer has SERIAL_BITS bits also beyond 255, and that "
         "updatePlan reads nothing through a plan iterator between remove() and operator++ (typestate). Does not decide in-range-ness of arbitrary subscripts; shifts needing a "
         "relational loop invariant are listed as undecided.",
         "who-may-grow / dominance path rules + constant-range evaluation + type-trait queries over clang AST facts (static analysis)"),
 "C15": ("Decides that the two header flavours are the same program (token-identical after preprocessing in every configuration of the tier; otherwise "
         "function-by-function comparison of symbolic event paths), that enabling a feature adds to the core functions only events owned by that feature "
         "(cross-configuration differencing of the symbolic event paths of every core function, with a frozen ownership table per feature), that the "
         "capacities containers are instantiated with equal the constants the machine publishes in every configuration, that published constants do "
         "not depend on unrelated switches, that every switch owns a distinct bit of the feature tag, that every Config option alias changes exactly its own "
         "option (type-level witness), and payload~void agreement of the plan code. "
         "Behavioural equality as such is implied for programs inside the common subset and is not separately computed.",
         "cross-configuration differencing of symbolic event paths + preprocessor token comparison + type-level constant comparison (static analysis)"),
 "C16": ("Decides, in verbose and interface logging configurations, that each of the 34 state wrappers logs exactly once, before the callback, with "
         "STATE_ID and the Method (and member pointer) its name denotes; that every request entry point logs the transition it queues with the same "
         "kind / origin / destination; that cancellations, task / plan statuses and resolutions are logged unconditionally with the right ids; that "
         "every logger call is guarded by the pointer and logging writes no machine state; and that every R_/RV_ operation that can change the "
         "active set refreshes the structure report after its last lifecycle call (in id order). Decides that the logger is never taken or held by value (no slicing), that the interface-mode log() overloads record exactly one recordMethod on the logger handed in or nothing, and the saturating activity-counter update over its whole input domain (finite-domain evaluation of the syntax tree). Does not decide activityHistory's saturation arithmetic.",
         "pairing / dominance path rules + effect analysis over clang AST facts in log and report configurations (static analysis)"),
 "C17": ("Exhaustive within the bound: for every ordered tree over {leaf, composite headed/headless, orthogonal headed/headless} with a region root, at "
         "least one composite region and <= 5 states (quick; <= 7 thorough), plus wide regions (widths 2..17) and mixed orthogonal-over-composite "
         "families, the type checker verifies stateId<>(), regionId<>() and all published counts (STATE/REGION/COMPO/ORTHO counts, ORTHO_UNITS, "
         "COMPO_PRONGS, ACTIVE/RESUMABLE/SERIAL bits, TASK_CAPACITY) against an independent DFS reference, and that separately written peers agree; "
         "the materialised I_<STATE_ID, COMPO_INDEX, ORTHO_INDEX, ORTHO_UNIT> of every S_/C_/O_ base of every zoo machine and of generated wide "
         "machines (where unit offsets differ from indices) equal the same reference; and the registration data written by deepRegister/wideRegister "
         "agree with those indices by value, that every accessor overload addresses the registered slot by the same indices, and that the copies of the "
         "counts held by ArgsT equal RF_'s in a type that can hold them (two shapes beyond 255 states / serial bits included). Decides that FSM::State::stateId<>() / regionId<>() resolve like the RF_ members and that every S_ wrapper opens an origin scope naming its own STATE_ID before the user's method runs. Shapes beyond the bound are covered only through the uniformity of the metafunctions.",
         "type-level static_assert witnesses decided by clang -fsyntax-only + class-hierarchy facts from the extractor (static analysis)"),
 "C18": ("Decides, on the uninstantiated patterns (so that members no machine uses are covered): that each of the 14 single-index accessors reduces, "
         "after substituting its locals, to the canonical one-unit / one-bit-mask form; that whole-array operations are a single loop over all units "
         "with the canonical body and nothing else; that the views test _width/8 full units plus the masked tail; that writer and reader of the bit "
         "stream share the cursor atoms, reduce to the canonical chunk transfer and never narrow an index derived from the cursor; that buffer "
         "comparison visits all bytes. Does not decide round-trip equality or the set-algebra laws as value equalities.",
         "normal-form (definition-substituted, fully parenthesised) comparison of container leaf code over clang AST facts (static analysis)"),
 "C20": ("Decides that every float/double handed out is in [0,1) (known-bits argument on the reinterpreted bit pattern: sign 0, exponent = bias, mantissa = "
         "top bits of the integer draw; or the exact-scaling idiom), that the seeding draw rejects zero and fills all four state words, that generator "
         "members touch nothing but their own state, that no expression draws twice in an unspecified order (the output does not depend on the compiler), and "
         "that the next-state / output maps of splitmix64/32, xoshiro256+/128+/256**/128** and their "
         "jump() (tables, bounds, body) equal the published algorithms: both sides are symbolically evaluated to canonical terms over the input "
         "state (xor/shift/rotate exact, + and * commutative uninterpreted) from the extractor's ASTs — HFSM2's and the vendored reference sources'.",
         "symbolic term evaluation + canonical-form equality against vendored references, known-bits reasoning (static analysis)"),
 "C12": ("Decides tie-breaking operators (left half kept on ties), the utility composition formulas of nested composite / orthogonal regions as expression "
         "shape, same-kind delegation of reports on the way down, rank masking, the shape of the cumulative walk (skip iff cursor >= utility, one rng.next() "
         "per resolution, rng.next called nowhere else, the arrays walked are the arrays summed), that the walk cannot return none, and the anonymous-head "
         "defaults for rank/utility. Decides that every index resolveRandom can return, including the overshoot fallback, passed the rank filter. Decides that the overshoot fallback only names candidates of positive utility that passed the rank filter, and that reset() resolves through the change path. Does not decide which interval a particular float r*sum falls into (rounding is a numeric question).",
         "expression-shape / sibling agreement rules + interprocedural return-origin analysis over clang AST facts (static analysis)"),
 "C13": ("Decides that both RegistryT specialisations answer the six queries with the same normalised comparison, that the comparisons are the ones the "
         "statement prescribes over the fields the commit / resume code writes (same index convention), the INVALID sentinel exclusion of the pending "
         "queries, that all control facades forward unchanged, that the resume path hands the remembered prong down unchanged, and that a region stores its "
         "active prong before its first enter callback runs. Decides that every state-keyed query climbs to the deciding composite fork by a loop over forkParent (any number of orthogonal levels). Decides that the state-typed overloads name the state by stateId<>(), and that an INVALID exclusion in the pending queries is only admissible together with a walk over further ancestors. Decides that every API member named resume* / schedule* queues the request kind its name denotes. Does not decide "
         "exactness of the pending queries for nested states whose ancestor region is the one switching.",
         "normal-form (atom set) sibling comparison + field tables over clang AST facts (static analysis)"),
 "C05": ("Decides the structural clauses of C05 for every instantiation of the reaction/update patterns in the witness zoo: phase order in "
         "R_::update/react/query, head vs sub-state order in C_/O_ and the 16 reaction wrappers, Initial-before-Remaining in OS_, consumption gating "
         "between any two consecutive deliveries (call-graph fixpoint mayDeliver/entryGated + path rule), active-prong origin, injected-base order, and that the "
         "configured reaction order reaches the machine through every Config option alias (type-level witness). "
         "Judges the order of injected vs own handlers for query (down) and exitGuard (up) as well.",
         "path/order rules + call-graph fixpoint over clang AST facts + static_assert witness decided by clang -fsyntax-only (static analysis)"),
}
NOTE = ("trusted: clang 14 front end, the hfx extractor (opaque constructs fail the run), the rule tables of DESIGN.md section 6; the quantifier over machine "
        "structures is discharged by coverage of pattern x template-argument-kind in the witness zoo (DESIGN.md section 4)")
NA_REASON = {
 "C19": "observational equivalence with an ideal pool over all interleavings: needs a shape/refinement argument over histories that no sound static analysis in reach provides; its structural clauses (capacity guard, reset-to-initial) are decided under C07/C11 (DESIGN.md 6/C19)",
}

def main():
    props = [json.loads(l) for l in open('/verif/properties.jsonl')]
    m = {"version": 1, "setup_cmd": "make -C /verif all",
         "hooks": {"guard": "HFSM2_VERIF", "enable": "none needed: the analysis reads the unmodified sources through clang's front end; no hook is compiled in",
                   "baseline_off_cmd": "cmake -G Ninja -S /repo -B /repo/_build -DHFSM2_BUILD_TESTS=ON -DCMAKE_BUILD_TYPE=RelWithDebInfo -DCMAKE_CXX_FLAGS=-Wno-error && cmake --build /repo/_build && ctest --test-dir /repo/_build -j8 --timeout 900",
                   "source_commits": [], "add_only": True},
         "engines": [
           {"name": "hfx", "path": "tools/hfx/hfx.cc", "serves_properties": sorted(CLAIMS), "kind_free_text": "clang 14 libTooling fact extractor: resolved callees, fields, evaluated type-level constants, structured bodies of every instantiated function of the witness zoo (witness/zoo.hpp)"},
           {"name": "rules", "path": "hfsm/", "serves_properties": sorted(CLAIMS), "kind_free_text": "Python rule engine: structured path enumeration with constant folding, symbolic places with alias/copy propagation and accessor inlining, interprocedural value origins, may-write effects, call-graph fixpoints, sibling tables"}],
         "checks": [], "not_applicable": [],
         "notes": "static analysis only; exit 0 ok (KNOWN-FINDING lines for listed defects) / 1 VIOLATION / 2 analysis broken. See DESIGN.md."}
    for p in props:
        pid = p['id']
        if pid in CLAIMS:
            text, tech = CLAIMS[pid]
            m["checks"].append({"property_id": pid, "quick_cmd": "./verif check %s --tier quick" % pid,
                                "thorough_cmd": "./verif check %s --tier thorough" % pid,
                                "evidence_file": "/verif/evidence/%s.json" % pid, "replay_cmd_template": "./verif explain {path}",
                                "engine": "hfx+rules",
                                "level_claimed": {"category": "exploration" if pid == "C17" else "other", "text": text, "design_ref": "DESIGN.md section 6, " + pid},
                                "level_note": NOTE, "technique": tech})
        else:
            m["not_applicable"].append({"property_id": pid, "reason": NA_REASON.get(pid, "check not implemented yet in this revision (DESIGN.md section 11 build order)")})
    json.dump(m, open('/verif/MANIFEST.json', 'w'), indent=1)

main()
