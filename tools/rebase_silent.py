#!/usr/bin/env python3
"""Re-express the behaviour-preserving patches of selftest/silent on /repo HEAD (same method as rebase_seeds.py): find the newest commit of
/repo at which the patch applies with offset 0, commit it there on a scratch worktree, cherry-pick onto HEAD, regenerate machine.hpp with
tools/join.py, write the diff against HEAD back.  usage: rebase_silent.py [patch ...]"""
import os, subprocess, sys, glob
V, R, WT = "/verif", "/repo", "/tmp/rebase_silent"

def sh(cmd, cwd=WT):
    r = subprocess.run(cmd, shell=True, cwd=cwd, stdout=subprocess.PIPE, stderr=subprocess.STDOUT, text=True)
    return r.returncode, r.stdout

def main():
    names = sys.argv[1:] or sorted(os.path.basename(p) for p in glob.glob(V + "/selftest/silent/*.diff"))
    head = sh("git rev-parse HEAD", cwd=R)[1].strip()
    commits = sh("git log --format=%H -40", cwd=R)[1].split()
    if not os.path.isdir(WT):
        rc, out = sh("git worktree add -q --detach %s HEAD" % WT, cwd=R)
        assert rc == 0, out
    for n in names:
        p = V + "/selftest/silent/" + n
        base = None
        for c in commits:
            sh("git reset -q --hard; git checkout -q --detach %s" % c)
            rc, out = sh("git apply --check --verbose %s" % p)
            if rc == 0 and "offset" not in out:
                base = c
                break
        if base is None:
            print(n, "NO EXACT BASE")
            continue
        if base == head:
            print(n, "exact at HEAD")
            continue
        sh("git apply %s" % p)
        sh("git -c user.email=x@x -c user.name=x commit -qam silent")
        t = sh("git rev-parse HEAD")[1].strip()
        sh("git checkout -q --detach %s" % head)
        rc, out = sh("git cherry-pick -n %s" % t)
        if rc != 0:
            st = sh("git status --porcelain")[1]
            unmerged = [l[3:] for l in st.splitlines() if l[:2] in ("UU", "AA", "DU", "UD")]
            if any(u.startswith("development/") for u in unmerged):
                print(n, "CONFLICT in", unmerged, "(base %s)" % base[:7])
                sh("git reset -q --hard")
                continue
            sh("git checkout -q %s -- include/hfsm2/machine.hpp" % head)
        sh("git reset -q")
        dev = "development/" in open(p).read()
        if dev:
            sh("python3 join.py", cwd=WT + "/tools")
        rc, new = sh("git diff -- include development")
        sh("git reset -q --hard")
        if not new.strip():
            print(n, "EMPTY")
            continue
        open(p, "w").write(new)
        print(n, "rebased from", base[:7])
    sh("git worktree remove --force %s" % WT, cwd=R)

main()
