#!/usr/bin/env python3
"""Run the registered quick checks against every seeded mutation under /verif/seeded and record which rule reports it.

usage: catch_matrix.py [--tier quick|thorough] [--also C08,...] [seed ...]
For each seed: git -C /repo apply patch.diff; ./verif check <property>; git -C /repo checkout -- include development.
Refuses to start when /repo has local modifications.  Results: seeded/CATCH.json and `caught_by` in each meta.json.
Never used by a registered check.
"""
import json, os, re, subprocess, sys

V = "/verif"
R = "/repo"


def sh(cmd, cwd=None):
    r = subprocess.run(cmd, shell=True, cwd=cwd, stdout=subprocess.PIPE, stderr=subprocess.STDOUT, text=True)
    return r.returncode, r.stdout


def main():
    args = sys.argv[1:]
    tier = "quick"
    also = []
    if "--tier" in args:
        i = args.index("--tier"); tier = args[i + 1]; del args[i:i + 2]
    if "--also" in args:
        i = args.index("--also"); also = args[i + 1].split(","); del args[i:i + 2]
    seeds = args or sorted(d for d in os.listdir(V + "/seeded") if os.path.isdir(V + "/seeded/" + d))
    rc, out = sh("git status --porcelain -- include development test", cwd=R)
    if out.strip():
        sys.exit("refusing: /repo has local modifications:\n" + out)
    path = V + "/seeded/CATCH.json"
    res = json.load(open(path)) if os.path.exists(path) else {}
    head = sh("git rev-parse --short HEAD", cwd=R)[1].strip()
    for s in seeds:
        d = V + "/seeded/" + s
        meta = json.load(open(d + "/meta.json"))
        prop = meta.get("breaks_property") or meta.get("property") or s.split("-")[0]
        rc, out = sh("git apply %s/patch.diff" % d, cwd=R)
        if rc != 0:
            res[s] = {"error": "patch does not apply to %s: %s" % (head, out[:200])}
            print(s, "PATCH DOES NOT APPLY")
            continue
        entry = {"repo_head": head, "tier": tier, "checks": {}}
        try:
            for p in [prop] + [a for a in also if a != prop]:
                rc, out = sh("./verif check %s --tier %s" % (p, tier), cwd=V)
                rules = sorted(set(re.findall(r"\[(C\d\d\.[\w-]+)\]", out)))
                first = [l.strip()[:300] for l in out.splitlines() if re.search(r"\[C\d\d\.[\w-]+\]\s*$", l)][:3]
                entry["checks"][p] = {"exit": rc, "rules": rules, "reports": first}
        finally:
            sh("git checkout -- include development test", cwd=R)
        own = entry["checks"][prop]
        entry["caught"] = own["exit"] == 1
        entry["caught_by"] = own["rules"]
        res[s] = entry
        meta["caught_by"] = {"check": "./verif check %s --tier %s" % (prop, tier), "exit": own["exit"], "rules": own["rules"], "reports": own["reports"], "repo_head": head}
        json.dump(meta, open(d + "/meta.json", "w"), indent=1)
        print(s, "exit=%d" % own["exit"], ",".join(own["rules"]) or "-", flush=True)
        json.dump(res, open(path, "w"), indent=1, sort_keys=True)
    rc, out = sh("git status --porcelain -- include development test", cwd=R)
    assert not out.strip(), out


if __name__ == "__main__":
    main()
