#!/usr/bin/env python3
"""Run the registered checks against every seeded mutation under /verif/seeded and record which rule reports it.

usage: catch_matrix.py [--tier quick|thorough] [--also C08,...] [--jobs N] [--keep-pool] [seed ...]
Each patch is applied in a scratch worktree of /repo at HEAD (tools/pool.py; /repo itself and /verif/evidence stay untouched), the check of
the seed's property (plus --also) is run against that tree, and the worktree is reverted.
Results: seeded/CATCH.json and `caught_by` in each meta.json.  Exit 1 if a seed is missed.  Never used by a registered check.
"""
import json, os, sys
from concurrent.futures import ThreadPoolExecutor
sys.path.insert(0, os.path.dirname(os.path.abspath(__file__)))
from pool import Pool, V


def main():
    args = sys.argv[1:]
    tier, also, jobs, keep = "quick", [], 6, False
    if "--tier" in args:
        i = args.index("--tier"); tier = args[i + 1]; del args[i:i + 2]
    if "--also" in args:
        i = args.index("--also"); also = args[i + 1].split(","); del args[i:i + 2]
    if "--jobs" in args:
        i = args.index("--jobs"); jobs = int(args[i + 1]); del args[i:i + 2]
    if "--keep-pool" in args:
        args.remove("--keep-pool"); keep = True
    seeds = args or sorted(d for d in os.listdir(V + "/seeded") if os.path.isdir(V + "/seeded/" + d) and d != "retired")
    path = V + "/seeded/CATCH.json"
    res = json.load(open(path)) if os.path.exists(path) else {}
    pool = Pool(min(jobs, len(seeds)))

    def one(s):
        d = V + "/seeded/" + s
        meta = json.load(open(d + "/meta.json"))
        prop = meta.get("breaks_property") or meta.get("property") or s.split("-")[0]
        r = pool.run(d + "/patch.diff", [prop] + [a for a in also if a != prop], tier)
        return s, prop, meta, r

    missed = 0
    try:
        with ThreadPoolExecutor(pool.n) as ex:
            for s, prop, meta, r in ex.map(one, seeds):
                if "error" in r:
                    res[s] = r
                    print(s, "ERROR", r["error"][:200], flush=True)
                    missed += 1
                    continue
                own = r[prop]
                res[s] = {"repo_head": pool.head[:7], "tier": tier, "checks": r, "caught": own["exit"] == 1, "caught_by": own["rules"]}
                meta["caught_by"] = {"check": "./verif check %s --tier %s" % (prop, tier), "exit": own["exit"], "rules": own["rules"], "reports": own["reports"],
                                     "repo_head": pool.head[:7]}
                json.dump(meta, open(V + "/seeded/" + s + "/meta.json", "w"), indent=1)
                missed += own["exit"] != 1
                print(s, "exit=%d" % own["exit"], ",".join(own["rules"]) or "-", flush=True)
                json.dump(res, open(path, "w"), indent=1, sort_keys=True)
    finally:
        if not keep:
            pool.remove()
    sys.exit(1 if missed else 0)


if __name__ == "__main__":
    main()
