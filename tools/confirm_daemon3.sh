#!/bin/sh
# round 3: polls /tmp/confirm3_q for files named <prop>; seeds live in /tmp/wt3/<prop>/seed; confirmed ones are filed as seeded/<prop>-r3-<k>
mkdir -p /tmp/confirm3_q
export CONFIRM_WT=/tmp/confirm3/wt CONFIRM_TAG=r3- CONFIRM_JOBS=10
while [ ! -e /tmp/confirm3_q/STOP ]; do
  f=$(ls -tr /tmp/confirm3_q 2>/dev/null | grep -v STOP | head -1)
  if [ -n "$f" ]; then
    ks=$(cat /tmp/confirm3_q/$f); rm -f /tmp/confirm3_q/$f
    python3 /verif/tools/confirm_seeds.py $f /tmp/wt3/$f/seed $ks >> /tmp/confirm3_$f.log 2>&1
  else
    sleep 15
  fi
done
