#!/usr/bin/env python3
"""Re-express seeded patches (made against the pinned commit) on /repo's current HEAD, robustly.

`git apply` places a hunk by its context; several HFSM2 functions end in identical lines, so after the fix: commits shifted
line numbers a hunk could land in a *neighbouring* function of machine.hpp.  This tool applies each patch at the pinned commit
(offset 0), commits it on a scratch worktree, cherry-picks it onto HEAD (three-way merge on the whole file) and regenerates
include/hfsm2/machine.hpp from development/ with tools/join.py, then writes the diff against HEAD as patch.diff (the original
is kept as patch.pinned.diff).  usage: rebase_seeds.py <pinned-commit> [seed ...]
"""
import json, os, subprocess, sys, glob, filecmp

V = "/verif"
R = "/repo"
WT = "/tmp/rebase"


def sh(cmd, cwd=WT, check=False):
    r = subprocess.run(cmd, shell=True, cwd=cwd, stdout=subprocess.PIPE, stderr=subprocess.STDOUT, text=True)
    if check and r.returncode != 0:
        raise SystemExit("%s\n%s" % (cmd, r.stdout))
    return r.returncode, r.stdout


def main():
    base = sys.argv[1]
    seeds = sys.argv[2:] or sorted(os.path.basename(d.rstrip("/")) for d in glob.glob(V + "/seeded/*/") if not d.rstrip("/").endswith("retired"))
    head = sh("git rev-parse HEAD", cwd=R)[1].strip()
    if not os.path.isdir(WT):
        sh("git worktree add -q --detach %s HEAD" % WT, cwd=R, check=True)
    for s in seeds:
        d = V + "/seeded/" + s
        src = d + "/patch.pinned.diff" if os.path.exists(d + "/patch.pinned.diff") else d + "/patch.diff"
        sh("git reset -q --hard; git checkout -q --detach %s" % base, check=True)
        rc, out = sh("git apply --verbose %s" % src)
        if rc != 0 or "offset" in out:
            print(s, "DOES NOT APPLY EXACTLY AT PINNED:", out[-200:].replace("\n", " "))
            continue
        # flavours in step at the pinned commit?
        sh("cp include/hfsm2/machine.hpp /tmp/rebase_mh.txt")
        sh("python3 join.py", cwd=WT + "/tools")
        in_step = filecmp.cmp(WT + "/include/hfsm2/machine.hpp", "/tmp/rebase_mh.txt", shallow=False)
        sh("cp /tmp/rebase_mh.txt include/hfsm2/machine.hpp")
        dev_only = "development/" in open(src).read()
        sh("git -c user.email=x@x -c user.name=x commit -qam seed", check=True)
        t = sh("git rev-parse HEAD")[1].strip()
        sh("git checkout -q --detach %s" % head, check=True)
        rc, out = sh("git cherry-pick -n %s" % t)
        if rc != 0:
            # conflicts in machine.hpp are irrelevant when development/ merged: regenerate
            rc2, st = sh("git status --porcelain")
            unmerged = [l[3:] for l in st.splitlines() if l[:2] in ("UU", "AA", "DU", "UD")]
            if any(u.startswith("development/") for u in unmerged) or not dev_only:
                print(s, "CONFLICT in", unmerged, "- needs a manual rebase")
                sh("git reset -q --hard")
                continue
            sh("git checkout -q %s -- include/hfsm2/machine.hpp" % head)
        sh("git reset -q")
        if dev_only and in_step:
            sh("cp include/hfsm2/machine.hpp /tmp/rebase_mh.txt")
            sh("python3 join.py", cwd=WT + "/tools")
            same = filecmp.cmp(WT + "/include/hfsm2/machine.hpp", "/tmp/rebase_mh.txt", shallow=False)
        else:
            same = None
        rc, new = sh("git diff -- include development")
        cur = open(d + "/patch.diff").read()
        sh("git reset -q --hard")
        if not new.strip():
            print(s, "EMPTY after rebase")
            continue

        def body(x):
            return [l for l in x.splitlines() if (l.startswith("+") or l.startswith("-")) and not l.startswith("+++") and not l.startswith("---")]
        status = "unchanged" if new == cur else ("same hunks, moved" if body(new) == body(cur) else "CHANGED")
        # does the *current* patch.diff land where the rebased one does?  apply it to HEAD and compare trees
        sh("git apply %s" % (d + "/patch.diff"))
        rc, landed = sh("git diff -- include development")
        sh("git reset -q --hard")
        mis = landed != new
        print(s, status, "flavours-in-step-at-pinned=%s" % in_step, "merge==join:%s" % same, "CURRENT PATCH MIS-LANDS" if mis else "")
        if mis or status != "unchanged":
            if not os.path.exists(d + "/patch.pinned.diff"):
                os.rename(d + "/patch.diff", d + "/patch.pinned.diff")
            open(d + "/patch.diff", "w").write(new)
            m = json.load(open(d + "/meta.json"))
            m["rebased"] = ("patch.diff is the same change re-expressed on /repo HEAD %s (applied at the pinned commit, cherry-picked, machine.hpp regenerated with "
                            "tools/join.py); patch.pinned.diff is the original against the pinned commit" % head[:7])
            json.dump(m, open(d + "/meta.json", "w"), indent=1)


if __name__ == "__main__":
    main()
