#!/usr/bin/env python3
"""try_patch.py <prop[,prop..]> <patch.diff> [...]  — run checks against a patch in a scratch worktree (tools/pool.py); prints exit code and reports."""
import sys, os, json
from concurrent.futures import ThreadPoolExecutor
sys.path.insert(0, os.path.dirname(os.path.abspath(__file__)))
from pool import Pool
props = sys.argv[1].split(",")
patches = sys.argv[2:]
pool = Pool(min(6, len(patches)))
try:
    with ThreadPoolExecutor(pool.n) as ex:
        for pt, r in ex.map(lambda p: (p, pool.run(p, props)), patches):
            print(pt)
            for p, x in r.items():
                print("  ", p, x if p == "error" else ("exit=%s %s" % (x["exit"], ",".join(x["rules"]))))
                if p != "error":
                    for l in x["reports"][:3]:
                        print("      ", l[:300])
finally:
    pool.remove()
