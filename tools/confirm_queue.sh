#!/bin/sh
# serialise seed confirmations: confirm_queue.sh "C04 2 3" "C06" ...  (each arg: property [k...])
for spec in "$@"; do
  set -- $spec; p=$1; shift
  python3 /verif/tools/confirm_seeds.py $p /tmp/wt/$p/seed "$@" >> /tmp/confirm_$p.log 2>&1
done
