#!/bin/sh
# polls /tmp/confirm_q for files named <prop> (content: optional list of k) and confirms them one at a time
mkdir -p /tmp/confirm_q
while [ ! -e /tmp/confirm_q/STOP ]; do
  f=$(ls -tr /tmp/confirm_q 2>/dev/null | grep -v STOP | head -1)
  if [ -n "$f" ] && ! pgrep -f confirm_seeds.py >/dev/null; then
    ks=$(cat /tmp/confirm_q/$f); rm -f /tmp/confirm_q/$f
    python3 /verif/tools/confirm_seeds.py $f /tmp/wt/$f/seed $ks >> /tmp/confirm_$f.log 2>&1
  else
    sleep 15
  fi
done
