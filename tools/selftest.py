#!/usr/bin/env python3
"""Self-test of the checkers, both ways (never used by a registered check):

  selftest.py silent [patch ...]   every behaviour-preserving patch under selftest/silent/*.diff is applied to /repo, ALL claimed
                                   checks are run (quick tier, in parallel) and must exit 0 without a VIOLATION line; the patch is reverted.
  selftest.py fire   [seed ...]    = tools/catch_matrix.py (every seeded mutation must make its property's check exit 1)

Refuses to start when /repo has local modifications.  Results: selftest/SILENT.json.
"""
import json, os, subprocess, sys, glob
from concurrent.futures import ThreadPoolExecutor

V = "/verif"
R = "/repo"


def sh(cmd, cwd=None):
    r = subprocess.run(cmd, shell=True, cwd=cwd, stdout=subprocess.PIPE, stderr=subprocess.STDOUT, text=True)
    return r.returncode, r.stdout


def claimed():
    m = json.load(open(V + "/MANIFEST.json"))
    return [c["property_id"] for c in m["checks"]]


def run_check(p):
    rc, out = sh("./verif check %s --tier quick" % p, cwd=V)
    lines = [l.strip()[:400] for l in out.splitlines() if l.startswith("VIOLATION") or l.rstrip().endswith("]") or "analysis broken" in l]
    return p, rc, lines[:6]


def main():
    mode = sys.argv[1]
    if mode == "fire":
        os.execv(sys.executable, [sys.executable, V + "/tools/catch_matrix.py"] + sys.argv[2:])
    assert mode == "silent"
    rc, out = sh("git status --porcelain -- include development test", cwd=R)
    if out.strip():
        sys.exit("refusing: /repo has local modifications:\n" + out)
    patches = sys.argv[2:] or sorted(os.path.basename(p) for p in glob.glob(V + "/selftest/silent/*.diff"))
    path = V + "/selftest/SILENT.json"
    res = json.load(open(path)) if os.path.exists(path) else {}
    props = claimed()
    head = sh("git rev-parse --short HEAD", cwd=R)[1].strip()
    bad = 0
    for name in patches:
        f = V + "/selftest/silent/" + name
        rc, out = sh("git apply %s" % f, cwd=R)
        if rc != 0:
            res[name] = {"error": "does not apply to %s: %s" % (head, out[:200])}
            print(name, "DOES NOT APPLY", flush=True)
            continue
        try:
            # one check first so that the fact cache for this tree is filled once, then the rest in parallel
            first = run_check(props[0])
            with ThreadPoolExecutor(6) as ex:
                rest = list(ex.map(run_check, props[1:]))
        finally:
            sh("git checkout -- include development test", cwd=R)
        alarms = {p: {"exit": rc, "lines": lines} for p, rc, lines in [first] + rest if rc != 0}
        res[name] = {"repo_head": head, "checks_run": len(props), "alarms": alarms}
        bad += bool(alarms)
        print(name, "silent" if not alarms else "ALARM " + " ".join("%s(exit %d)" % (p, a["exit"]) for p, a in sorted(alarms.items())), flush=True)
        json.dump(res, open(path, "w"), indent=1, sort_keys=True)
    rc, out = sh("git status --porcelain -- include development test", cwd=R)
    assert not out.strip(), out
    sys.exit(1 if bad else 0)


if __name__ == "__main__":
    main()
