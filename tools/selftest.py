#!/usr/bin/env python3
"""Self-test of the checkers, both ways (never used by a registered check):

  selftest.py silent [--jobs N] [patch ...]   every behaviour-preserving patch under selftest/silent/*.diff is applied in a scratch worktree
                                              (tools/pool.py), ALL claimed checks are run (quick tier) and must exit 0; results: selftest/SILENT.json
  selftest.py fire   [...]                    = tools/catch_matrix.py (every seeded mutation must make its property's check exit 1)
"""
import json, os, sys, glob
from concurrent.futures import ThreadPoolExecutor
sys.path.insert(0, os.path.dirname(os.path.abspath(__file__)))
from pool import Pool, V


def claimed():
    return [c["property_id"] for c in json.load(open(V + "/MANIFEST.json"))["checks"]]


def main():
    mode = sys.argv[1]
    args = sys.argv[2:]
    if mode == "fire":
        os.execv(sys.executable, [sys.executable, V + "/tools/catch_matrix.py"] + args)
    assert mode == "silent"
    jobs, keep = 6, False
    if "--jobs" in args:
        i = args.index("--jobs"); jobs = int(args[i + 1]); del args[i:i + 2]
    if "--keep-pool" in args:
        args.remove("--keep-pool"); keep = True
    patches = args or sorted(os.path.basename(p) for p in glob.glob(V + "/selftest/silent/*.diff"))
    path = V + "/selftest/SILENT.json"
    res = json.load(open(path)) if os.path.exists(path) else {}
    props = claimed()
    pool = Pool(min(jobs, len(patches)))
    bad = 0
    try:
        with ThreadPoolExecutor(pool.n) as ex:
            for name, r in ex.map(lambda n: (n, pool.run(V + "/selftest/silent/" + n, props)), patches):
                if "error" in r:
                    res[name] = r
                    print(name, "ERROR", r["error"][:200], flush=True)
                    bad += 1
                    continue
                alarms = {p: x for p, x in r.items() if x["exit"] != 0}
                res[name] = {"repo_head": pool.head[:7], "checks_run": len(props), "alarms": alarms}
                bad += bool(alarms)
                print(name, "silent" if not alarms else "ALARM " + " ".join("%s(exit %d: %s)" % (p, a["exit"], ",".join(a["rules"])) for p, a in sorted(alarms.items())),
                      flush=True)
                json.dump(res, open(path, "w"), indent=1, sort_keys=True)
    finally:
        if not keep:
            pool.remove()
    sys.exit(1 if bad else 0)


if __name__ == "__main__":
    main()
