// witness TU: the zoo (see zoo.hpp).  Compiled by the extractor only; never linked or run.
#include "zoo.hpp"
void zoo_entry() noexcept { zoo::buildAll(); }
