// Positive examples for rules whose expected count on the library is zero (C10.no-statics, C11.no-alloc, C11.one-past ...).
// Never executed.  Extracted with --roots=/verif/witness on every run of C10 / C11: each planted construct below must be
// reported by its rule, otherwise the run is *analysis broken* (a rule that cannot see its target passes vacuously).
#include <cstdlib>
#include <vector>
#include <new>

namespace canary {

int g_counter = 0;                               // C10.no-statics: mutable namespace-scope variable
thread_local int g_tls = 0;                      // C10.no-statics: thread storage

struct Node {
	int v;
	std::vector<int> owned;                      // C11.no-alloc: standard container member
};

inline int next_id() {
	static int id = 0;                           // C10.no-statics: function-local static
	return ++id;
}

inline Node* make() {
	Node* n = new Node{};                        // C11.no-alloc: non-placement new
	void* raw = std::malloc(16);                 // C11.no-alloc: malloc
	std::free(raw);                              // C11.no-alloc: free
	return n;
}

inline void drop(Node* n) {
	delete n;                                    // C11.no-alloc: delete
}

struct Gen {
	unsigned s = 1;
	unsigned draw() { s = s * 1664525u + 1013904223u; return s; }
};
inline unsigned pack(unsigned a, unsigned b) { return (a << 16) ^ b; }
inline unsigned two_draws(Gen& g)   { return pack(g.draw(), g.draw()); }      // C10.sequenced: both arguments advance g, order unspecified
inline unsigned sum_draws(Gen& g)   { return g.draw() - g.draw(); }           // C10.sequenced: both operands advance g
inline unsigned ordered_draws(Gen& g) { const unsigned a = g.draw(); return pack(a, g.draw()); }   // allowed: separate statements
inline bool     either(Gen& g)      { return g.draw() > 7u || g.draw() > 9u; }                     // allowed: || orders its operands

inline int* many(unsigned k) {
	return new int[k];                           // C11.no-alloc: array new
}

inline Node* in_place(void* where) {
	return new (where) Node{};                   // allowed: reserved placement new (must NOT be reported)
}

}

int main() {
	canary::Node* n = canary::make();
	canary::drop(n);
	alignas(canary::Node) unsigned char buf[sizeof(canary::Node)];
	canary::in_place(buf)->~Node();
	delete[] canary::many(3);
	canary::Gen g;
	(void) (canary::two_draws(g) + canary::sum_draws(g) + canary::ordered_draws(g) + (canary::either(g) ? 1u : 0u));
	return canary::next_id() + canary::g_counter + canary::g_tls;
}
