// witness/zoo.hpp — the witness zoo: machines that together instantiate every HFSM2 class-template
// pattern with every *kind* of template argument (leaf / composite / orthogonal sub-state, headed /
// headless, each strategy, last / non-last orthogonal sibling, single / split composite half, each
// context kind, both activations, both reaction orders, payload void / int / over-aligned).
//
// Compiled by the fact extractor (clang front end) only.  Never linked, never executed.
#pragma once

#ifdef ZOO_DEV
#include <hfsm2/machine_dev.hpp>
#else
#include <hfsm2/machine.hpp>
#endif

#ifdef HFSM2_ENABLE_PLANS
#define ZP(...) __VA_ARGS__
#else
#define ZP(...)
#endif
#ifdef HFSM2_ENABLE_SERIALIZATION
#define ZS(...) __VA_ARGS__
#else
#define ZS(...)
#endif
#ifdef HFSM2_ENABLE_TRANSITION_HISTORY
#define ZH(...) __VA_ARGS__
#else
#define ZH(...)
#endif
#ifdef HFSM2_ENABLE_UTILITY_THEORY
#define ZU(...) __VA_ARGS__
#define ZNU(...)
#else
#define ZU(...)
#define ZNU(...) __VA_ARGS__
#endif
#ifdef HFSM2_ENABLE_STRUCTURE_REPORT
#define ZR(...) __VA_ARGS__
#else
#define ZR(...)
#endif
#ifdef HFSM2_ENABLE_LOG_INTERFACE
#define ZL(...) __VA_ARGS__
#else
#define ZL(...)
#endif

namespace zoo {

using hfsm2::Prong;
using hfsm2::StateID;

struct Ctx {
	int n = 0;
};
struct Ev1 {
	int v;
};
struct Ev2 {};
struct Q1 {
	int acc = 0;
};
struct alignas(32) Big {
	char bytes[40];
};

#ifdef HFSM2_ENABLE_UTILITY_THEORY
struct MyRNG {
	float next() noexcept { return 0.5f; }
};
#endif

//------------------------------------------------------------------------------
// payload-dependent API (absent for Payload == void)

template <typename FSM, typename TPayload>
struct WithCalls {
	template <typename TControl>
	static void control(TControl& c, const StateID id) noexcept {
		const TPayload p{};
		c.changeWith(id, p);
		c.restartWith(id, p);
		c.resumeWith(id, p);
		c.selectWith(id, p);
		ZU(c.utilizeWith(id, p); c.randomizeWith(id, p);)
		c.scheduleWith(id, p);
	}
#ifdef HFSM2_ENABLE_PLANS
	template <typename TPlan>
	static void plan(TPlan& p, const StateID a, const StateID b) noexcept {
		const TPayload v{};
		p.changeWith(a, b, v);
		p.restartWith(a, b, v);
		p.resumeWith(a, b, v);
		p.selectWith(a, b, v);
		ZU(p.utilizeWith(a, b, v); p.randomizeWith(a, b, v);)
		p.scheduleWith(a, b, v);
	}
#endif
	template <typename TInstance>
	static void instance(TInstance& m, const StateID id) noexcept {
		const TPayload p{};
		m.changeWith(id, p);
		m.restartWith(id, p);
		m.resumeWith(id, p);
		m.selectWith(id, p);
		ZU(m.utilizeWith(id, p); m.randomizeWith(id, p);)
		m.scheduleWith(id, p);
		m.immediateChangeWith(id, p);
		m.immediateRestartWith(id, p);
		m.immediateResumeWith(id, p);
		m.immediateSelectWith(id, p);
		ZU(m.immediateUtilizeWith(id, p); m.immediateRandomizeWith(id, p);)
	}
	template <typename TTransition>
	static int read(const TTransition* t) noexcept {
		return t && t->payload() ? 1 : 0;
	}
};

template <typename FSM>
struct WithCalls<FSM, void> {
	template <typename TControl>
	static void control(TControl&, const StateID) noexcept {}
	template <typename TPlan>
	static void plan(TPlan&, const StateID, const StateID) noexcept {}
	template <typename TInstance>
	static void instance(TInstance&, const StateID) noexcept {}
	template <typename TTransition>
	static int read(const TTransition*) noexcept {
		return 0;
	}
};

//------------------------------------------------------------------------------
// a state base overriding every handler and naming every control API

template <typename FSM>
struct Busy : FSM::State {
	using Base = typename FSM::State;
	using typename Base::ConstControl;
	using typename Base::Control;
	using typename Base::EventControl;
	using typename Base::FullControl;
	using typename Base::GuardControl;
	using typename Base::PlanControl;
	using Payload = typename FSM::Payload;
	ZU(using typename Base::Rank; using typename Base::Utility;)

	int counter = 0;

	Prong select(const Control& c) noexcept { return c.isActive(1) ? 1 : 0; }
	ZU(Rank rank(const Control&) noexcept { return Rank{1}; } Utility utility(const Control& c) noexcept {
		return c.isResumable(1) ? Utility{2} : Utility{1};
	})

	void entryGuard(GuardControl& c) noexcept {
		if (c.isPendingEnter(1) || c.isPendingExit(2) || c.isPendingChange(3)) c.cancelPendingTransitions();
		(void)c.pendingTransitions();
		(void)c.currentTransitions();
		c.changeTo(2);
	}
	void enter(PlanControl& c) noexcept {
		++counter;
		(void)c.currentTransitions();
		ZH((void)c.previousTransitions(); (void)c.lastTransition(); (void)c.lastTransitionTo(1);
		   (void)WithCalls<FSM, Payload>::read(c.lastTransition());)
		ZP(auto p = c.plan(); p.change(1, 2); p.restart(1, 2); p.resume(1, 2); p.select(1, 2);
		   ZU(p.utilize(1, 2); p.randomize(1, 2);) p.schedule(1, 2); WithCalls<FSM, Payload>::plan(p, 1, 2);
		   for (auto it = p.begin(); it; ++it) { if (it->destination == 2) it.remove(); }
		   auto p1 = c.plan(1); p1.clear(); (void)static_cast<bool>(p1);)
	}
	void reenter(PlanControl&) noexcept { ++counter; }
	void preUpdate(FullControl& c) noexcept {
		(void)c.stateId();
		(void)c.context();
		(void)c._();
		(void)c.requests();
		(void)c.activeSubState();
		(void)c.activeSubState(1);
		(void)c.isActive(1);
		(void)c.isResumable(1);
		(void)c.isScheduled(1);
	}
	void update(FullControl& c) noexcept {
		c.changeTo(1);
		c.restart(1);
		c.resume(1);
		c.select(1);
		ZU(c.utilize(1); c.randomize(1);)
		c.schedule(1);
		WithCalls<FSM, Payload>::control(c, 1);
		ZP(c.succeed(); c.fail(); c.succeed(1); c.fail(1);)
	}
	void postUpdate(FullControl& c) noexcept { c.changeTo(2); }
	template <typename TEvent>
	void preReact(const TEvent&, EventControl& c) noexcept {
		c.consumeEvent();
	}
	template <typename TEvent>
	void react(const TEvent&, EventControl& c) noexcept {
		c.changeTo(1);
		c.consumeEvent();
	}
	template <typename TEvent>
	void postReact(const TEvent&, EventControl& c) noexcept {
		c.consumeEvent();
	}
	template <typename TEvent>
	void query(TEvent&, ConstControl& c) const noexcept {
		(void)c.isActive(1);
		(void)c.activeSubState(1);
		(void)c.isResumable(1);
		ZH((void)c.previousTransitions(); (void)c.lastTransition();)
		c.consumeQuery();
	}
	void exitGuard(GuardControl& c) noexcept {
		if (c.isPendingExit(1)) c.cancelPendingTransitions();
	}
	void exit(PlanControl&) noexcept { --counter; }
	ZP(void planSucceeded(FullControl& c) noexcept { c.changeTo(1); } void planFailed(FullControl& c) noexcept {
		c.fail();
	})
};

// injections
template <typename FSM>
struct InjA : FSM::State {
	using Base = typename FSM::State;
	using typename Base::EventControl;
	using typename Base::FullControl;
	using typename Base::GuardControl;
	using typename Base::PlanControl;
	using typename Base::ConstControl;
	int a = 0;
	void entryGuard(GuardControl&) noexcept { ++a; }
	void enter(PlanControl&) noexcept { ++a; }
	void reenter(PlanControl&) noexcept { ++a; }
	void preUpdate(FullControl&) noexcept { ++a; }
	void update(FullControl&) noexcept { ++a; }
	void postUpdate(FullControl&) noexcept { ++a; }
	template <typename TEvent>
	void preReact(const TEvent&, EventControl&) noexcept { ++a; }
	template <typename TEvent>
	void react(const TEvent&, EventControl&) noexcept { ++a; }
	template <typename TEvent>
	void postReact(const TEvent&, EventControl&) noexcept { ++a; }
	template <typename TEvent>
	void query(TEvent&, ConstControl&) const noexcept {}
	void exitGuard(GuardControl&) noexcept { ++a; }
	void exit(PlanControl&) noexcept { ++a; }
};
template <typename FSM>
struct InjB : FSM::State {
	using Base = typename FSM::State;
	using typename Base::PlanControl;
	int b = 0;
	void enter(PlanControl&) noexcept { ++b; }
	void exit(PlanControl&) noexcept { --b; }
};

#define ZOO_BUSY(FSM, NAME) \
	struct NAME : Busy<FSM> {}
#define ZOO_IDLE(FSM, NAME) \
	struct NAME : FSM::State {}
#define ZOO_INJ1(FSM, NAME) \
	struct NAME : FSM::StateT<InjA<FSM>> {}
#define ZOO_INJ2(FSM, NAME)                                                            \
	struct NAME : FSM::StateT<InjA<FSM>, InjB<FSM>> {                                  \
		Prong select(const Control&) noexcept { return 0; }                            \
		ZU(Rank rank(const Control&) noexcept { return Rank{0}; }                      \
		   Utility utility(const Control&) noexcept { return Utility{1}; })            \
		void entryGuard(GuardControl&) noexcept {}                                     \
		void enter(PlanControl&) noexcept {}                                           \
		void reenter(PlanControl&) noexcept {}                                         \
		void preUpdate(FullControl&) noexcept {}                                       \
		void update(FullControl& c) noexcept { c.changeTo(1); }                        \
		void postUpdate(FullControl&) noexcept {}                                      \
		template <typename TEvent>                                                     \
		void preReact(const TEvent&, EventControl&) noexcept {}                        \
		template <typename TEvent>                                                     \
		void react(const TEvent&, EventControl& c) noexcept { c.consumeEvent(); }      \
		template <typename TEvent>                                                     \
		void postReact(const TEvent&, EventControl&) noexcept {}                       \
		template <typename TEvent>                                                     \
		void query(TEvent&, ConstControl&) const noexcept {}                           \
		void exitGuard(GuardControl&) noexcept {}                                      \
		void exit(PlanControl&) noexcept {}                                            \
		ZP(void planSucceeded(FullControl& c) noexcept { c.succeed(); }                \
		   void planFailed(FullControl& c) noexcept { c.fail(); })                     \
	}

//------------------------------------------------------------------------------
// configurations

using CfgA = hfsm2::Config;  // EmptyContext, Automatic, TopDown, void payload, built-in RNG
using CfgB = hfsm2::Config::ContextT<Ctx&>::ManualActivation::BottomUpReactions::PayloadT<int>::SubstitutionLimitN<3>
	ZP(::TaskCapacityN<7>) ZU(::RandomT<MyRNG>);
using CfgC = hfsm2::Config::ContextT<Ctx>::PayloadT<Big> ZU(::RandomT<MyRNG>);
using CfgD = hfsm2::Config::ContextT<Ctx*>::ManualActivation ZU(::RankT<int>::UtilityT<double>::RandomT<MyRNG>);
using CfgE = hfsm2::Config::ContextT<Ctx&>;  // reference context with the built-in RNG (second InstanceT RNG specialisation)

using MA = hfsm2::MachineT<CfgA>;
using MB = hfsm2::MachineT<CfgB>;
using MC = hfsm2::MachineT<CfgC>;
using MD = hfsm2::MachineT<CfgD>;
using ME = hfsm2::MachineT<CfgE>;

#define S(s) struct s

#ifdef HFSM2_ENABLE_UTILITY_THEORY
#define ZUtilitarian Utilitarian
#define ZUtilitarianPeers UtilitarianPeers
#define ZRandom Random
#define ZRandomPeers RandomPeers
#else
#define ZUtilitarian Composite
#define ZUtilitarianPeers CompositePeers
#define ZRandom Resumable
#define ZRandomPeers ResumablePeers
#endif

//------------------------------------------------------------------------------
// Z1: headed composite root; every strategy nested, headed and headless; orthogonal regions with
// leaf-leaf, leaf-region, region-leaf, region-region siblings; widths 1, 2, 3, 4, 9.

namespace z1 {
using M = MA;
using FSM = M::Root<S(R),
	M::Resumable<S(A), S(A1), M::OrthogonalPeers<S(AO1), S(AO2)>, S(A3)>,
	M::SelectablePeers<S(B1), M::Composite<S(B2), S(B21), S(B22)>, M::Selectable<S(B3), S(B31), S(B32)>>,
	M::Orthogonal<S(O), S(O1), S(O2),
		M::ZUtilitarian<S(OU), S(OU1), M::ZRandomPeers<S(OR1), S(OR2)>, M::ZUtilitarianPeers<S(OUP1), S(OUP2)>>,
		M::ZRandom<S(ORR), S(ORR1), S(ORR2), S(ORR3), M::Orthogonal<S(ORO), S(ORO1), M::Composite<S(OROC), S(OROC1) ZS(, S(OROC2))>>>,
		S(O3)>,
	M::ResumablePeers<S(P1), M::CompositePeers<S(P21), S(P22)>, M::Resumable<S(P3), S(P31) ZS(, S(P32))>>
>;
ZOO_BUSY(FSM, R);
ZOO_BUSY(FSM, A);	ZOO_INJ1(FSM, A1);	ZOO_BUSY(FSM, AO1);	ZOO_IDLE(FSM, AO2);	ZOO_INJ2(FSM, A3);
ZOO_BUSY(FSM, B1);	ZOO_BUSY(FSM, B2);	ZOO_IDLE(FSM, B21);	ZOO_BUSY(FSM, B22);	ZOO_BUSY(FSM, B3);	ZOO_IDLE(FSM, B31);	ZOO_IDLE(FSM, B32);
ZOO_BUSY(FSM, O);	ZOO_BUSY(FSM, O1);	ZOO_INJ2(FSM, O2);	ZOO_BUSY(FSM, OU);	ZOO_BUSY(FSM, OU1);	ZOO_BUSY(FSM, OR1);	ZOO_IDLE(FSM, OR2);
ZOO_BUSY(FSM, OUP1); ZOO_IDLE(FSM, OUP2);
ZOO_BUSY(FSM, ORR);	ZOO_BUSY(FSM, ORR1); ZOO_IDLE(FSM, ORR2); ZOO_INJ1(FSM, ORR3); ZOO_BUSY(FSM, ORO); ZOO_BUSY(FSM, ORO1); ZOO_IDLE(FSM, OROC); ZOO_BUSY(FSM, OROC1); ZS(ZOO_IDLE(FSM, OROC2);)
ZOO_BUSY(FSM, O3);
ZOO_BUSY(FSM, P1);	ZOO_BUSY(FSM, P21);	ZOO_IDLE(FSM, P22);	ZOO_IDLE(FSM, P3);	ZOO_BUSY(FSM, P31); ZS(ZOO_IDLE(FSM, P32);)
}

//------------------------------------------------------------------------------
// Z2: headless orthogonal root; manual activation; bottom-up reactions; reference context; int payload;
// custom RNG; small substitution limit and task capacity.

namespace z2 {
using M = MB;
using FSM = M::OrthogonalPeerRoot<
	M::Composite<S(C), S(C1), S(C2)>,
	S(L1),
	S(L2),
	M::ZRandom<S(RN), S(RN1), M::ZUtilitarian<S(RU), S(RU1), S(RU2)>, M::Orthogonal<S(RO), S(RO1), S(RO2)>>,
	M::SelectablePeers<S(SP1), S(SP2), S(SP3)>,
	M::Orthogonal<S(OO), M::ResumablePeers<S(OOR1), S(OOR2)>>
>;
ZOO_BUSY(FSM, C);	ZOO_BUSY(FSM, C1);	ZOO_INJ2(FSM, C2);	ZOO_BUSY(FSM, L1);	ZOO_BUSY(FSM, L2);
ZOO_BUSY(FSM, RN);	ZOO_BUSY(FSM, RN1);	ZOO_BUSY(FSM, RU);	ZOO_BUSY(FSM, RU1);	ZOO_IDLE(FSM, RU2);	ZOO_BUSY(FSM, RO);	ZOO_BUSY(FSM, RO1);	ZOO_IDLE(FSM, RO2);
ZOO_BUSY(FSM, SP1);	ZOO_IDLE(FSM, SP2);	ZOO_INJ1(FSM, SP3);	ZOO_IDLE(FSM, OO);	ZOO_BUSY(FSM, OOR1); ZOO_IDLE(FSM, OOR2);
}

//------------------------------------------------------------------------------
// Z3: no orthogonal region at all (selects the second RegistryT); value context; over-aligned payload.

namespace z3 {
using M = MC;
using FSM = M::PeerRoot<
	M::Resumable<S(A), S(A1), S(A2), M::Selectable<S(AS), S(AS1), S(AS2)>>,
	S(L),
	M::ZUtilitarianPeers<S(U1), M::ZRandom<S(UR), S(UR1), S(UR2)>, M::CompositePeers<S(UC1), S(UC2)>>,
	M::ZRandomPeers<S(N1), S(N2), M::ZUtilitarian<S(NU), S(NU1), S(NU2)>>,
	M::Composite<S(X), S(X1), S(X2), S(X3), S(X4), S(X5)>
>;
ZOO_BUSY(FSM, A);	ZOO_BUSY(FSM, A1);	ZOO_IDLE(FSM, A2);	ZOO_BUSY(FSM, AS);	ZOO_BUSY(FSM, AS1);	ZOO_IDLE(FSM, AS2);
ZOO_BUSY(FSM, L);	ZOO_BUSY(FSM, U1);	ZOO_BUSY(FSM, UR);	ZOO_BUSY(FSM, UR1);	ZOO_IDLE(FSM, UR2);	ZOO_BUSY(FSM, UC1);	ZOO_IDLE(FSM, UC2);
ZOO_BUSY(FSM, N1);	ZOO_INJ1(FSM, N2);	ZOO_BUSY(FSM, NU);	ZOO_BUSY(FSM, NU1);	ZOO_IDLE(FSM, NU2);
ZOO_IDLE(FSM, X);	ZOO_BUSY(FSM, X1);	ZOO_IDLE(FSM, X2);	ZOO_INJ2(FSM, X3);	ZOO_IDLE(FSM, X4);	ZOO_BUSY(FSM, X5);
}

//------------------------------------------------------------------------------
// Z4: utilitarian headed root; pointer context; manual activation; int rank, double utility.

namespace z4a {
using M = MD;
#ifdef HFSM2_ENABLE_UTILITY_THEORY
using FSM = M::UtilitarianRoot<S(U), S(U1), M::Random<S(UR), S(UR1), S(UR2)>, M::OrthogonalPeers<S(UO1), M::Utilitarian<S(UOU), S(UOU1), S(UOU2)>>>;
#else
using FSM = M::ResumableRoot<S(U), S(U1), M::Resumable<S(UR), S(UR1), S(UR2)>, M::OrthogonalPeers<S(UO1), M::Composite<S(UOU), S(UOU1), S(UOU2)>>>;
#endif
ZOO_BUSY(FSM, U);	ZOO_BUSY(FSM, U1);	ZOO_BUSY(FSM, UR);	ZOO_BUSY(FSM, UR1);	ZOO_IDLE(FSM, UR2);	ZOO_BUSY(FSM, UO1);	ZOO_BUSY(FSM, UOU);	ZOO_BUSY(FSM, UOU1); ZOO_IDLE(FSM, UOU2);
}

//------------------------------------------------------------------------------
// Z5: random headless root, reference context with the built-in RNG; Z6: selectable root; Z7: resumable peer
// root; Z8: orthogonal headed root.

namespace z5 {
using M = ME;
#ifdef HFSM2_ENABLE_UTILITY_THEORY
using FSM = M::RandomPeerRoot<S(N1), S(N2), M::RandomPeers<S(NN1), S(NN2)>, M::Selectable<S(NS), S(NS1), S(NS2)>>;
#else
using FSM = M::SelectablePeerRoot<S(N1), S(N2), M::SelectablePeers<S(NN1), S(NN2)>, M::Selectable<S(NS), S(NS1), S(NS2)>>;
#endif
ZOO_BUSY(FSM, N1);	ZOO_IDLE(FSM, N2);	ZOO_BUSY(FSM, NN1);	ZOO_IDLE(FSM, NN2);	ZOO_BUSY(FSM, NS);	ZOO_BUSY(FSM, NS1);	ZOO_IDLE(FSM, NS2);
}

namespace z6 {
using M = MA;
using FSM = M::SelectableRoot<S(SR), S(SR1), M::SelectablePeers<S(SS1), S(SS2)>, M::Orthogonal<S(SO), S(SO1)>>;
ZOO_BUSY(FSM, SR);	ZOO_BUSY(FSM, SR1);	ZOO_BUSY(FSM, SS1);	ZOO_IDLE(FSM, SS2);	ZOO_BUSY(FSM, SO);	ZOO_BUSY(FSM, SO1);
}

namespace z7 {
using M = MB;
using FSM = M::ResumablePeerRoot<S(P1), M::ZUtilitarianPeers<S(PU1), S(PU2)>, S(P3)>;
ZOO_BUSY(FSM, P1);	ZOO_BUSY(FSM, PU1);	ZOO_IDLE(FSM, PU2);	ZOO_INJ1(FSM, P3);
}

namespace z8 {
using M = MC;
using FSM = M::OrthogonalRoot<S(OR), M::Composite<S(OC), S(OC1), S(OC2)>, S(OL)>;
ZOO_BUSY(FSM, OR);	ZOO_BUSY(FSM, OC);	ZOO_BUSY(FSM, OC1);	ZOO_IDLE(FSM, OC2);	ZOO_BUSY(FSM, OL);
}

//------------------------------------------------------------------------------
// Z9: wide composite (9: odd split at several depths) and orthogonal with region-leaf-region siblings.

namespace z9 {
using M = MA;
using FSM = M::PeerRoot<
	M::Composite<S(W), S(W1), S(W2), S(W3), S(W4), S(W5), S(W6), S(W7), S(W8), S(W9)>,
	M::Orthogonal<S(Q), M::Composite<S(QC), S(QC1), S(QC2)>, S(Q2), M::OrthogonalPeers<S(QO1), M::Resumable<S(QO2), S(QO21), S(QO22)>>>,
	S(L)
>;
ZOO_IDLE(FSM, W);	ZOO_BUSY(FSM, W1);	ZOO_IDLE(FSM, W2);	ZOO_IDLE(FSM, W3);	ZOO_IDLE(FSM, W4);	ZOO_BUSY(FSM, W5);	ZOO_IDLE(FSM, W6);	ZOO_IDLE(FSM, W7);	ZOO_IDLE(FSM, W8);	ZOO_BUSY(FSM, W9);
ZOO_IDLE(FSM, Q);	ZOO_BUSY(FSM, QC);	ZOO_BUSY(FSM, QC1);	ZOO_IDLE(FSM, QC2);	ZOO_BUSY(FSM, Q2);	ZOO_BUSY(FSM, QO1);	ZOO_IDLE(FSM, QO2);	ZOO_BUSY(FSM, QO21); ZOO_IDLE(FSM, QO22);
ZOO_BUSY(FSM, L);
}

//------------------------------------------------------------------------------
// Z10: an orthogonal region wider than 8 (two request-bit units) ahead of further orthogonal regions: ORTHO_UNIT != ORTHO_INDEX and
// REGION_ID != COMPO_INDEX for the regions behind it (the index constants of the accessors are only distinguishable here).

namespace z10 {
using M = MA;
using FSM = M::PeerRoot<
	M::OrthogonalPeers<S(V1), S(V2), S(V3), S(V4), S(V5), S(V6), S(V7), S(V8), M::Composite<S(V9), S(V91), S(V92)>>,
	M::Orthogonal<S(T), M::Composite<S(TC), S(TC1), S(TC2)>, M::OrthogonalPeers<S(TO1), M::Resumable<S(TO2), S(TO21), S(TO22)>>>,
	M::Composite<S(Y), S(Y1), S(Y2)>
>;
ZOO_BUSY(FSM, V1);	ZOO_IDLE(FSM, V2);	ZOO_IDLE(FSM, V3);	ZOO_IDLE(FSM, V4);	ZOO_BUSY(FSM, V5);	ZOO_IDLE(FSM, V6);	ZOO_IDLE(FSM, V7);	ZOO_IDLE(FSM, V8);
ZOO_BUSY(FSM, V9);	ZOO_BUSY(FSM, V91);	ZOO_IDLE(FSM, V92);
ZOO_BUSY(FSM, T);	ZOO_BUSY(FSM, TC);	ZOO_BUSY(FSM, TC1);	ZOO_IDLE(FSM, TC2);	ZOO_BUSY(FSM, TO1);	ZOO_BUSY(FSM, TO2);	ZOO_BUSY(FSM, TO21); ZOO_IDLE(FSM, TO22);
ZOO_BUSY(FSM, Y);	ZOO_BUSY(FSM, Y1);	ZOO_IDLE(FSM, Y2);
}

#undef S

//------------------------------------------------------------------------------
// the public instance API, named once per machine (never executed)

#ifdef HFSM2_ENABLE_LOG_INTERFACE
template <typename FSM>
struct ZooLogger : FSM::Logger {};
#endif

//------------------------------------------------------------------------------
// the state-typed convenience overloads (X<TState>() forwarding to X(stateId<TState>())): instance, controls, plans.
// TA, TB: two states; TR: a region head.  Never executed.

template <typename FSM, typename TPayload>
struct TypedWith {
	template <typename TA, typename TInstance>
	static void instance(TInstance& m) noexcept {
		const TPayload p{};
		m.template changeWith<TA>(p);
		m.template restartWith<TA>(p);
		m.template resumeWith<TA>(p);
		m.template selectWith<TA>(p);
		ZU(m.template utilizeWith<TA>(p); m.template randomizeWith<TA>(p);)
		m.template scheduleWith<TA>(p);
		m.template immediateChangeWith<TA>(p);
		m.template immediateRestartWith<TA>(p);
		m.template immediateResumeWith<TA>(p);
		m.template immediateSelectWith<TA>(p);
		ZU(m.template immediateUtilizeWith<TA>(p); m.template immediateRandomizeWith<TA>(p);)
	}
	template <typename TA, typename TControl>
	static void control(TControl& c) noexcept {
		const TPayload p{};
		c.template changeWith<TA>(p);
		c.template restartWith<TA>(p);
		c.template resumeWith<TA>(p);
		c.template selectWith<TA>(p);
		ZU(c.template utilizeWith<TA>(p); c.template randomizeWith<TA>(p);)
		c.template scheduleWith<TA>(p);
	}
#ifdef HFSM2_ENABLE_PLANS
	template <typename TA, typename TB, typename TPlan>
	static void plan(TPlan& pl) noexcept {
		const TPayload p{};
		pl.template changeWith<TA, TB>(p);
		pl.template restartWith<TA, TB>(p);
		pl.template resumeWith<TA, TB>(p);
		pl.template selectWith<TA, TB>(p);
		ZU(pl.template utilizeWith<TA, TB>(p); pl.template randomizeWith<TA, TB>(p);)
		pl.template scheduleWith<TA, TB>(p);
		pl.template changeWith<TA>(1, p);
		pl.template restartWith<TA>(1, p);
		pl.template resumeWith<TA>(1, p);
		pl.template selectWith<TA>(1, p);
		ZU(pl.template utilizeWith<TA>(1, p); pl.template randomizeWith<TA>(1, p);)
		pl.template scheduleWith<TA>(1, p);
	}
#endif
};

template <typename FSM>
struct TypedWith<FSM, void> {
	template <typename TA, typename TInstance>
	static void instance(TInstance&) noexcept {}
	template <typename TA, typename TControl>
	static void control(TControl&) noexcept {}
	template <typename TA, typename TB, typename TPlan>
	static void plan(TPlan&) noexcept {}
};

template <typename FSM, typename TA, typename TB, typename TR>
struct Typed {
	using Payload = typename FSM::Payload;

	template <typename TInstance>
	static void instance(TInstance& m) noexcept {
		(void)m.template isActive<TA>();
		(void)m.template isResumable<TA>();
		(void)m.template isScheduled<TA>();
		(void)m.template activeSubState<TR>();
		(void)m.template access<TA>();
		(void)m.template isPendingChange<TA>();
		(void)m.template isPendingEnter<TA>();
		(void)m.template isPendingExit<TA>();
		(void)m.template stateId<TA>();
		(void)m.template regionId<TR>();
		m.template changeTo<TA>();
		m.template restart<TA>();
		m.template resume<TA>();
		m.template select<TA>();
		ZU(m.template utilize<TA>(); m.template randomize<TA>();)
		m.template schedule<TA>();
		m.template immediateChangeTo<TA>();
		m.template immediateRestart<TA>();
		m.template immediateResume<TA>();
		m.template immediateSelect<TA>();
		ZU(m.template immediateUtilize<TA>(); m.template immediateRandomize<TA>();)
		ZH((void)m.template lastTransitionTo<TA>();)
		ZP(m.template succeed<TA>(); m.template fail<TA>(); auto p = m.template plan<TR>(); plans(p);)
		TypedWith<FSM, Payload>::template instance<TA>(m);
	}
#ifdef HFSM2_ENABLE_PLANS
	template <typename TPlan>
	static void plans(TPlan& p) noexcept {
		p.template change<TA, TB>();
		p.template restart<TA, TB>();
		p.template resume<TA, TB>();
		p.template select<TA, TB>();
		ZU(p.template utilize<TA, TB>(); p.template randomize<TA, TB>();)
		p.template schedule<TA, TB>();
		p.template change<TA>(1);
		p.template restart<TA>(1);
		p.template resume<TA>(1);
		p.template select<TA>(1);
		ZU(p.template utilize<TA>(1); p.template randomize<TA>(1);)
		p.template schedule<TA>(1);
		TypedWith<FSM, Payload>::template plan<TA, TB>(p);
	}
#endif
	template <typename TControl>
	static void full(TControl& c) noexcept {
		(void)c.template stateId<TA>();
		(void)c.template regionId<TR>();
		(void)c.template isActive<TA>();
		(void)c.template isResumable<TA>();
		(void)c.template isScheduled<TA>();
		(void)c.template activeSubState<TR>();
		c.template changeTo<TA>();
		c.template restart<TA>();
		c.template resume<TA>();
		c.template select<TA>();
		ZU(c.template utilize<TA>(); c.template randomize<TA>();)
		c.template schedule<TA>();
		ZP(c.template succeed<TA>(); c.template fail<TA>(); auto p = c.template plan<TR>(); plans(p);)
		ZH((void)c.template lastTransitionTo<TA>();)
		TypedWith<FSM, Payload>::template control<TA>(c);
	}
	template <typename TControl>
	static void guard(TControl& c) noexcept {
		(void)c.template isPendingEnter<TA>();
		(void)c.template isPendingExit<TA>();
		(void)c.template isPendingChange<TA>();
	}
	template <typename TControl>
	static void query(TControl& c) noexcept {
		(void)c.template stateId<TA>();
		(void)c.template regionId<TR>();
		(void)c.isScheduled(1);
		(void)c.template isActive<TA>();
		(void)c.template isResumable<TA>();
		(void)c.template isScheduled<TA>();
		(void)c.template activeSubState<TR>();
		ZH((void)c.template lastTransitionTo<TA>();)
	}
};

template <typename FSM, typename TA, typename TB, typename TR>
struct TypedProbe : FSM::State {
	using Base = typename FSM::State;
	using typename Base::ConstControl;
	using typename Base::Control;
	using typename Base::FullControl;
	using typename Base::GuardControl;
	using typename Base::PlanControl;
	using T = Typed<FSM, TA, TB, TR>;
	void probe(FullControl& c, GuardControl& g, ConstControl& q, PlanControl& pc, Control& cc) noexcept {
		T::full(c);
		T::guard(g);
		T::query(q);
		T::query(pc);
		T::query(cc);
	}
};

template <typename FSM, typename TInstance>
void exerciseCommon(TInstance& m) noexcept {
	using Payload = typename FSM::Payload;
	m.update();
	m.react(Ev1{1});
	m.react(Ev2{});
	Q1 q;
	m.query(q);
	const TInstance& cm = m;
	cm.query(q);
	(void)m.context();
	(void)cm.context();
	(void)m.activeSubState(1);
	(void)m.isActive(1);
	(void)m.isResumable(1);
	(void)m.isScheduled(1);
	(void)m.isPendingChange(1);
	(void)m.isPendingEnter(1);
	(void)m.isPendingExit(1);
	m.changeTo(1);
	m.restart(1);
	m.resume(1);
	m.select(1);
	ZU(m.utilize(1); m.randomize(1);)
	m.schedule(1);
	m.immediateChangeTo(1);
	m.immediateRestart(1);
	m.immediateResume(1);
	m.immediateSelect(1);
	ZU(m.immediateUtilize(1); m.immediateRandomize(1);)
	WithCalls<FSM, Payload>::instance(m, 1);
	m.reset();
	ZP(auto p = m.plan(); p.change(1, 2); p.restart(1, 2); p.resume(1, 2); p.select(1, 2);
	   ZU(p.utilize(1, 2); p.randomize(1, 2);) p.schedule(1, 2); WithCalls<FSM, Payload>::plan(p, 1, 2);
	   for (auto it = p.begin(); it; ++it) { it.remove(); } p.clear(); auto p2 = m.plan(1); (void)static_cast<bool>(p2);
	   m.succeed(1); m.fail(1);)
	ZS(typename TInstance::SerialBuffer buffer; m.save(buffer); m.load(buffer);)
	ZH((void)m.previousTransitions(); m.replayTransitions(m.previousTransitions()); (void)m.lastTransitionTo(1);
	   const typename FSM::Config::Transition t{1, hfsm2::TransitionType::CHANGE}; m.replayTransition(t); m.replayTransitions(&t, 1);)
	ZR((void)m.structure(); (void)m.activityHistory();)
	ZL(m.attachLogger(nullptr);)
}

template <typename FSM, typename TInstance>
void exerciseManual(TInstance& m) noexcept {
	m.enter();
	ZH(m.exit(); m.replayEnter(m.previousTransitions()); const typename FSM::Config::Transition t{1, hfsm2::TransitionType::CHANGE};
	   m.exit(); m.replayEnter(t); m.exit(); m.replayEnter(&t, 1);)
	exerciseCommon<FSM>(m);
	m.exit();
}

#ifndef ZOO_PART
#define ZOO_PART 0
#endif
#define ZOO_IN(p) (ZOO_PART == 0 || ZOO_PART == (p))

// the typed control overloads are instantiated through explicit instantiation of the probes (never called)
#if ZOO_IN(1)
template struct TypedProbe<z1::FSM, z1::A1, z1::B1, z1::A>;
#endif
#if ZOO_IN(2)
template struct TypedProbe<z2::FSM, z2::C1, z2::SP2, z2::C>;
#endif
#if ZOO_IN(3)
template struct TypedProbe<z3::FSM, z3::A1, z3::X2, z3::A>;
#endif

inline void buildAll() noexcept {
	Ctx ctx;
	(void)ctx;
	ZU(MyRNG rng; (void)rng;)
#if ZOO_IN(1)
	{
		using FSM = z1::FSM;
		ZL(ZooLogger<FSM> logger;)
		FSM::Instance m{ZL(&logger)};
		exerciseCommon<FSM>(m);
		FSM::Instance c{m};
		(void)m.access<z1::A>();
		(void)static_cast<const FSM::Instance&>(m).access<z1::A>();
		(void)m.isActive<z1::A>();
		m.changeTo<z1::A>();
		Typed<FSM, z1::A1, z1::B1, z1::A>::instance(m);
	}
#endif
#if ZOO_IN(2)
	{
		using FSM = z2::FSM;
		FSM::Instance m{ctx ZU(, rng)};
		exerciseManual<FSM>(m);
		Typed<FSM, z2::C1, z2::SP2, z2::C>::instance(m);
		FSM::Instance c{m};
	}
	{
		using FSM = z7::FSM;
		FSM::Instance m{ctx ZU(, rng)};
		exerciseManual<FSM>(m);
	}
#endif
#if ZOO_IN(3)
	{
		using FSM = z3::FSM;
		FSM::Instance m{ctx ZU(, rng)};
		exerciseCommon<FSM>(m);
		Typed<FSM, z3::A1, z3::X2, z3::A>::instance(m);
		FSM::Instance m2{Ctx{} ZU(, rng)};
		FSM::Instance c{m};
	}
	{
		using FSM = z8::FSM;
		FSM::Instance m{ctx ZU(, rng)};
		exerciseCommon<FSM>(m);
	}
#endif
#if ZOO_IN(4)
	{
		using FSM = z4a::FSM;
		FSM::Instance m{&ctx ZU(, rng)};
		exerciseManual<FSM>(m);
		m.setContext(&ctx);
	}
	{
		using FSM = z5::FSM;
		FSM::Instance m{ctx};
		exerciseCommon<FSM>(m);
		FSM::Instance c{m};
	}
	{
		using FSM = z6::FSM;
		FSM::Instance m;
		exerciseCommon<FSM>(m);
	}
	{
		using FSM = z9::FSM;
		ZL(ZooLogger<FSM> logger;)
		FSM::Instance m{ZL(&logger)};
		exerciseCommon<FSM>(m);
	}
	{
		using FSM = z10::FSM;
		ZL(ZooLogger<FSM> logger;)
		FSM::Instance m{ZL(&logger)};
		exerciseCommon<FSM>(m);
		FSM::Instance c{m};
	}
#endif
}

}  // namespace zoo
