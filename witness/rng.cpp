// witness TU for C20: the bundled generators (non-template inline members: parsed in full whether used or not)
#define HFSM2_ENABLE_UTILITY_THEORY
#include <hfsm2/machine.hpp>
void rng_entry() noexcept {
	hfsm2::RNGT<float> f{1};
	(void)f.next();
	f.jump();
	hfsm2::RNGT<uintptr_t> i{1};
	(void)i.uint64();
	i.jump();
	hfsm2::detail::FloatRandomT<4> f4{1u};
	(void)f4.next();
	(void)f4.float64();
	f4.jump();
	hfsm2::detail::IntRandomT<4> i4{1u};
	(void)i4.uint32();
	(void)i4.float32();
	i4.jump();
	hfsm2::detail::SimpleRandomT<8> s8{1};
	(void)s8.uint64();
	hfsm2::detail::SimpleRandomT<4> s4{1u};
	(void)s4.uint32();
}
