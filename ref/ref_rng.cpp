// Reference generators, transcribed from the published public-domain sources (no network in this sandbox):
//   splitmix64.c        (Sebastiano Vigna, 2015)            http://xoshiro.di.unimi.it/splitmix64.c
//   splitmix32          (murmur3 finaliser variant)          https://groups.google.com/forum/#!topic/prng/VFjdFmbMgZI
//   xoshiro256plus.c / xoshiro256starstar.c / xoshiro128plus.c / xoshiro128starstar.c (David Blackman, Sebastiano Vigna, 2018-2019)
// Parsed by the fact extractor only (never compiled into anything, never run): the HFSM2 implementations are compared with these
// term by term (rules/C20.py).  Part of the trusted base of C20.reference.
#include <stdint.h>

namespace ref {

static inline uint64_t rotl64(const uint64_t x, int k) { return (x << k) | (x >> (64 - k)); }
static inline uint32_t rotl32(const uint32_t x, int k) { return (x << k) | (x >> (32 - k)); }

// ---- splitmix64
struct splitmix64 {
	uint64_t x;
	uint64_t next() {
		uint64_t z = (x += 0x9e3779b97f4a7c15);
		z = (z ^ (z >> 30)) * 0xbf58476d1ce4e5b9;
		z = (z ^ (z >> 27)) * 0x94d049bb133111eb;
		return z ^ (z >> 31);
	}
};

// ---- splitmix32
struct splitmix32 {
	uint32_t x;
	uint32_t next() {
		uint32_t z = (x += 0x9e3779b9);
		z = (z ^ (z >> 16)) * 0x85ebca6b;
		z = (z ^ (z >> 13)) * 0xc2b2ae35;
		return z ^ (z >> 16);
	}
};

// ---- xoshiro256+
struct xoshiro256plus {
	uint64_t s[4];
	uint64_t next() {
		const uint64_t result = s[0] + s[3];
		const uint64_t t = s[1] << 17;
		s[2] ^= s[0];
		s[3] ^= s[1];
		s[1] ^= s[2];
		s[0] ^= s[3];
		s[2] ^= t;
		s[3] = rotl64(s[3], 45);
		return result;
	}
	void jump() {
		static const uint64_t JUMP[] = { 0x180ec6d33cfd0aba, 0xd5a61266f0c9392c, 0xa9582618e03fc9aa, 0x39abdc4529b1661c };
		uint64_t s0 = 0;
		uint64_t s1 = 0;
		uint64_t s2 = 0;
		uint64_t s3 = 0;
		for (unsigned i = 0; i < sizeof JUMP / sizeof *JUMP; i++)
			for (int b = 0; b < 64; b++) {
				if (JUMP[i] & UINT64_C(1) << b) {
					s0 ^= s[0];
					s1 ^= s[1];
					s2 ^= s[2];
					s3 ^= s[3];
				}
				next();
			}
		s[0] = s0;
		s[1] = s1;
		s[2] = s2;
		s[3] = s3;
	}
};

// ---- xoshiro256**
struct xoshiro256starstar {
	uint64_t s[4];
	uint64_t next() {
		const uint64_t result = rotl64(s[1] * 5, 7) * 9;
		const uint64_t t = s[1] << 17;
		s[2] ^= s[0];
		s[3] ^= s[1];
		s[1] ^= s[2];
		s[0] ^= s[3];
		s[2] ^= t;
		s[3] = rotl64(s[3], 45);
		return result;
	}
	void jump() {
		static const uint64_t JUMP[] = { 0x180ec6d33cfd0aba, 0xd5a61266f0c9392c, 0xa9582618e03fc9aa, 0x39abdc4529b1661c };
		uint64_t s0 = 0;
		uint64_t s1 = 0;
		uint64_t s2 = 0;
		uint64_t s3 = 0;
		for (unsigned i = 0; i < sizeof JUMP / sizeof *JUMP; i++)
			for (int b = 0; b < 64; b++) {
				if (JUMP[i] & UINT64_C(1) << b) {
					s0 ^= s[0];
					s1 ^= s[1];
					s2 ^= s[2];
					s3 ^= s[3];
				}
				next();
			}
		s[0] = s0;
		s[1] = s1;
		s[2] = s2;
		s[3] = s3;
	}
};

// ---- xoshiro128+
struct xoshiro128plus {
	uint32_t s[4];
	uint32_t next() {
		const uint32_t result = s[0] + s[3];
		const uint32_t t = s[1] << 9;
		s[2] ^= s[0];
		s[3] ^= s[1];
		s[1] ^= s[2];
		s[0] ^= s[3];
		s[2] ^= t;
		s[3] = rotl32(s[3], 11);
		return result;
	}
	void jump() {
		static const uint32_t JUMP[] = { 0x8764000b, 0xf542d2d3, 0x6fa035c3, 0x77f2db5b };
		uint32_t s0 = 0;
		uint32_t s1 = 0;
		uint32_t s2 = 0;
		uint32_t s3 = 0;
		for (unsigned i = 0; i < sizeof JUMP / sizeof *JUMP; i++)
			for (int b = 0; b < 32; b++) {
				if (JUMP[i] & UINT32_C(1) << b) {
					s0 ^= s[0];
					s1 ^= s[1];
					s2 ^= s[2];
					s3 ^= s[3];
				}
				next();
			}
		s[0] = s0;
		s[1] = s1;
		s[2] = s2;
		s[3] = s3;
	}
};

// ---- xoshiro128**
struct xoshiro128starstar {
	uint32_t s[4];
	uint32_t next() {
		const uint32_t result = rotl32(s[1] * 5, 7) * 9;
		const uint32_t t = s[1] << 9;
		s[2] ^= s[0];
		s[3] ^= s[1];
		s[1] ^= s[2];
		s[0] ^= s[3];
		s[2] ^= t;
		s[3] = rotl32(s[3], 11);
		return result;
	}
	void jump() {
		static const uint32_t JUMP[] = { 0x8764000b, 0xf542d2d3, 0x6fa035c3, 0x77f2db5b };
		uint32_t s0 = 0;
		uint32_t s1 = 0;
		uint32_t s2 = 0;
		uint32_t s3 = 0;
		for (unsigned i = 0; i < sizeof JUMP / sizeof *JUMP; i++)
			for (int b = 0; b < 32; b++) {
				if (JUMP[i] & UINT32_C(1) << b) {
					s0 ^= s[0];
					s1 ^= s[1];
					s2 ^= s[2];
					s3 ^= s[3];
				}
				next();
			}
		s[0] = s0;
		s[1] = s1;
		s[2] = s2;
		s[3] = s3;
	}
};

}  // namespace ref
